"""--replay support for the checks written around drivers/transport, gate,
crashpoints, keepalive, countloops, hostile and rekey: re-executes the one
case recorded in a replay file (written next to a VIOLATION line) against
the current tree and reports it through the same monitors."""

import json


def load(ctx):
    with open(ctx.replay_path) as f:
        doc = json.load(f)
    print(f'replaying {ctx.replay_path}: {doc.get("what", "")[:300]}')
    return doc['replay'], doc.get('signature', {})


def c02(ctx, T, judge_session):
    rp, sig = load(ctx)
    if rp['kind'] == 'nonce-unit':
        from harness.drivers import nonce as N
        bad = N.unit_case(rp['alg'].encode(), rp['fixed'], rp['ctr'],
                          rp['steps'], salt=ctx.seed % 200)
        print('clauses:', bad)
        ctx.count(('replay', 'nonce-unit'))
        if bad:
            ctx.violation(sig, '; '.join(bad), replay=rp)
    elif rp['kind'] == 'session' and rp.get('module') == 'Nonce':
        from harness.drivers import nonce as N
        iv = N.concrete(rp['fixed'], rp['ctr'])
        kw = dict(encryption_algs=[rp['alg']])
        pl = [b'n' * 9, b'o' * 33, b'p' * 5, b'q' * 70]
        r = T.run_session(pl, client_kw=kw, server_kw=kw,
                          after_connect=T.iv_jump({'cs': iv, 'sc': iv}))
        ctx.count(('replay', 'nonce-live'))
        judge_session(ctx, r, pl, rp.get('what', 'replay'), sig)
    elif rp['kind'] == 'session' and 'rekey' in rp and 'cmp' in rp:
        import random
        prng = random.Random(4253)
        pl = [prng.randbytes(400) for i in range(10)]
        kw = dict(encryption_algs=[rp['enc']], compression_algs=[rp['cmp']])
        r = T.run_session(pl, client_kw=kw, server_kw=kw,
                          rekey_bytes=rp['rekey'])
        ctx.count(('replay', 'rekey-cmp'))
        judge_session(ctx, r, pl, rp.get('what', 'replay'), sig)
    else:
        raise SystemExit(f'replay of this {rp["kind"]} case needs the '
                         'generated inputs; run the check itself')


def c01(ctx, judge, macsize_of):
    from harness.drivers import transport as T
    rp, sig = load(ctx)
    payloads = [b'line%d\n' % i for i in range(5)]
    if rp['kind'] == 'burst':
        got, lost = T.burst_after_drop(rp['enc'], rp['drop'], rp['calls'])
        ctx.count(('replay', 'burst'))
        if got:
            ctx.violation(sig, f'{rp["enc"]}: packets removed, yet {got!r} '
                          f'reached the application', replay=rp)
        return
    enc, mac = rp['enc'], rp['mac']
    kw = dict(encryption_algs=[enc], mac_algs=[mac],
              compression_algs=[rp.get('cmp', 'none')])
    actions = [dict(a) for a in rp['actions']]
    for a in actions:
        a.pop('done', None)
    m = T.Mitm(actions, macsize=macsize_of(enc, mac))
    d = rp.get('dir') or actions[0]['dir']
    r = T.run_session(payloads, client_kw=kw, server_kw=kw, mitm=m)
    ctx.count(('replay', 'mitm'))
    print('outcome:', r['outcome'], 'lost:', r['lost'])
    judge(ctx, T, r, m, d, actions, payloads, 'replay', sig)


def c06(ctx):
    from harness.drivers import gate as G
    rp, sig = load(ctx)
    body = bytes.fromhex(rp.get('body', ''))
    if rp['kind'] == 'server':
        twin = G.run_server_case(no_strict=rp.get('no_strict', False))
        r = G.run_server_case(rp['phase'], rp['type'], body,
                              no_strict=rp.get('no_strict', False))
    elif rp['kind'] == 'server-auth':
        twin = G.run_server_auth_case()
        r = G.run_server_auth_case(rp['phase'], rp['type'], body)
    elif rp['kind'] == 'server-clear':
        twin = G.run_server_case(no_strict=not rp['strict'])
        guessed = rp['point'] == 'guessed'
        r = G.run_server_case(None, no_strict=not rp['strict'],
                              wrong_guess=guessed,
                              cleartext={'after_kexinit' if guessed else
                                         rp['point']: [(rp['type'], body)]})
        if guessed and rp['strict'] and not r.get('closed') and \
                not (30 <= rp['type'] <= 49):
            ctx.violation(sig, 'strict key exchange: the message in place of '
                          'the wrongly guessed packet was tolerated', replay=rp)
    elif rp['kind'] == 'client':
        twin = G.run_client_case()
        r = G.run_client_case(rp['point'], rp['type'], body)
    elif rp['kind'] == 'clear':
        # cleartext injection by the MITM during the first key exchange
        from harness.drivers import transport as T
        from checks.c06 import ClearInjector
        t, b = next((t, b) for vname, t, b in G.variants(rp['class'])
                    if vname == 'wellformed')
        payloads = [b'ok\n']
        m = ClearInjector(rp['dir'], rp['pos'], [(t, b)])
        r = T.run_session(payloads, mitm=m)
        ctx.count(('replay', 'clear'))
        late = [x for x in (m.after or ()) if x not in (1, 3)]
        print('outcome:', r['outcome'], 'fired:', m.fired, 'emitted by the '
              'receiver after the forged packet:', m.after)
        if sig.get('clause') == 'AnsweredOutOfPhase':
            if late:
                ctx.violation(sig, f'the receiver answered the refused '
                              f'cleartext {rp["class"]} with {late}',
                              replay=rp)
        elif m.fired and r['outcome'] == 'ok' and r['echoed'] == payloads:
            ctx.violation(sig, 'the cleartext injection went unnoticed under '
                          'strict key exchange', replay=rp)
        return
    else:
        raise SystemExit(f'replay kind {rp["kind"]} is not supported here')
    ctx.count(('replay', rp['kind']))
    print('twin  :', {k: twin[k] for k in twin if k != 'loop_exceptions'})
    print('replay:', r)
    late = [x for x in (r.get('after_inj') or ()) if x not in (1, 3)]
    if sig.get('clause') == 'AnsweredOutOfPhase' and late:
        ctx.violation(sig, f'the refused message was answered with {late}',
                      replay=rp)
    closed = r.get('closed') or str(r.get('outcome', '')).startswith('error')
    same = all(r.get(k) == twin.get(k) for k in ('seen', 'log', 'outcome',
                                                 'requests') if k in twin)
    if not closed and not same:
        ctx.violation(sig, 'injected message took effect: the run differs '
                      f'from the twin and the connection stayed up: {r}',
                      replay=rp)


def c09(ctx):
    from harness import tlc
    from harness.drivers import crashpoints, keepalive
    rp, sig = load(ctx)
    if rp['kind'] == 'crashpoint':
        scen, skw = None, {}
        if rp.get('scenario') == 'flow':
            scen = crashpoints.scenario_flow
            skw = dict(window=1024, max_pktsize=512)
        import os
        os.makedirs(tlc.WORK, exist_ok=True)
        r = crashpoints.Run(rp['k'] or None, rp['fault'], workdir=tlc.WORK,
                            scenario=scen, server_kw=skw).run()
        bad = crashpoints.judge(r, rp['fault'] is not None)
        print('outcome:', r['outcome'], 'pending:', r['pending'],
              'log tail:', r['log'][-3:])
        ctx.count(('replay', 'crashpoint'))
        if bad:
            ctx.violation(sig, '; '.join(bad[:3]), replay=rp)
    elif rp['kind'] == 'login_timeout':
        at, info = keepalive.login_timeout_case(rp['stall'], rp['timeout'])
        print('dropped at', at, info)
        ctx.count(('replay', 'login_timeout'))
        if rp['stall'] != 'auth' and at is None:
            ctx.violation(sig, 'stalled peer never dropped', replay=rp)
    elif rp['kind'] in ('script', 'behaviour') and 'chans' in rp:
        from harness.drivers import lifecycle
        steps = []
        for l in rp['script']:
            if l[0] == 'chunk':
                steps.append((l[:3], None))
                steps += [(['deliver', l[1], t, 0], None) for t in l[3]]
            else:
                steps.append((l, None))
        r = lifecycle.replay(steps, rp['chans'], rp['reject'],
                             win=rp.get('win', 0),
                             prefix=rp.get('prefix', False))
        r['l1'] = [b for b in r['l1'] if not b.startswith('DataBeforeClose')]
        print('l1:', r['l1'], 'loop exceptions:', r['loop_exceptions'])
        ctx.count(('replay', 'script'))
        if r['l1'] or r['loop_exceptions']:
            ctx.violation(sig, '; '.join((r['l1'] + r['loop_exceptions'])[:4]),
                          replay=rp)
    elif rp['kind'] == 'behaviour':
        steps = [(tuple(l) if isinstance(l, list) else l, None)
                 for l in rp['script']]
        r = rekey.replay(steps, rp['thresh'][0], rp['thresh'][1],
                         timer=rp.get('timer', ''))
        print('l1:', r['l1'])
        ctx.count(('replay', 'behaviour'))
        if r['l1']:
            ctx.violation(sig, '; '.join(r['l1'][:3]), replay=rp)
    else:
        raise SystemExit(f'replay kind {rp["kind"]} needs the model states; '
                         'run the check itself')


def c10(ctx, H):
    from harness.drivers import countloops as CL
    rp, sig = load(ctx)
    if rp['kind'] == 'count':
        r = CL.run_case(rp['site'], rp['count'], rp['present'])
        print(r)
        ctx.count(('replay', 'count'))
        if r['outcome'] == 'hang' or r['seconds'] > 1.5 or \
                r['loop_exceptions']:
            ctx.violation(sig, f'{rp["site"]}: {r}', replay=rp)
    elif rp['kind'] == 'reply':
        from harness.drivers import countloops as CL0
        (outcome, detail, secs), exc = CL0.reply_replaced(rp['request'],
                                                          rp['instead'])
        print(outcome, detail, secs, exc)
        ctx.count(('replay', 'reply'))
        if outcome != 'ok' or secs > 1.5 or exc:
            ctx.violation(sig, f'{outcome} {detail} {exc}', replay=rp)
    elif rp['kind'] == 'scan':
        from checks import c10 as C10
        C10.scan_cases(ctx, True, only=(rp['func'], rp['i1'], rp['i2'],
                                        rp['end']))
    elif rp['kind'] == 'keylist':
        from harness.drivers import countloops as CL0
        (outcome, detail, secs), exc = CL0.hostkeys_tail(rp['p'], rp['avail'])
        print(outcome, detail, secs, exc)
        ctx.count(('replay', 'keylist'))
        if outcome == 'hang' or secs > 1.5 or exc:
            ctx.violation(sig, f'{outcome} {detail} {exc}', replay=rp)
    elif rp['kind'] == 'sizes':
        from harness.drivers import chan_raw
        for case, bad in chan_raw.extreme_size_cases_one(
                rp['quirk'], rp['window'], rp['pktsize']):
            print(case, bad)
            ctx.count(('replay', 'sizes'))
            mine = [b for b in bad if 'C10' in b.split(' ')[0]]
            if mine:
                ctx.violation(sig, '; '.join(mine[:2]), replay=rp)
    elif rp['kind'] == 'msg':
        bad, closed = H.run_msg_case(rp['message'], H.FIELDS[rp['message']],
                                     rp['field'], rp['mutation'],
                                     pipelined=rp.get('pipelined', False))
        print('closed:', closed, 'bad:', bad)
        ctx.count(('replay', 'msg'))
        if bad:
            ctx.violation(sig, '; '.join(bad[:2]), replay=rp)
    elif rp['kind'] == 'der':
        bad, out = H.run_der_case(rp['tag'], rp['lenform'],
                                  [tuple(k) if isinstance(k, list) else k
                                   for k in rp['kids']])
        print('out:', out, 'bad:', bad)
        ctx.count(('replay', 'der'))
        if bad:
            ctx.violation(sig, '; '.join(bad[:2]), replay=rp)
    else:
        raise SystemExit(f'replay kind {rp["kind"]} is not supported here')


def c11(ctx):
    from harness.drivers import rekey
    rp, sig = load(ctx)
    if rp['kind'] == 'natural':
        args = {k: rp[k] for k in ('seed', 'th_c', 'th_s', 'n_c', 'n_s',
                                   'mode', 'kw')}
        r = rekey.record_natural(**args)
        print('l1:', r['l1'], 'exchanges started:', r['nkex'])
        ctx.count(('replay', 'natural'))
        if r['l1']:
            ctx.violation(sig, '; '.join(r['l1'][:3]), replay=rp)
    elif rp['kind'] == 'marker-first-only':
        from harness.drivers import transport as T
        pl = [bytes([(5 * i + j) % 251 for j in range(600)])
              for i in range(10)]
        r = T.run_asym_session(rp['role'], {}, pl,
                               kw=dict(rekey_bytes=rp['rekey_bytes']),
                               raw_kw=dict(strict_first_only=True))
        print('outcome:', r['outcome'], 'echoed:',
              [len(p) for p in r['echoed']])
        ctx.count(('replay', 'marker-first-only'))
        if r['outcome'] != 'ok' or r['echoed'] != pl:
            ctx.violation(sig, f'session outcome {r["outcome"]}, echoed '
                          f'{[len(p) for p in r["echoed"]]}', replay=rp)
    else:
        raise SystemExit(f'replay kind {rp["kind"]} needs the model states; '
                         'run the check itself')
