"""C12 - SFTP transfers reproduce the source bytes exactly or report failure.

1. TLC checks specs/SftpIO (model of _SFTPParallelIO and its reader / writer /
   copier users, driven by a consistent file server that may answer any
   subset of the outstanding requests, in any order, with short reads, EOF
   and errors) exhaustively at small constants against ReadCorrect,
   WriteCorrect, CopyCorrect, ShortSourceFails, FailLoud, NoSpuriousFailure,
   NoLostTask, Progress.  Sensitivity runs: reassembly by arrival order, no short-read
   continuation, sparse copy that does not extend the destination - TLC must
   reject each; two vacuity witnesses.
4. specs/SftpIO/SftpTree.tla models the tree-walking layer above it
   (_begin_copy / _copy: named directory, glob, single entry; recurse,
   follow_symlinks, preserve, error handler; what already exists at the
   destination) over small trees with files, directories and links whose
   text length differs from every file size; TLC checks SizeFromTarget,
   LinksAsFlagged, ErrorsReported, NoFalseReport, NoExtraneous, rejects the
   variants "size from the link's own attributes" and "failed entries
   dropped", and prints the case table; every printed case is run with the
   real client against the real server (chroot) in real directories: get, put
   and copy, trees compared byte for byte, errors compared with the table.
5. specs/SftpIO/Sparse.tla models the sparse-ranges protocol (the server's
   paging of data ranges with at_end, the client's request loop, a server
   without the extension, a local source): every hole layout x page size is
   checked (RangesExact, DestEqual, Ordered, FullPages, Terminates; "a full
   page is the end" and "do not resume at the last range" must be rejected)
   and replayed as a real sparse get / put / copy of a real sparse file with
   the server's page limit scaled to the case, plus unscaled cases with
   127..257 real extents against the real limit of 128.
6. specs/SftpIO/FileObj.tla models SFTPClientFile as a state machine
   (_offset with None while appending, append flag, bytes per character and
   byte-order mark of the encoding; open modes r w a r+ w+ a+ x, then read /
   write / seek / tell / truncate / stat in any order) next to a reference
   byte-level file; TLC checks that server bytes and every returned value
   agree, rejects "position by characters", "append keeps a concrete offset",
   "read does not advance" and the pinned tree's failing read-to-end past the
   end; sampled behaviours run on a real file object against the real server
   in binary mode and in text mode with utf-8 (2/3/4-byte characters),
   utf-16 / utf-32 with and without BOM, judged by an independent byte-level
   reference.
7. specs/SftpIO/Limits.tla adds the server's limits as a dimension
   (limits@openssh.com absent / present with max read and write lengths
   below, at and above the client's block size) against a scripted server
   that ENFORCES them (capped, non-EOF short reads; over-long writes
   refused), for read / read-to-end / write / get / put / copy with explicit
   and default block sizes: ReadComplete, ShortReadContinued, AllOrError;
   "a single READ whenever size <= block size" must be rejected.
8. specs/SftpIO/CopyData.tla models the ranged copy the server does for the
   copy-data extension, one block per step (source size, read offset, length
   0 / below / at / beyond what is left and multiples of the block, write
   offset inside / at / beyond the destination, same file): CopyExact,
   ChunkProgress; "0 left means to the end" and "no progress at EOF" must be
   rejected.  Every row goes to the real server (block size scaled) through a
   raw client under a CPU-time watchdog and through remote_copy().
2. Behaviours sampled by TLC (-simulate) are replayed into the REAL client
   (SFTPClientFile.read/write, SFTPClient.get/put/copy) against a scripted
   SFTP server that holds every READ/WRITE and answers in the behaviour's
   order with the behaviour's short-read / EOF / error pattern.  After every
   step the outstanding requests are compared with the model (conformance);
   the verdict comes from the property monitors on what the caller and the
   destination got.
"""

import concurrent.futures
import json
import os
import random

from harness import tlc
from harness.framework import run_check, MachineryError, VERIF

SPEC = os.path.join(VERIF, 'specs', 'SftpIO')
ALLOPS = '{"read", "write", "get", "put", "copy"}'
INVS = ['ReadCorrect', 'DirectReadCorrect', 'WriteCorrect', 'CopyCorrect',
        'ShortSourceFails', 'FailLoud', 'NoSpuriousFailure', 'NoLostTask',
        'Progress',
        'Parallelism', 'DisjointBlocks']


def write_cfg(name, invs=(), view=True, **kw):
    d = dict(MaxN=4, Blocks='{1, 2}', MaxReqs='{1, 2}', Ops=ALLOPS,
             SparseSet='{FALSE, TRUE}', MaxAns=2, AllowErr='TRUE',
             ByOffset='TRUE', Continue='TRUE', ExtendDst='TRUE')
    d.update(kw)
    lines = ['CONSTANTS'] + [f'  {k} = {v}' for k, v in d.items()]
    lines.append('SPECIFICATION Spec')
    if view:
        lines.append('VIEW view')
    lines += [f'INVARIANT {i}' for i in invs]
    with open(os.path.join(SPEC, name), 'w') as f:
        f.write('\n'.join(lines) + '\n')
    return name


def mc(name, workers, invs=INVS, timeout=1500, **kw):
    cfg = write_cfg(f'_c12_mc_{name}.cfg', invs=invs, **kw)
    try:
        return tlc.run(SPEC, 'SftpIO', cfg, f'c12_mc_{name}', workers=workers,
                       timeout=timeout, java_heap='3g')
    finally:
        tlc.cleanup(f'c12_mc_{name}')
        os.remove(os.path.join(SPEC, cfg))


def sim(name, num, depth, seed, workers=2, **kw):
    from harness.drivers import sftp_io
    cfg = write_cfg(f'_c12_sim_{name}.cfg', view=False, **kw)
    tag = f'c12_sim_{name}'
    d = tlc.workdir(tag + '_out')
    try:
        res = tlc.run(SPEC, 'SftpIO', cfg, tag, workers=workers, timeout=900,
                      simulate=f'file={d}/tr,num={num}', depth=depth,
                      seed=seed, java_heap='2g')
        if res.error and res.error != 'timeout':
            raise MachineryError(f'simulate {name}: {res.error}\n' +
                                 res.output[-2000:])
        return sftp_io.behaviours_from_sim(d), res
    finally:
        tlc.cleanup(tag + '_out')
        tlc.cleanup(tag)
        os.remove(os.path.join(SPEC, cfg))


def report(ctx, r, per_clause):
    """Turn the monitors' findings of one replay into verdicts"""
    c = r['cfg']
    rp = {'kind': 'behaviour', 'cfg': c, 'script': r['script'], 'U': r['U'],
          'version': r['version'], 'variant': r['variant'],
          'predst': r.get('predst'), 'progress': r.get('progress', False),
          'ranges_per_reply': r['ranges_per_reply'],
          'err_code': r['err_code']}
    for clause in sorted({cl for cl, _ in r['l1']}):
        text = '; '.join(t for cl, t in r['l1'] if cl == clause)
        key = (clause, c['op'])
        per_clause[key] = per_clause.get(key, 0) + 1
        if clause == 'SparseTrailingHole':
            # finding F11: one signature per operation
            if per_clause[key] > 1:
                continue
            sig = {'module': 'SftpIO', 'clause': clause, 'op': c['op']}
        else:
            if per_clause[key] > 5:
                continue
            sig = {'module': 'SftpIO', 'clause': clause, 'cfg': c,
                   'script': r['script'], 'U': r['U'],
                   'variant': r['variant'], 'version': r['version']}
        ctx.violation(sig, f'{clause}: {text} [cfg={c} script={r["script"]} '
                           f'U={r["U"]} variant={r["variant"]} '
                           f'version={r["version"]}]', replay=rp)
    if r['diverged'] and not r['l1']:
        ctx.divergence(f'SftpIO: {r["diverged"]} cfg={c} '
                       f'script={r["script"]} U={r["U"]}')
    for e in r.get('loop_exceptions') or []:
        ctx.divergence(f'SftpIO: exception reached the event loop: {e} '
                       f'cfg={c} script={r["script"]}')


TREE_INVS = ['SizeFromTarget', 'LinksAsFlagged', 'TreeShaped',
             'ErrorsReported', 'NoFalseReport', 'NoExtraneous']


def tree_tlc(name, invs, workers=2, seed=None, **kw):
    """One TLC run of specs/SftpIO/SftpTree.tla"""
    d = dict(Emit='FALSE', NTrees=0, NFlags=0, SizeFromLstat='FALSE',
             SkipErrors='FALSE', SkipEmpty='FALSE')
    d.update(kw)
    cfg = f'_c12_tree_{name}.cfg'
    lines = ['CONSTANTS'] + [f'  {k} = {v}' for k, v in d.items()]
    lines += ['SPECIFICATION Spec', 'CHECK_DEADLOCK FALSE']
    lines += [f'INVARIANT {i}' for i in invs]
    with open(os.path.join(SPEC, cfg), 'w') as f:
        f.write('\n'.join(lines) + '\n')
    try:
        return tlc.run(SPEC, 'SftpTree', cfg, f'c12_tree_{name}',
                       workers=workers, timeout=1500, seed=seed,
                       java_heap='3g')
    finally:
        tlc.cleanup(f'c12_tree_{name}')
        os.remove(os.path.join(SPEC, cfg))


def tree_replay(ctx, res_emit, rnd):
    """Part 4: every (tree, flags) case printed by TLC from SftpTree.tla is
    run through the real client and the real server in real directories."""
    from harness.drivers import sftp_proto, sftp_tree
    rows = [r for r in sftp_proto.printed_multiline(res_emit.output)
            if r and r[0] == 'CASE']
    ctx.require(len(rows) >= 300, f'tree table has only {len(rows)} cases')
    w = sftp_tree.TreeWorld()
    seen = {}
    stats = {'followed_links': 0, 'with_errors': 0, 'preexisting': 0}
    try:
        for i, row in enumerate(rows):
            nodes, fl, out, errs, fatal = sftp_tree.parse_row(row)
            sparse = rnd.random() < 0.7
            version = rnd.choice([3, 3, 4, 6])
            r = sftp_tree.run_case(w, i, nodes, fl, out, errs, fatal,
                                   sparse=sparse, version=version)
            links = any(t == 'link' for t, _, _ in nodes.values())
            stats['followed_links'] += bool(links and fl['follow'])
            stats['with_errors'] += bool(errs)
            stats['preexisting'] += fl['pre'] != 'none'
            ctx.count(('tree', json.dumps(nodes, sort_keys=True),
                       json.dumps(fl, sort_keys=True)),
                      nontrivial=len(nodes) > 1)
            if i % 157 == 11:
                ctx.sample({'part': 'tree', 'nodes': nodes, 'flags': fl,
                            'expected_errors': sorted(errs),
                            'raised': r.get('raised'),
                            'reported': r.get('reported')})
            rp = {'kind': 'tree', 'nodes': nodes, 'fl': fl, 'out': out,
                  'errs': sorted(errs), 'fatal': fatal, 'sparse': sparse,
                  'version': version}
            for clause in sorted({c for c, _ in r['l1']}):
                seen[clause] = seen.get(clause, 0) + 1
                if seen[clause] > 5:
                    continue
                text = '; '.join(t for c, t in r['l1'] if c == clause)
                ctx.violation({'module': 'SftpTree', 'clause': clause,
                               'nodes': nodes, 'fl': fl, 'sparse': sparse,
                               'version': version},
                              f'{clause}: {text} [tree={nodes} flags={fl} '
                              f'sparse={sparse} v{version} raised='
                              f'{r.get("raised")} reported='
                              f'{r.get("reported")}]', replay=rp)
            if r['diverged'] and not r['l1']:
                ctx.divergence(f'SftpTree: {r["diverged"]} tree={nodes} '
                               f'flags={fl} sparse={sparse} v{version}')
        for e in w.loop.exceptions:
            ctx.divergence(f'SftpTree: exception reached the event loop: '
                           f'{e.get("exception") or e.get("message")}')
    finally:
        w.close()
    ctx.traces_validated(len(rows))
    ctx.notes.append(f'tree cases replayed: {len(rows)} {stats}' +
                     (f' monitor hits {seen}' if seen else ''))
    ctx.require(stats['followed_links'] > 30 and stats['with_errors'] > 30,
                f'tree sample too thin: {stats}')


SPARSE_INVS = ['RangesExact', 'DestEqual', 'Ordered', 'FullPages',
               'Terminates']


def sparse_tlc(name, invs, **kw):
    """One TLC run of specs/SftpIO/Sparse.tla"""
    d = dict(MaxA=5, Pages='{0, 1, 2, 3, 99}', Alt=0,
             AtEndOnFullPage='FALSE', ResumeAtRequest='FALSE', Emit='FALSE')
    d.update(kw)
    cfg = f'_c12_sparse_{name}.cfg'
    lines = ['CONSTANTS'] + [f'  {k} = {v}' for k, v in d.items()]
    lines += ['SPECIFICATION Spec']
    lines += [f'INVARIANT {i}' for i in invs]
    with open(os.path.join(SPEC, cfg), 'w') as f:
        f.write('\n'.join(lines) + '\n')
    try:
        return tlc.run(SPEC, 'Sparse', cfg, f'c12_sparse_{name}', workers=1,
                       timeout=1500, java_heap='3g')
    finally:
        tlc.cleanup(f'c12_sparse_{name}')
        os.remove(os.path.join(SPEC, cfg))


def sparse_replay(ctx, tables, rnd):
    """Part 5: every case of the sparse-ranges table (Sparse.tla) as a real
    sparse transfer of a real sparse file through the real client and
    asyncssh's own server (page limit scaled to the case, plus unscaled
    cases around 128 extents)."""
    from harness.drivers import sftp_proto, sftp_tree, sftp_sparse
    rows = []
    for res in tables:
        rows += [r for r in sftp_proto.printed_multiline(res.output)
                 if r and r[0] == 'SPARSE']
    ctx.require(len(rows) > 200, f'sparse table has only {len(rows)} cases')
    w = sftp_tree.TreeWorld()
    stats = {'paged': 0, 'unscaled': 0, 'skipped': 0}
    seen = 0
    try:
        for i, row in enumerate(rows):
            A, data, K, reqs = sftp_sparse.parse_row(row)
            op = 'put' if K == 99 else 'get' if K == 0 else \
                rnd.choice(['get', 'copy'])
            block = rnd.choice([1, 2, 3])
            mr = rnd.choice([1, 3])
            version = rnd.choice([3, 4, 6])
            r = sftp_sparse.run_case(w, i, A, data, K, reqs, op, block=block,
                                     max_requests=mr, version=version)
            if r.get('skipped'):
                stats['skipped'] += 1
                continue
            stats['paged'] += len(reqs) > 1
            stats['unscaled'] += K == 128
            ctx.count(('sparse', A, tuple(sorted(data)) if A < 20 else
                       len(data), K, op), nontrivial=len(reqs) > 1)
            if i % 97 == 13:
                ctx.sample({'part': 'sparse', 'A': A, 'data': sorted(data)
                            if A < 20 else f'{len(data)} extents', 'K': K,
                            'op': op, 'exchange': r.get('log') if A < 20
                            else len(r.get('log') or [])})
            rp = {'kind': 'sparse', 'A': A, 'data': sorted(data), 'K': K,
                  'reqs': reqs, 'op': op, 'block': block, 'max_requests': mr,
                  'version': version}
            for clause in sorted({c for c, _ in r['l1']}):
                seen += 1
                if seen > 6:
                    continue
                text = '; '.join(t for c, t in r['l1'] if c == clause)
                dd = sorted(data) if A < 20 else f'{len(data)} extents'
                ctx.violation({'module': 'Sparse', 'clause': clause, 'A': A,
                               'data': dd, 'K': K, 'op': op},
                              f'{clause}: {text} [size={A} data={dd} '
                              f'page={K} op={op} block={block} v{version}]',
                              replay=rp)
            if r['diverged'] and not r['l1']:
                ctx.divergence(f'Sparse: size={A} data='
                               f'{sorted(data) if A < 20 else len(data)} '
                               f'page={K} op={op}: {r["diverged"][:400]}')
    finally:
        w.close()
    ctx.traces_validated(len(rows) - stats['skipped'])
    ctx.notes.append(f'sparse-ranges cases replayed: {len(rows)} {stats}')
    if stats['skipped'] == 0:
        ctx.require(stats['paged'] > 50 and stats['unscaled'] >= 1,
                    f'sparse sample too thin: {stats}')


FO_CONSTS = dict(Widths='{1, 2, 3}', Boms='{0, 2}', MaxOps=3, MaxLen=12,
                 PosByChars='FALSE', AppendTracks='FALSE',
                 ReadNoAdvance='FALSE', ReadAllCrashes='FALSE')


def fileobj_tlc(name, invs, view=True, workers=2, **kw):
    """One TLC run of specs/SftpIO/FileObj.tla"""
    sim_kw = {k: kw.pop(k) for k in ('simulate', 'depth', 'seed')
              if k in kw}
    d = dict(FO_CONSTS)
    d.update(kw)
    cfg = f'_c12_fo_{name}.cfg'
    lines = ['CONSTANTS'] + [f'  {k} = {v}' for k, v in d.items()]
    lines += ['SPECIFICATION Spec', 'CHECK_DEADLOCK FALSE']
    if view:
        lines.append('VIEW view')
    lines += [f'INVARIANT {i}' for i in invs]
    with open(os.path.join(SPEC, cfg), 'w') as f:
        f.write('\n'.join(lines) + '\n')
    try:
        return tlc.run(SPEC, 'FileObj', cfg, f'c12_fo_{name}',
                       workers=workers, timeout=1500, java_heap='3g',
                       deadlock=False, **sim_kw)
    finally:
        tlc.cleanup(f'c12_fo_{name}')
        os.remove(os.path.join(SPEC, cfg))


def fileobj_replay(ctx, simdir, rnd):
    """Part 6: behaviours of the SFTPClientFile state machine (FileObj.tla)
    on a real file object against the real server, binary and text modes."""
    from harness.drivers import sftp_tree, sftp_fileobj
    behs, seen_b = [], set()
    for _n, steps in tlc.read_sim_traces(simdir, 'tr_'):
        case, ops = sftp_fileobj.split_behaviour(
            [(st['lbl'], st) for _, st in steps])
        key = json.dumps([case, [list(o[0]) for o in ops]], sort_keys=True)
        if ops and key not in seen_b:
            seen_b.add(key)
            behs.append((case, ops))
    ctx.require(len(behs) > 150, f'only {len(behs)} file object behaviours')
    w = sftp_tree.TreeWorld()
    hits = {}
    stats = {'text_wide': 0, 'two_writes': 0, 'append': 0}
    try:
        for i, (case, ops) in enumerate(behs):
            r = sftp_fileobj.run_behaviour(w, i, case, ops, rnd)
            stats['text_wide'] += case['W'] > 1
            stats['two_writes'] += sum(o[0][0] == 'write' for o in ops) >= 2
            stats['append'] += case['mode'] in ('a', 'a+')
            ctx.count(('fileobj', json.dumps(case, sort_keys=True),
                       json.dumps(r['ops'])), nontrivial=len(ops) > 2)
            if i % 131 == 17:
                ctx.sample({'part': 'fileobj', 'case': case,
                            'encoding': r['encoding'], 'trace': r['trace']})
            rp = {'kind': 'fileobj', 'case': case, 'ops': r['ops'],
                  'encoding': r['encoding'], 'block': r['block']}
            for clause in sorted({c for c, _ in r['l1']}):
                hits[clause] = hits.get(clause, 0) + 1
                text = '; '.join(t for c, t in r['l1'] if c == clause)
                if clause == 'ReadPastEnd':
                    # finding: one signature
                    if hits[clause] > 1:
                        continue
                    sig = {'module': 'FileObj', 'clause': clause}
                else:
                    if hits[clause] > 5:
                        continue
                    sig = {'module': 'FileObj', 'clause': clause,
                           'case': case, 'ops': r['ops'],
                           'encoding': r['encoding']}
                ctx.violation(sig, f'{clause}: {text} [case={case} '
                                   f'encoding={r["encoding"]} block='
                                   f'{r["block"]} ops={r["ops"]}]', replay=rp)
            if r['diverged'] and not r['l1']:
                ctx.divergence(f'FileObj: {r["diverged"]} case={case} '
                               f'ops={r["ops"]}')
    finally:
        w.close()
    ctx.traces_validated(len(behs))
    ctx.notes.append(f'file object behaviours replayed: {len(behs)} {stats}' +
                     (f' monitor hits {hits}' if hits else ''))
    ctx.require(stats['text_wide'] > 60 and stats['two_writes'] > 30,
                f'file object sample too thin: {stats}')


def copydata_variant(name, kw, inv):
    """A sensitivity run of specs/SftpIO/CopyData.tla"""
    d = dict(B=2, MaxS=5, ZeroMeansToEnd='FALSE', NoProgressAtEof='FALSE',
             Emit='FALSE')
    d.update(kw)
    cfg = f'_c12_cd_{name}.cfg'
    with open(os.path.join(SPEC, cfg), 'w') as f:
        f.write('CONSTANTS\n' + ''.join(f'  {k} = {v}\n'
                                         for k, v in d.items()) +
                f'SPECIFICATION Spec\nINVARIANT {inv}\n')
    try:
        return tlc.run(SPEC, 'CopyData', cfg, f'c12_cd_{name}', workers=2,
                       timeout=600, java_heap='2g')
    finally:
        tlc.cleanup(f'c12_cd_{name}')
        os.remove(os.path.join(SPEC, cfg))


def limits_tlc(name, invs, **kw):
    """One TLC run of specs/SftpIO/Limits.tla"""
    d = dict(Emit='FALSE', SingleReadAboveLimit='FALSE')
    d.update(kw)
    cfg = f'_c12_lim_{name}.cfg'
    lines = ['CONSTANTS'] + [f'  {k} = {v}' for k, v in d.items()]
    lines += ['SPECIFICATION Spec', 'CHECK_DEADLOCK FALSE']
    lines += [f'INVARIANT {i}' for i in invs]
    with open(os.path.join(SPEC, cfg), 'w') as f:
        f.write('\n'.join(lines) + '\n')
    try:
        return tlc.run(SPEC, 'Limits', cfg, f'c12_lim_{name}', workers=1,
                       timeout=900, java_heap='2g')
    finally:
        tlc.cleanup(f'c12_lim_{name}')
        os.remove(os.path.join(SPEC, cfg))


def limits_replay(ctx, res_table, rnd, quick):
    """Part 7: the server's limits as a dimension (Limits.tla): a scripted
    server that advertises and ENFORCES max read / write lengths, the real
    client with explicit and default block sizes."""
    from harness.drivers import sftp_proto, sftp_io
    rows = [r for r in sftp_proto.printed_multiline(res_table.output)
            if r and r[0] == 'LIMITS']
    ctx.require(len(rows) > 1000, f'limits table has {len(rows)} rows')
    if quick:
        # every row where the block size exceeds an advertised limit, a
        # seeded quarter of the rest
        rows = [r for i, r in enumerate(rows)
                if (r[2] > 0 and r[3] > r[2]) or (i + ctx.seed) % 4 == 0]
    hits = {}
    stats = {'capped': 0, 'refused': 0}
    for row in rows:
        _t, op, lim, B, size, short, outcome, _direct = row
        version = rnd.choice([3, 6])
        mr = rnd.choice([1, 3])
        r = sftp_io.limits_case(op, lim, B, size, short, version=version,
                                max_requests=mr)
        stats['capped'] += bool(r.get('capped'))
        stats['refused'] += bool(r.get('refused'))
        ctx.count(('limits', op, lim, B, size, short),
                  nontrivial=lim > 0 and B != -1)
        rp = {'kind': 'limits', 'op': op, 'lim': lim, 'B': B, 'size': size,
              'short': short, 'version': version, 'max_requests': mr}
        for clause in sorted({c for c, _ in r['l1']}):
            hits[clause] = hits.get(clause, 0) + 1
            if hits[clause] > 5:
                continue
            text = '; '.join(t for c, t in r['l1'] if c == clause)
            ctx.violation({'module': 'Limits', 'clause': clause, 'op': op,
                           'lim': lim, 'B': B, 'size': size, 'short': short},
                          f'{clause}: {text} [op={op} limit={lim} block={B} '
                          f'size={size} units of 4096, short file={short}, '
                          f'v{version}]', replay=rp)
        if not r['l1'] and r['outcome'] != tuple(outcome):
            ctx.divergence(f'Limits: op={op} limit={lim} block={B} '
                           f'size={size} short={short}: code '
                           f'{r["outcome"]} {r.get("exc")}, table '
                           f'{tuple(outcome)}')
    sftp_io.drop_world()
    ctx.traces_validated(len(rows))
    ctx.notes.append(f'server-limits rows replayed: {len(rows)} {stats}' +
                     (f' monitor hits {hits}' if hits else ''))
    ctx.require(stats['capped'] > 40 and stats['refused'] > 10,
                f'limits sample too thin: {stats}')


TRACE_CONSTS = dict(MaxN=1, Blocks='{1}', MaxReqs='{1}', Ops='{}',
                    SparseSet='{}', MaxAns=1, AllowErr='TRUE',
                    ByOffset='TRUE', Continue='TRUE', ExtendDst='TRUE')
TRACE_DIAG = ['DiagDone', 'DiagNewIssued', 'DiagRaised', 'DiagData']
TRACE_KW = dict(progress='TraceProgress', report='TraceReport')


def trace_validation(ctx, sftp_io, quick):
    """Code -> spec: executions recorded from naturally scheduled transfers
    (real client; asyncssh's own SFTP server with seeded delays / short
    reads / errors / segmentation, and the raw peer answering every request
    from its own task, i.e. out of order) are validated by TLC against
    SftpIO.tla (specs/SftpIO/SftpIOTrace.tla)."""
    import copy
    n = 40 if quick else 1200
    recs = []
    stats = {'out_of_order': 0, 'batches>1': 0, 'untraced': 0, 'skipped': 0}
    for i in range(n):
        seed = ctx.seed * 100003 + i
        server = 'real' if i % 2 else 'scripted'
        r = sftp_io.record_natural(seed, server)
        if r.get('skipped'):
            stats['skipped'] += 1
            continue
        c = r['cfg']
        ctx.count(('natural', server, json.dumps(c, sort_keys=True),
                   r['variant'], r['U']), nontrivial=r.get('nreq', 0) > 2)
        key = (server, c['op'], r['outcome'])
        stats[str(key)] = stats.get(str(key), 0) + 1
        for clause in sorted({cl for cl, _ in r['l1']}):
            text = '; '.join(t for cl, t in r['l1'] if cl == clause)
            ctx.violation({'module': 'SftpIOTrace', 'clause': clause,
                           'server': server, 'cfg': c, 'seed': seed},
                          f'{clause} on a naturally scheduled transfer: '
                          f'{text} [server={server} cfg={c} U={r["U"]} '
                          f'variant={r["variant"]} seed={seed}]',
                          replay={'kind': 'natural', 'seed': seed,
                                  'server': server})
        for pr in r['problems']:
            ctx.divergence(f'natural transfer seed={seed} server={server} '
                           f'cfg={c}: recording inconsistent: {pr}')
        for e in r.get('loop_exceptions') or []:
            ctx.divergence(f'natural transfer seed={seed} server={server}: '
                           f'exception reached the event loop: {e}')
        if r.get('untraced'):
            stats['untraced'] += 1
        if r['trace'] is None or r['problems']:
            continue
        # out of order: data consumed in an earlier batch lies behind data
        # consumed in a later batch
        hi = [max([x['off'] for x in e['a'] if x['k'] in ('data', 'ok')],
                  default=-1)
              for e in r['trace']['ev'] if e['e'] == 'ans']
        lo = [min([x['off'] for x in e['a'] if x['k'] in ('data', 'ok')],
                  default=10**9)
              for e in r['trace']['ev'] if e['e'] == 'ans']
        r['ooo'] = any(hi[i] > lo[j] for i in range(len(hi))
                       for j in range(i + 1, len(hi)))
        stats['out_of_order'] += r['ooo']
        stats['batches>1'] += any(e['e'] == 'ans' and len(e['a']) > 1
                                  for e in r['trace']['ev'])
        recs.append(r)
    sftp_io.drop_world()
    sftp_io.drop_natural_world()
    total_ev = 0
    for b in range(0, len(recs), 400):
        batch = recs[b:b + 400]
        res, verdicts = tlc.validate_traces(
            SPEC, 'SftpIOTrace', [r['trace'] for r in batch],
            f'c12_tr_{b}', constants=TRACE_CONSTS, diag=TRACE_DIAG,
            **TRACE_KW)
        ctx.add_tlc(f'SftpIOTrace batch {b}', res)
        if res.violation:
            ctx.violation({'module': 'SftpIOTrace',
                           'invariant': res.violation},
                          f'invariant {res.violation} fails on a recorded '
                          f'execution: ' + res.output[-1800:],
                          replay={'kind': 'natural-batch', 'seeds':
                                  [r['seed'] for r in batch]})
            continue
        if res.error:
            raise MachineryError(f'SftpIOTrace: {res.error}\n' +
                                 res.output[-3000:])
        for i, v in sorted(verdicts.items()):
            total_ev += v['matched']
            if not v['accepted']:
                r = batch[i]
                ctx.divergence(
                    f'recorded execution seed={r["seed"]} '
                    f'server={r["server"]} cfg={r["cfg"]} U={r["U"]} '
                    f'variant={r["variant"]} outcome={r["outcome"]} is not '
                    f'a behaviour of SftpIO.tla: {v["diagnosis"]}')
    ctx.coverage['recorded_traces_validated_by_tlc'] = len(recs)
    ctx.coverage['recorded_events_matched'] = total_ev
    ctx.notes.append(f'natural transfers: {stats}')
    ctx.traces_validated(len(recs))
    # ---- binding controls: corrupted copies must be rejected ----
    def pick(pred):
        for r in recs:
            if pred(r):
                return copy.deepcopy(r['trace'])
        return None

    par = lambda r: r['cfg']['size'] > 2 * r['cfg']['B'] and \
        sum(e['e'] == 'ans' for e in r['trace']['ev']) >= 2
    good = {
        'off': pick(lambda r: par(r)),
        'drop': pick(lambda r: par(r) and r['outcome'] == 'returned'),
        'block': pick(lambda r: par(r) and r['cfg']['op'] != 'write'),
        'raised': pick(lambda r: r['outcome'] == 'returned'),
        'data': pick(lambda r: r['cfg']['op'] == 'read' and
                     r['outcome'] == 'returned' and
                     len(r['trace']['ev'][-1]['data']) >= 2),
    }
    if any(v is None for v in good.values()):
        if ctx.violations or ctx.divergences:
            ctx.notes.append('binding controls skipped: recorded transfers '
                             'already show violations / divergences')
            return
        raise MachineryError(f'no recorded trace for the binding controls '
                             f'{[k for k, v in good.items() if v is None]}')
    bad = []
    t = good['off']
    e = [e for e in t['ev'] if e['e'] == 'ans' and e['a']][0]
    e['a'][0]['off'] += 1
    bad.append(('logged offset of an answered request shifted', t))
    t = good['drop']
    i = [k for k, e in enumerate(t['ev']) if e['e'] == 'ans'][0]
    del t['ev'][i]
    bad.append(('one batch of answers removed', t))
    t = good['block']
    t['c']['B'] += 1
    bad.append(('block size constant off by one', t))
    t = good['raised']
    t['ev'][-1]['raised'] = True
    bad.append(('outcome flipped to "raised"', t))
    t = good['data']
    d = t['ev'][-1]['data']
    d[0], d[1] = d[1], d[0]
    bad.append(('two bytes of the returned data swapped', t))
    res, verdicts = tlc.validate_traces(SPEC, 'SftpIOTrace',
                                        [b[1] for b in bad], 'c12_tr_neg',
                                        constants=TRACE_CONSTS,
                                        invariants=(), **TRACE_KW)
    for i, (what, _) in enumerate(bad):
        ctx.require(i in verdicts and not verdicts[i]['accepted'],
                    f'binding control "{what}" was accepted by SftpIOTrace')
    # the wrong reassembly rule must not explain out-of-order recordings
    ooo = [r['trace'] for r in recs if r.get('ooo') and
           r['cfg']['op'] == 'read' and r['outcome'] == 'returned'][:6]
    if ooo:
        res, verdicts = tlc.validate_traces(
            SPEC, 'SftpIOTrace', ooo, 'c12_tr_sens',
            constants=dict(TRACE_CONSTS, ByOffset='FALSE'), invariants=(),
            **TRACE_KW)
        ctx.require(verdicts and not any(v['accepted']
                                         for v in verdicts.values()),
                    'reassembly by arrival order accepted an out-of-order '
                    'recorded read')
    elif not (ctx.violations or ctx.divergences):
        raise MachineryError('no out-of-order read was recorded')


def main(ctx):
    from harness.drivers import sftp_io
    quick = ctx.tier == 'quick'
    rnd = random.Random(ctx.seed * 7919 + 12)
    os.makedirs(tlc.WORK, exist_ok=True)
    per_clause = {}

    if ctx.replay_path:
        with open(ctx.replay_path) as f:
            rp = json.load(f)['replay']
        if rp.get('kind') == 'limits':
            r = sftp_io.limits_case(rp['op'], rp['lim'], rp['B'], rp['size'],
                                    rp['short'], version=rp['version'],
                                    max_requests=rp['max_requests'])
            sftp_io.drop_world()
            print('limits case:', r['outcome'], r['l1'])
            ctx.count(('replay', ctx.replay_path))
            for clause, text in r['l1']:
                ctx.violation({'module': 'Limits', 'clause': clause,
                               'op': rp['op'], 'lim': rp['lim'],
                               'B': rp['B'], 'size': rp['size'],
                               'short': rp['short']}, text, replay=rp)
            return
        if rp.get('kind') == 'fileobj':
            from harness.drivers import sftp_tree, sftp_fileobj
            import random as _r
            w = sftp_tree.TreeWorld()
            try:
                ops = [(tuple(o), ['none'], []) for o in rp['ops']]
                for seed in range(12):  # encoding / block are seeded choices
                    r = sftp_fileobj.run_behaviour(w, seed, rp['case'], ops,
                                                   _r.Random(seed))
                    if r['l1'] or (r['encoding'] == rp['encoding'] and
                                   r['block'] == rp['block']):
                        break
            finally:
                w.close()
            print('file object:', r['trace'], r['l1'])
            ctx.count(('replay', ctx.replay_path))
            for clause, text in r['l1']:
                ctx.violation({'module': 'FileObj', 'clause': clause}
                              if clause == 'ReadPastEnd' else
                              {'module': 'FileObj', 'clause': clause,
                               'case': rp['case'], 'ops': rp['ops'],
                               'encoding': r['encoding']}, text, replay=rp)
            return
        if rp.get('kind') == 'sparse':
            from harness.drivers import sftp_tree, sftp_sparse
            w = sftp_tree.TreeWorld()
            try:
                r = sftp_sparse.run_case(w, 0, rp['A'], set(rp['data']),
                                         rp['K'], rp['reqs'], rp['op'],
                                         block=rp['block'],
                                         max_requests=rp['max_requests'],
                                         version=rp['version'])
            finally:
                w.close()
            print('sparse case:', r['l1'], str(r['diverged'])[:300])
            ctx.count(('replay', ctx.replay_path))
            for clause, text in r['l1']:
                ctx.violation({'module': 'Sparse', 'clause': clause,
                               'A': rp['A'], 'K': rp['K'], 'op': rp['op']},
                              text, replay=rp)
            return
        if rp.get('kind') == 'tree':
            from harness.drivers import sftp_tree
            w = sftp_tree.TreeWorld()
            try:
                nodes = {k: tuple(v) for k, v in rp['nodes'].items()}
                r = sftp_tree.run_case(w, 0, nodes, rp['fl'], rp['out'],
                                       set(rp['errs']), rp['fatal'],
                                       sparse=rp['sparse'],
                                       version=rp['version'])
            finally:
                w.close()
            print('tree case:', r['l1'], r['diverged'], r.get('raised'))
            ctx.count(('replay', ctx.replay_path))
            for clause, text in r['l1']:
                ctx.violation({'module': 'SftpTree', 'clause': clause,
                               'nodes': rp['nodes'], 'fl': rp['fl'],
                               'sparse': rp['sparse'],
                               'version': rp['version']}, text, replay=rp)
            return
        if rp.get('kind') == 'natural':
            r = sftp_io.record_natural(rp['seed'], rp['server'])
            print('natural:', r['cfg'], r['outcome'], r['l1'])
            ctx.count(('replay', ctx.replay_path))
            for clause, text in r['l1']:
                ctx.violation({'module': 'SftpIOTrace', 'clause': clause,
                               'server': rp['server'], 'cfg': r['cfg'],
                               'seed': rp['seed']}, text, replay=rp)
            sftp_io.drop_world()
            sftp_io.drop_natural_world()
            return
        script = [tuple(s) if s[0] == 'start' else
                  ('ans', [tuple(a) for a in s[1]]) for s in rp['script']]
        r = sftp_io.replay(rp['cfg'], script, None, U=rp['U'],
                           version=rp['version'], variant=rp['variant'],
                           ranges_per_reply=rp.get('ranges_per_reply', 128),
                           err_code=rp.get('err_code', 4),
                           predst=rp.get('predst'),
                           progress=rp.get('progress', False))
        print('replayed:', {k: r[k] for k in ('outcome', 'l1', 'exc')
                            if k in r})
        ctx.count(('replay', ctx.replay_path))
        report(ctx, r, per_clause)
        sftp_io.drop_world()
        return

    # ---- 1. design check: exhaustive, in parallel JVMs ---------------------
    B3, M3 = '{1, 2, 3}', '{1, 2, 3}'
    NS, SP = '{FALSE}', '{TRUE}'
    if quick:
        runs = [
            ('read', None, dict(MaxN=6, Blocks=B3, MaxReqs=M3, Ops='{"read"}',
                                SparseSet=NS, MaxAns=2)),
            ('write', None, dict(MaxN=6, Blocks=B3, MaxReqs=M3,
                                 Ops='{"write"}', SparseSet=NS, MaxAns=2)),
            ('copy', None, dict(MaxN=6, Blocks=B3, MaxReqs=M3,
                                Ops='{"get", "put", "copy"}', SparseSet=NS,
                                MaxAns=2)),
            ('sparse', None, dict(MaxN=5, Blocks=B3, MaxReqs=M3,
                                  Ops='{"get", "put", "copy"}', SparseSet=SP,
                                  MaxAns=2)),
        ]
    else:
        runs = [
            ('read', None, dict(MaxN=9, Blocks=B3, MaxReqs=M3, Ops='{"read"}',
                                SparseSet=NS, MaxAns=3)),
            ('read4', None, dict(MaxN=8, Blocks='{2, 4}', MaxReqs='{2, 4}',
                                 Ops='{"read"}', SparseSet=NS, MaxAns=4)),
            ('write', None, dict(MaxN=9, Blocks=B3, MaxReqs=M3,
                                 Ops='{"write"}', SparseSet=NS, MaxAns=3)),
            ('copy', None, dict(MaxN=8, Blocks=B3, MaxReqs=M3,
                                Ops='{"get", "put", "copy"}', SparseSet=NS,
                                MaxAns=3)),
            ('sparse', None, dict(MaxN=7, Blocks=B3, MaxReqs=M3,
                                  Ops='{"get", "put", "copy"}', SparseSet=SP,
                                  MaxAns=3)),
        ]
    small = dict(MaxN=4, Blocks='{1, 2}', MaxReqs='{1, 2}')
    runs += [
        # sensitivity: each wrong rule must be rejected by TLC
        ('byarrival', 'ReadCorrect', dict(small, ByOffset='FALSE',
                                          Ops='{"read"}', SparseSet=NS)),
        ('nocont', 'ReadCorrect', dict(small, Continue='FALSE',
                                       Ops='{"read"}', SparseSet=NS)),
        ('nocont_copy', 'NoSpuriousFailure',
         dict(small, Continue='FALSE', Ops='{"get"}', SparseSet=NS,
              invs=['NoSpuriousFailure'])),
        # the pinned tree's sparse copy (finding F11): destination not extended
        ('noextend', 'CopyCorrect', dict(small, ExtendDst='FALSE',
                                         Ops='{"get", "put", "copy"}',
                                         SparseSet=SP)),
        # vacuity witnesses
        ('wit_raised', 'NeverRaised', dict(small, invs=['NeverRaised'])),
        ('wit_parallel', 'NeverParallelOk', dict(small,
                                                 invs=['NeverParallelOk'])),
    ]

    def one(item):
        name, _exp, kw = item
        kw = dict(kw)
        invs = kw.pop('invs', INVS)
        return mc(name, workers=2 if quick else 4, invs=invs, **kw)

    # ---- 2. behaviours for the replay (-simulate; num is per worker) -------
    k = 0.8 if quick else 8
    COPY = '{"get", "put", "copy"}'
    BIG = dict(Blocks='{2, 3, 4}', MaxReqs='{2, 3}', MaxAns=3,
               AllowErr='FALSE')
    D6 = dict(MaxN=6, Blocks=B3, MaxReqs=M3, MaxAns=3)
    sims = [
        ('read_e', 80 * k, dict(D6, Ops='{"read"}', SparseSet=NS)),
        ('read_n', 120 * k, dict(D6, Ops='{"read"}', SparseSet=NS,
                                 AllowErr='FALSE')),
        ('read_big', 120 * k, dict(BIG, MaxN=12, Ops='{"read"}',
                                   SparseSet=NS)),
        ('write_e', 50 * k, dict(D6, Ops='{"write"}', SparseSet=NS)),
        ('write_big', 60 * k, dict(BIG, MaxN=12, Ops='{"write"}',
                                   SparseSet=NS)),
        ('copy_e', 80 * k, dict(D6, Ops=COPY, SparseSet=NS)),
        ('copy_n', 100 * k, dict(D6, Ops=COPY, SparseSet=NS,
                                 AllowErr='FALSE')),
        ('copy_big', 80 * k, dict(BIG, MaxN=10, Ops=COPY, SparseSet=NS)),
        ('sparse_n', 100 * k, dict(D6, Ops=COPY, SparseSet=SP,
                                   AllowErr='FALSE')),
        ('sparse_e', 40 * k, dict(D6, Ops=COPY, SparseSet=SP)),
    ]

    def one_sim(item):
        i, (name, num, kw) = item
        return sim(name, int(num), 24, ctx.seed * 100 + 17 + i, workers=2,
                   **kw)

    with concurrent.futures.ThreadPoolExecutor(max_workers=5) as ex:
        # the tree-walking layer (specs/SftpIO/SftpTree.tla); longest job first
        f_tree = {
            'all': ex.submit(tree_tlc, 'all', TREE_INVS,
                             workers=2 if quick else 6,
                             seed=ctx.seed + 3, NFlags=35 if quick else 0),
            'lstat': ex.submit(tree_tlc, 'lstat', ['SizeFromTarget'],
                               SizeFromLstat='TRUE'),
            'skip': ex.submit(tree_tlc, 'skip', ['ErrorsReported'],
                              SkipErrors='TRUE'),
            'empty': ex.submit(tree_tlc, 'empty', ['ErrorsReported'],
                               SkipEmpty='TRUE'),
            'emit': ex.submit(tree_tlc, 'emit', ['Table'], workers=1,
                              seed=ctx.seed + 5, Emit='TRUE',
                              # a sample of trees x a sample of flag sets
                              NTrees=100 if quick else 0,
                              NFlags=4 if quick else 40),
        }
        # the file object (specs/SftpIO/FileObj.tla)
        fo_dir = tlc.workdir('c12_fo_sim_out')
        f_fo = {
            'all': ex.submit(fileobj_tlc, 'all', ['Agree', 'SamePosition'],
                             MaxOps=3 if quick else 4),
            'chars': ex.submit(fileobj_tlc, 'chars', ['Agree'],
                               PosByChars='TRUE'),
            'apptrack': ex.submit(fileobj_tlc, 'apptrack', ['Agree'],
                                  AppendTracks='TRUE'),
            'noadv': ex.submit(fileobj_tlc, 'noadv', ['Agree'],
                               ReadNoAdvance='TRUE'),
            'crash': ex.submit(fileobj_tlc, 'crash', ['Agree'],
                               ReadAllCrashes='TRUE'),
            'wit1': ex.submit(fileobj_tlc, 'wit1', ['NeverAppendNone']),
            'wit2': ex.submit(fileobj_tlc, 'wit2', ['NeverTwoWrites']),
            'sim': ex.submit(fileobj_tlc, 'sim', [], view=False, workers=4,
                             Widths='{1, 2, 3, 4}', Boms='{0, 2, 4}',
                             MaxOps=4, MaxLen=16,
                             simulate=f'file={fo_dir}/tr,num='
                                      f'{110 if quick else 2500}',
                             depth=6, seed=ctx.seed * 10 + 9),
        }
        # the ranged server-side copy (specs/SftpIO/CopyData.tla)
        from harness.drivers import sftp_copydata
        f_cd = {'table': ex.submit(sftp_copydata.table)}
        for nm, kw, inv in (('zero', dict(ZeroMeansToEnd='TRUE'),
                             'CopyExact'),
                            ('noprog', dict(NoProgressAtEof='TRUE'),
                             'ChunkProgress')):
            f_cd[nm] = ex.submit(copydata_variant, nm, kw, inv)
        # the server's limits (specs/SftpIO/Limits.tla)
        lim_invs = ['ReadComplete', 'ShortReadContinued', 'AllOrError']
        f_lim = {
            'table': ex.submit(limits_tlc, 'table', lim_invs + ['Table'],
                               Emit='TRUE'),
            'single': ex.submit(limits_tlc, 'single', ['ReadComplete'],
                                SingleReadAboveLimit='TRUE'),
        }
        # the sparse-ranges protocol (specs/SftpIO/Sparse.tla)
        alts = [129] if quick else [127, 128, 129, 257]
        f_sparse = {
            'table': ex.submit(sparse_tlc, 'table', SPARSE_INVS + ['Table'],
                               MaxA=5 if quick else 7, Emit='TRUE'),
            'atend': ex.submit(sparse_tlc, 'atend', ['RangesExact'],
                               AtEndOnFullPage='TRUE'),
            'resume': ex.submit(sparse_tlc, 'resume', ['Ordered'],
                                ResumeAtRequest='TRUE'),
        }
        for n_ext in alts:
            f_sparse[f'alt{n_ext}'] = ex.submit(
                sparse_tlc, f'alt{n_ext}', SPARSE_INVS + ['Table'],
                Alt=n_ext, Pages='{128}', Emit='TRUE')
        f_mc = [ex.submit(one, it) for it in runs]
        f_sim = [ex.submit(one_sim, it) for it in enumerate(sims)]
        results = [f.result() for f in f_mc]
        sim_out = [f.result() for f in f_sim]
        tree_res = {k: f.result() for k, f in f_tree.items()}
        sparse_res = {k: f.result() for k, f in f_sparse.items()}
        fo_res = {k: f.result() for k, f in f_fo.items()}
        lim_res = {k: f.result() for k, f in f_lim.items()}
        cd_res = {k: f.result() for k, f in f_cd.items()}
    for (name, exp, kw), res in zip(runs, results):
        ctx.require_tlc_ok(f'SftpIO {name} {kw}', res, expect_violation=exp)

    total = 0
    outcomes = {}
    skipped = 0
    for (name, _num, _kw), (behs, res) in zip(sims, sim_out):
        ctx.require(len(behs) > 0, f'no simulation traces for {name}')
        ctx.add_tlc(f'SftpIO simulate {name}', res)
        for c, script, states in behs:
            if not script:
                continue
            if c['op'] == 'put' and c['sparse']:
                U = 4096
            else:
                U = rnd.choice([1, 1, 3, 257])
            variant = sftp_io.pick_variant(c, rnd)
            version = rnd.choice([3, 3, 4, 5, 6])
            rpr = rnd.choice([1, 128]) if c['sparse'] else 128
            code = rnd.choice([4, 3, 2, 8])
            predst = rnd.choice([None, None, 'shorter', 'longer', 'equal'])
            prog = rnd.random() < 0.5
            r = sftp_io.replay(c, script, states, U=U, version=version,
                               variant=variant, ranges_per_reply=rpr,
                               err_code=code, predst=predst, progress=prog)
            if r.get('skipped'):
                skipped += 1
                continue
            total += 1
            key = (json.dumps(c, sort_keys=True), json.dumps(r['script']))
            nontrivial = len(r['script']) >= 3 or \
                any(len(s[1]) > 1 for s in r['script'] if s[0] == 'ans')
            ctx.count(key, nontrivial)
            outcomes[(c['op'], r['outcome'])] = \
                outcomes.get((c['op'], r['outcome']), 0) + 1
            if total % 331 == 5 and nontrivial:
                ctx.sample({'sim': name, 'cfg': c, 'script': r['script'],
                            'U': U, 'variant': variant, 'version': version,
                            'outcome': r['outcome'], 'exc': r.get('exc')})
            report(ctx, r, per_clause)
    ctx.traces_validated(total)
    sftp_io.drop_world()
    if per_clause:
        ctx.notes.append('monitor hits (clause, op) -> behaviours: ' +
                         ', '.join(f'{cl}/{op}={n}' for (cl, op), n in
                                   sorted(per_clause.items())))
    ctx.notes.append('replay outcomes: ' + ', '.join(
        f'{op}/{oc}={n}' for (op, oc), n in sorted(outcomes.items())))
    if skipped:
        ctx.notes.append(f'{skipped} sparse put behaviours skipped: the file '
                         f'system under .work does not report holes')
    ctx.require(total > 200, f'only {total} behaviours were replayed')
    for op in ('read', 'write', 'get', 'put', 'copy'):
        ctx.require(outcomes.get((op, 'returned'), 0) > 0 and
                    outcomes.get((op, 'raised'), 0) > 0,
                    f'replay did not see both outcomes for {op}: {outcomes}')

    # ---- 3. code -> spec: recorded natural transfers validated by TLC ------
    trace_validation(ctx, sftp_io, quick)

    # ---- 4. the tree-walking layer: get / put / copy of small trees ---------
    ctx.require_tlc_ok('SftpTree ' + ('all trees x sampled flag sets'
                                      if quick else 'every case'),
                       tree_res['all'])
    ctx.require_tlc_ok('SftpTree working with the link\'s own attributes '
                       '(must violate SizeFromTarget)', tree_res['lstat'],
                       expect_violation='SizeFromTarget')
    ctx.require_tlc_ok('SftpTree dropping failed entries silently (must '
                       'violate ErrorsReported)', tree_res['skip'],
                       expect_violation='ErrorsReported')
    ctx.require_tlc_ok('SftpTree leaving the destination of an empty file '
                       'alone when a progress handler is set (must violate '
                       'ErrorsReported)', tree_res['empty'],
                       expect_violation='ErrorsReported')
    ctx.require_tlc_ok('SftpTree case table', tree_res['emit'])
    tree_replay(ctx, tree_res['emit'], rnd)

    # ---- 5. the sparse-ranges protocol (paging with at_end) -----------------
    ctx.require_tlc_ok('Sparse every layout x page size', sparse_res['table'])
    ctx.require_tlc_ok('Sparse where a full page counts as the end (must '
                       'violate RangesExact)', sparse_res['atend'],
                       expect_violation='RangesExact')
    ctx.require_tlc_ok('Sparse where the next request does not resume at the '
                       'last range (must violate Ordered)',
                       sparse_res['resume'], expect_violation='Ordered')
    for n_ext in alts:
        ctx.require_tlc_ok(f'Sparse unscaled: {n_ext} extents, page 128',
                           sparse_res[f'alt{n_ext}'])
    sparse_replay(ctx, [sparse_res['table']] +
                  [sparse_res[f'alt{n}'] for n in alts], rnd)

    # ---- 6. the SFTPClientFile state machine (position, modes, encodings) ---
    ctx.require_tlc_ok('FileObj exhaustive', fo_res['all'])
    for k, what in (('chars', 'position advanced by characters'),
                    ('apptrack', 'append mode keeping a concrete offset'),
                    ('noadv', 'read not advancing the position'),
                    ('crash', 'read-to-end beyond the end failing (the '
                              'pinned tree, finding ReadPastEnd)')):
        ctx.require_tlc_ok(f'FileObj with {what} (must violate Agree)',
                           fo_res[k], expect_violation='Agree')
    ctx.require_tlc_ok('witness NeverAppendNone', fo_res['wit1'],
                       expect_violation='NeverAppendNone')
    ctx.require_tlc_ok('witness NeverTwoWrites', fo_res['wit2'],
                       expect_violation='NeverTwoWrites')
    if fo_res['sim'].error and fo_res['sim'].error != 'timeout':
        raise MachineryError('simulate FileObj: ' + fo_res['sim'].error +
                             fo_res['sim'].output[-2000:])
    ctx.add_tlc('FileObj simulate', fo_res['sim'])
    fileobj_replay(ctx, fo_dir, rnd)
    tlc.cleanup('c12_fo_sim_out')

    # ---- 7. the server's limits, enforced -----------------------------------
    ctx.require_tlc_ok('Limits table', lim_res['table'])
    ctx.require_tlc_ok('Limits where only the block size decides for a single '
                       'READ (must violate ReadComplete)', lim_res['single'],
                       expect_violation='ReadComplete')
    limits_replay(ctx, lim_res['table'], rnd, quick)

    # ---- 8. copy-data: the ranged copy done by the server -------------------
    cd_table, cd_rows = cd_res['table']
    ctx.require_tlc_ok('CopyData every case', cd_table)
    ctx.require_tlc_ok('CopyData where a remaining length of 0 means "to the '
                       'end" in every iteration (must violate CopyExact)',
                       cd_res['zero'], expect_violation='CopyExact')
    ctx.require_tlc_ok('CopyData advancing by what was read without stopping '
                       'at the end of the file (must violate ChunkProgress)',
                       cd_res['noprog'], expect_violation='ChunkProgress')
    ctx.require(len(cd_rows) > 1000, f'copy-data table: {len(cd_rows)} rows')
    st = sftp_copydata.replay(ctx, cd_rows, 2,
                              {'CopyExact', 'CopyDataWork', 'ChunkProgress'},
                              quick, rnd, 'c12', stride=2)
    ctx.traces_validated(st['rows'] + st['api'])

    ctx.assumptions += [
        'recorded transfers: linearization points are taken in the client by '
        'wrappers installed from the driver (SFTPClientHandler.read/write '
        'call and return inside the block task; return of asyncio.wait in '
        '_SFTPParallelIO.iter); asyncssh\'s own SFTP server processes '
        'requests one at a time, so out-of-order completion comes from the '
        'raw peer answering each request from its own task',
        'the SFTP server is consistent: it serves a fixed byte string and '
        'answers READ with a non-empty prefix of the requested range, EOF or '
        'an error; it acknowledges or refuses WRITE',
        'one harness step = a set of replies delivered back to back, then the '
        'client runs to quiescence (run-to-completion scheduling of the real '
        'asyncio code on the virtual loop)',
        'a single-request read (size <= block size) may return a non-empty '
        'prefix ("up to size bytes"); only multi-block reads must be exact',
        'the SFTP session is opened with subsystem name "sftp-scripted" and '
        'asyncssh.sftp.start_sftp_client (what SSHClientConnection.'
        'start_sftp_client does) because the real server reserves "sftp" for '
        'its own SFTPServer',
        'sparse put uses real holes in a local file (4096-byte units)',
    ]


if __name__ == '__main__':
    run_check('C12', main)
