"""C15 - keys survive every export/import path and interoperate.

1. TLC checks specs/KeyFormats: the applicability/outcome tables of private
   and public export/import (operational order of checks == declarative
   legality, round-trip/passphrase invariants), the multi-key file scanner
   (operational scanner == declarative expectation, Progress), and the
   export/import/convert chains (ChainInv); sensitivity variants must be
   reported as violated.  The same runs print every case with its predicted
   abstract outcome.
2. Every printed case is executed on real keys.  The deciding oracle is the
   harness: SSHKey equality / public_data / comment after the round trip,
   wrong or missing passphrase refused, files with several keys return every
   key in order.
3. Independent readers and writers: PyCA `cryptography` and ssh-keygen read
   what asyncssh wrote and asyncssh reads what they wrote (keys and
   certificates).
Level: exploration over a model-generated case space (see DESIGN 5.15).
"""

import json
import os
import random
import re
from concurrent.futures import ThreadPoolExecutor

from harness import tlc
from harness.framework import run_check, MachineryError, VERIF

SPEC = os.path.join(VERIF, 'specs', 'KeyFormats')


def tlc_part(part, variant='code', emit=False, bcrypt=False, maxblocks=3,
             maxdepth=4, invariants=(), properties=(), workers=2):
    name = f'_c15_{part}_{variant}.cfg'
    lines = ['CONSTANTS', f'  Part = "{part}"', f'  Variant = "{variant}"',
             f'  Bcrypt = {"TRUE" if bcrypt else "FALSE"}',
             f'  MaxBlocks = {maxblocks}', f'  MaxDepth = {maxdepth}',
             f'  Emit = {"TRUE" if emit else "FALSE"}',
             'SPECIFICATION Spec', 'CHECK_DEADLOCK FALSE']
    lines += [f'INVARIANT {i}' for i in invariants]
    lines += [f'PROPERTY {p}' for p in properties]
    with open(os.path.join(SPEC, name), 'w') as f:
        f.write('\n'.join(lines) + '\n')
    tag = f'c15_{part}_{variant}'
    try:
        return tlc.run(SPEC, 'KeyFormats', name, tag,
                       workers=1 if emit else workers, timeout=1800,
                       java_heap='3g')
    finally:
        os.remove(os.path.join(SPEC, name))
        tlc.cleanup(tag)


def unset(v):
    if isinstance(v, dict):
        if '$set' in v and len(v) == 1:
            return tuple(sorted(unset(x) for x in v['$set']))
        return {k: unset(x) for k, x in v.items()}
    if isinstance(v, list):
        return [unset(x) for x in v]
    return v


_FIELD = re.compile(r'(\w+) \|->')


def fast_value(text):
    """TLA+ ToString output without sets -> Python, via JSON (the generic
    parser of harness/tlc.py is too slow for 10^5 rows)."""
    t = _FIELD.sub(r'"\1":', text)
    t = t.replace('[', '{').replace(']', '}')
    t = t.replace('<<', '[').replace('>>', ']')
    t = t.replace('TRUE', 'true').replace('FALSE', 'false')
    return json.loads(t)


def rows_of(res):
    out = []
    for line in res.printed:
        if not line.startswith('"<<'):
            continue
        text = json.loads(line)         # the printed TLA+ string literal
        try:
            v = fast_value(text)
        except ValueError:
            v = unset(tlc.parse_value(text))
        if isinstance(v, list) and len(v) == 3 and isinstance(v[0], dict):
            out.append(v)
    return out


def norm(v):
    return json.loads(json.dumps(v, sort_keys=True, default=str))


class Only:
    """--replay PATH: run the same code, restricted to the recorded case."""

    def __init__(self, path):
        self.rp = None
        if path:
            with open(path) as f:
                self.rp = json.load(f).get('replay') or {}
            self.rp.setdefault('kind', 'interop')
            print('replaying', {k: v for k, v in self.rp.items()
                                if k in ('kind', 'row', 'kt', 'case',
                                         'comment_class')})

    def kind(self, *kinds):
        return self.rp is None or self.rp.get('kind') in kinds

    def row(self, kind, row):
        return self.rp is None or (self.rp.get('kind') == kind and
                                   norm(self.rp.get('row')) == norm(row))


def comment_of(k):
    return k.get_comment_bytes() if k.has_comment() else None




def main(ctx):
    from harness.drivers import key_formats as D
    ctx.level = 'exploration'
    quick = ctx.tier == 'quick'
    rnd = random.Random(ctx.seed + 15)
    only = Only(ctx.replay_path)
    kts = D.available_kts()
    ctx.require(len(kts) >= 5, f'too few key types: {kts}')
    bcrypt = bool(D.BCRYPT)
    mb = 3 if quick else 4
    md = 4 if quick else 6

    # ---- 1. TLC -------------------------------------------------------------
    jobs = {
        'priv': dict(part='priv', emit=True, bcrypt=bcrypt,
                     invariants=['TypeOK', 'TableEquiv', 'NoSilentClear',
                                 'NoEncErrWithoutPass', 'RoundTrip',
                                 'EmitRows']),
        'pub': dict(part='pub', emit=True, bcrypt=bcrypt,
                    invariants=['TypeOK', 'TableEquiv', 'EmitRows']),
        'scanpriv': dict(part='scanpriv', emit=True, maxblocks=mb,
                         invariants=['TypeOK', 'ScanEquiv', 'ScanComplete',
                                     'EmitRows'], properties=['Progress']),
        'scanpub': dict(part='scanpub', emit=True, maxblocks=mb,
                        invariants=['TypeOK', 'ScanEquiv', 'EmitRows'],
                        properties=['Progress']),
        'chain': dict(part='chain', emit=True, bcrypt=bcrypt, maxdepth=md,
                      invariants=['TypeOK', 'ChainInv', 'EmitRows']),
        'layout': dict(part='layout', emit=True,
                       invariants=['TypeOK', 'UnfoldOK', 'EmitRows']),
        's_replace_on_continue': dict(part='layout',
                                      variant='replace_on_continue',
                                      invariants=['UnfoldOK']),
        'keylist': dict(part='keylist', emit=True, maxblocks=2 if quick else 3,
                        invariants=['TypeOK', 'ListEquiv', 'Independence',
                                    'EmitRows']),
        's_carry_enc_key': dict(part='keylist', variant='CarryEncKey',
                                maxblocks=2, invariants=['Independence']),
        'encoding': dict(part='encoding', emit=True,
                         invariants=['TypeOK', 'EncSound', 'EmitRows']),
        's_prf_ignored': dict(part='encoding',
                              variant='PrfIgnoredWithKeyLength',
                              invariants=['EncSound']),
        's_strict_envelope': dict(part='encoding', variant='StrictEnvelope',
                                  invariants=['EncSound']),
        'passval': dict(part='passval', emit=True, bcrypt=bcrypt,
                        invariants=['TypeOK', 'PassSound', 'EmitRows']),
        's_empty_means_none': dict(part='passval', variant='EmptyMeansNone',
                                   bcrypt=bcrypt, invariants=['PassSound']),
        's_any_hash': dict(part='priv', variant='any_hash', bcrypt=bcrypt,
                           invariants=['TableEquiv']),
        's_stop_at_junk': dict(part='scanpriv', variant='stop_at_junk',
                               maxblocks=2, invariants=['ScanEquiv']),
    }
    if not quick:
        jobs['s_wrong_pass'] = dict(part='priv', variant='wrong_pass_ok',
                                    bcrypt=bcrypt, invariants=['RoundTrip'])
        jobs['s_bcrypt_other'] = dict(
            part='priv', bcrypt=not bcrypt,
            invariants=['TypeOK', 'TableEquiv', 'NoSilentClear',
                        'NoEncErrWithoutPass', 'RoundTrip'])
    with ThreadPoolExecutor(max_workers=4) as ex:
        futs = {n: ex.submit(tlc_part, **kw) for n, kw in jobs.items()}
        results = {n: f.result() for n, f in futs.items()}
    expect = {'s_replace_on_continue': 'UnfoldOK',
              's_carry_enc_key': 'Independence',
              's_prf_ignored': 'EncSound',
              's_strict_envelope': 'EncSound',
              's_empty_means_none': 'PassSound',
              's_any_hash': 'TableEquiv', 's_stop_at_junk': 'ScanEquiv',
              's_wrong_pass': 'RoundTrip'}
    for n, res in results.items():
        ctx.require_tlc_ok(f'KeyFormats {n} {jobs[n]}', res,
                           expect_violation=expect.get(n))
    rows = {n: rows_of(results[n]) for n in
            ('priv', 'pub', 'scanpriv', 'scanpub', 'chain', 'layout',
             'keylist', 'encoding', 'passval')}
    for n, r in rows.items():
        ctx.require(len(r) > 50, f'{n}: only {len(r)} rows from TLC')

    # ---- 2a. private table --------------------------------------------------
    def kf_sig(part, **kw):
        return dict(module='KeyFormats', part=part, **kw)

    n_ok = 0
    seen_full = set()
    for idx, (row, pexp, pimp) in enumerate(rows['priv']):
        kt = row['kt']
        if kt not in kts or not only.row('priv', row):
            continue
        if only.rp is not None:
            pass
        elif row['fmt'] == 'pkcs1-pem' and row['pass'] and quick and \
                (row['hash'], row['pbe']) not in (('sha256', 2), ('md5', 1),
                                                  ('bogus', 3)):
            continue        # hash / version are not used by PKCS#1
        if row['fmt'] == 'pkcs1-pem' and row['pass'] and not quick and \
                row['hash'] not in ('sha256', 'md5', 'bogus') and \
                only.rp is None:
            continue
        # a few imports per format run the full RSA key validation
        full = kt == 'rsa' and pimp == 'ok' and \
            (row['fmt'], row['pass']) not in seen_full
        if full:
            seen_full.add((row['fmt'], row['pass']))
        kt_run = kt
        if not quick and kt == 'rsa' and pimp == 'ok' and idx % 2 and \
                not row['pass']:
            kt_run = 'rsa3072'
        o = D.run_priv_row(row, idx, full_validation=full, kt_override=kt_run)
        case = {k: row[k] for k in ('kt', 'fmt', 'pass', 'cipher', 'hash',
                                    'pbe', 'ipass')}
        ctx.count(('priv', tuple(case.values())),
                  nontrivial=(pexp == 'ok' or row['pass']))
        rp = {'kind': 'priv', 'row': row}
        if pexp == 'ok':
            if o['export'] != 'ok':
                ctx.violation(kf_sig('priv', step='export', **case),
                              f'supported private export fails: {case}: '
                              f'{o["export"]} {o.get("export_msg")}', rp)
                continue
            if pimp == 'ok':
                if o['import'] != 'ok':
                    ctx.violation(kf_sig('priv', step='import', **case),
                                  f'exported private key cannot be imported '
                                  f'back: {case}: {o["import"]} '
                                  f'{o.get("import_exc")}', rp)
                    continue
                n_ok += 1
                k2 = o['key']
                want_c = D.COMMENTS['ascii'] if row['fmt'] == 'openssh' \
                    else None
                if not D.same_private(o['orig'], k2):
                    ctx.violation(kf_sig('priv', step='equal', **case),
                                  f'private key changed by export/import: '
                                  f'{case}', rp)
                elif comment_of(k2) != want_c:
                    ctx.violation(kf_sig('priv', step='comment', **case),
                                  f'comment after export/import is '
                                  f'{comment_of(k2)!r}, expected {want_c!r}: '
                                  f'{case}', rp)
                if idx % 997 == 0:
                    ctx.sample({'part': 'priv', 'row': row, 'export': 'ok',
                                'import': 'ok', 'first_line':
                                o['data'][:40].decode('latin-1')})
            else:
                if o['import'] == 'ok':
                    ctx.violation(kf_sig('priv', step='passphrase', **case),
                                  f'encrypted key imported with '
                                  f'{row["ipass"]} passphrase: {case}', rp)
                elif not isinstance(o.get('import_exc'), ValueError):
                    ctx.divergence(f'priv: {row["ipass"]} passphrase refused '
                                   f'with {o["import"]}: {case}')
        else:
            if o['export'] == 'ok':
                ctx.divergence(f'priv: model says {pexp}, code exports: '
                               f'{case}')
            elif o['export'] != pexp:
                ctx.divergence(f'priv: model says {pexp}, code raises '
                               f'{o["export"]}: {case}')
    ctx.require(n_ok > 100 or only.rp is not None,
                f'only {n_ok} private round trips succeeded')

    # ---- 2b. public table ---------------------------------------------------
    cmt_classes = list(D.COMMENTS)
    for idx, (row, pexp, pimp) in enumerate(rows['pub']):
        if not row['kt'].startswith('sk-') and row['kt'] not in kts:
            continue
        if not only.row('pub', row):
            continue
        for cc in cmt_classes:
            if only.rp is not None and cc != only.rp.get('comment_class'):
                continue
            o = D.run_pub_row(row, cc)
            case = dict(kt=row['kt'], fmt=row['fmt'], comment=cc)
            ctx.count(('pub', row['kt'], row['fmt'], cc),
                      nontrivial=pexp == 'ok')
            rp = {'kind': 'pub', 'row': row, 'comment_class': cc}
            if pexp != 'ok':
                if o['export'] == 'ok':
                    ctx.divergence(f'pub: model says {pexp}, code exports: '
                                   f'{case}')
                elif o['export'] != pexp:
                    ctx.divergence(f'pub: model says {pexp}, code raises '
                                   f'{o["export"]}: {case}')
                continue
            if o['export'] != 'ok' or o.get('import') != 'ok':
                ctx.violation(kf_sig('pub', step='roundtrip', **case),
                              f'public export/import fails: {case}: '
                              f'{o["export"]}/{o.get("import")}', rp)
                continue
            k2 = o['key']
            c0 = D.COMMENTS[cc]
            if row['fmt'] == 'openssh' and cc == 'edgews':
                want_c = c0.strip()     # a one-line format cannot carry it
            elif row['fmt'] in ('openssh', 'rfc4716'):
                want_c = c0
            else:
                want_c = None
            if not D.same_public(o['orig'], k2) or \
                    k2.get_algorithm() != o['orig'].get_algorithm():
                ctx.violation(kf_sig('pub', step='equal', **case),
                              f'public key changed by export/import: {case}',
                              rp)
            elif comment_of(k2) != want_c:
                ctx.violation(kf_sig('pub', step='comment', **case),
                              f'comment after public export/import is '
                              f'{comment_of(k2)!r}, expected {want_c!r}: '
                              f'{case}', rp)
    ctx.sample({'part': 'pub', 'rows': len(rows['pub']),
                'comment_classes': cmt_classes})

    # observation (outside the specified comment space, never a verdict): a
    # comment with a line break survives the binary OpenSSH private format
    # and is written verbatim into the one-line public format
    if only.rp is None:
        import asyncssh
        k0 = D.copy_with_comment(D.key(kts[-1]), b'x')
        inj = D.key(kts[-1], 3).convert_to_public() \
            .export_public_key('openssh').strip()
        k0.set_comment(b'first line\n' + inj + b' injected')
        try:
            k1 = asyncssh.import_private_key(k0.export_private_key('openssh'))
            data = k1.export_public_key('openssh')
            n = len(asyncssh.public_key._decode_public_list(data))
            if n != 1:
                ctx.notes.append(
                    f'observation: a comment containing a line break is '
                    f'written verbatim by export_public_key("openssh"); the '
                    f'output then holds {n} key lines (the second one chosen '
                    f'by whoever chose the comment)')
        except Exception as exc:            # pylint: disable=broad-except
            ctx.notes.append(f'observation: newline comment probe: {exc!r}')

    # ---- 2c. scanner ----------------------------------------------------------
    scr = D.Scratch(tlc.WORK, 'c15_files_')
    try:
        bm = D.BlockMaker(kts)
        path = scr.path('keys.txt')
        for part, public_list in (('scanpriv', False), ('scanpub', True)):
            allrows = rows[part]
            for idx, (row, perr, pkeys) in enumerate(allrows):
                if not only.row(part, row):
                    continue
                blocks = row['blocks']
                salt = idx if only.rp is None else only.rp.get('salt', idx)
                blob, exps = D.build_file(bm, row, salt, public_list)
                pw = D.SCAN_PW if row['pass'] else None
                status, keys = D.run_scan(path, blob, public_list, pw,
                                          real_file=(idx % 40 == 0))
                plain = all(b in ('pem', 'pemenc', 'der', 'ossh', 'rfc',
                                  'pempub', 'comment', 'blank')
                            for b in blocks) and \
                    ('pemenc' not in blocks or row['pass'])
                case = dict(blocks=list(blocks), eol=row['eol'],
                            finalnl=row['finalnl'], passphrase=row['pass'])
                ctx.count((part, tuple(blocks), row['eol'], row['finalnl'],
                           row['pass']), nontrivial=len(blocks) > 0)
                rp = {'kind': part, 'row': row, 'salt': salt,
                      'file_hex': blob.hex() if len(blob) < 6000 else None}
                report = ctx.violation if plain else \
                    (lambda s, w, r=None: ctx.divergence(w))
                if status == 'hung':
                    ctx.violation(kf_sig(part, step='progress', **case),
                                  f'{part}: reading the file does not '
                                  f'terminate: {case}', rp)
                    continue
                if perr:
                    if status == 'ok':
                        ctx.divergence(f'{part}: model predicts an error, '
                                       f'code returns {len(keys)} keys: '
                                       f'{case}')
                    continue
                if status != 'ok':
                    report(kf_sig(part, step='read', **case),
                           f'{part}: reading a well-formed key file fails '
                           f'with {status}: {case}', rp)
                    continue
                want = [exps[i - 1] for i in pkeys]
                got = [(k.public_data, comment_of(k)) for k in keys]
                wantv = [(D.key(kt, slot).public_data, cm)
                         for kt, slot, cm, _ in want]
                if got != wantv:
                    if [g[0] for g in got] != [w[0] for w in wantv]:
                        what = f'returns {len(got)} keys, expected ' \
                               f'{len(wantv)} (or wrong key / order)'
                    else:
                        what = f'comments differ: ' \
                               f'{[g[1] for g in got]} vs ' \
                               f'{[w[1] for w in wantv]}'
                    report(kf_sig(part, step='keys', **case),
                           f'{part}: {what}: {case}', rp)
                elif not public_list:
                    for k, (kt, slot, cm, _) in zip(keys, want):
                        if not D.same_private(k, D.key(kt, slot)):
                            report(kf_sig(part, step='private', **case),
                                   f'{part}: private key differs: {case}', rp)
                if idx % 3001 == 7:
                    ctx.sample({'part': part, 'row': row,
                                'predicted_keys_at_blocks': pkeys,
                                'observed_keys': len(keys),
                                'file_bytes': len(blob)})
    finally:
        scr.close()

    # ---- 2d. chains -------------------------------------------------------------
    chains = rows['chain']
    if only.rp is not None:
        chains = [c for c in chains if only.kind('chain') and
                  c[0]['kt'] == only.rp.get('kt') and
                  c[0]['cmt'] == only.rp.get('comment_class') and
                  norm(c[1][:len(only.rp['hist'])]) == norm(only.rp['hist'])
                  ][:1]
    elif quick and len(chains) > 2000:
        rnd.shuffle(chains)
        chains = chains[:2000]
    runner = D.ChainRunner()
    state = {}

    def on_step(i, step, value, orig):
        kt, cc, hist = state['kt'], state['cc'], state['hist']
        action, fmt, enc, priv, cmt = step
        path_id = [s[:3] for s in hist[:i + 1]]
        case = dict(kt=kt, comment=cc, path=path_id)
        ctx.count(('chain', kt, cc, str(path_id)), nontrivial=True)
        rp = {'kind': 'chain', 'kt': kt, 'comment_class': cc, 'hist': hist}
        if isinstance(value, Exception):
            ctx.violation(kf_sig('chain', step=action, **case),
                          f'chain step {action}({fmt}, enc={enc}) fails: '
                          f'{type(value).__name__}: {value}: {case}', rp)
            return
        if isinstance(value, bytes):
            return
        c0 = D.COMMENTS[cc]
        want_c = {'orig': c0, 'trimmed': c0.strip() if c0 else c0,
                  'none': None}[cmt]
        if not D.same_public(orig, value):
            ctx.violation(kf_sig('chain', step='public', **case),
                          f'public half changed along the chain: {case}', rp)
        elif priv and not D.same_private(orig, value):
            ctx.violation(kf_sig('chain', step='private', **case),
                          f'private key changed along the chain: {case}', rp)
        elif comment_of(value) != want_c:
            if cmt in ('orig', 'trimmed'):
                ctx.violation(kf_sig('chain', step='comment', **case),
                              f'comment lost/changed along a chain of '
                              f'comment-carrying formats: got '
                              f'{comment_of(value)!r}, expected {want_c!r}: '
                              f'{case}', rp)
            else:
                ctx.divergence(f'chain: comment {comment_of(value)!r}, model '
                               f'says none: {case}')
        if not priv:
            try:
                value.export_private_key('openssh')
                ctx.violation(kf_sig('chain', step='ispublic', **case),
                              f'public key object exports a private key: '
                              f'{case}', rp)
            except Exception:           # pylint: disable=broad-except
                pass

    for ci, (crow, hist, fpriv) in enumerate(chains):
        if crow['kt'] not in kts:
            continue
        state.update(kt=crow['kt'], cc=crow['cmt'], hist=hist)
        runner.run(crow['kt'], crow['cmt'], hist, on_step)
        if ci % 1999 == 3:
            ctx.sample({'part': 'chain', 'kt': crow['kt'],
                        'comment_class': crow['cmt'],
                        'steps': [s[:3] for s in hist],
                        'predicted_final': hist[-1][3:] if hist else None})
    ctx.traces_validated(len(chains))

    # ---- 2e. foreign writer layouts ---------------------------------------------
    if only.kind('layout'):
        scr = D.Scratch(tlc.WORK, 'c15_layout_')
        try:
            layouts(ctx, D, scr, rows['layout'], kts, quick, kf_sig, only)
        finally:
            scr.close()

    # ---- 2f. key list loading ---------------------------------------------------
    if only.kind('keylist'):
        scr = D.Scratch(tlc.WORK, 'c15_keylist_')
        try:
            keylists(ctx, D, scr, rows['keylist'], kts, quick, kf_sig, only)
        finally:
            scr.close()

    # ---- 2h. passphrase values ---------------------------------------------------
    if only.kind('passval'):
        passvalues(ctx, D, rows['passval'], kts, quick, kf_sig, only)

    # ---- 2g. encoding choices of foreign writers --------------------------------
    if only.kind('encoding'):
        scr = D.Scratch(tlc.WORK, 'c15_encoding_')
        try:
            encodings(ctx, D, scr, rows['encoding'], kts, quick, kf_sig, only)
        finally:
            scr.close()

    # ---- 3. independent readers / writers ---------------------------------------
    if only.kind('interop'):
        scr = D.Scratch(tlc.WORK, 'c15_interop_')
        try:
            interop(ctx, D, scr, kts, quick, rnd, kf_sig)
        finally:
            scr.close()

    import asyncssh
    ctx.notes.append(f'asyncssh under test: {asyncssh.__file__}; '
                     f'bcrypt available: {bcrypt}')
    ctx.assumptions += [
        'TLC decides the applicability tables, the file scanner and the '
        'comment bookkeeping of chains; that the bytes are right is decided '
        'by the harness (key equality after round trips, PyCA, ssh-keygen): '
        'exploration, no exhaustive claim about bytes',
        f'bcrypt is {"" if bcrypt else "not "}installed: encrypted '
        f'OpenSSH-format export is specified to '
        f'{"work" if bcrypt else "raise KeyExportError"} here',
        'comments: any bytes a format can carry; the one-line OpenSSH public '
        'format cannot carry leading/trailing ASCII white space or line '
        'breaks (specified as trimmed), PKCS#1/PKCS#8 carry no comment',
        'RSA private imports skip the (60-180 ms) PyCA key validation except '
        'one import per format',
        'a supported combination = legal in the specification\'s table '
        '(derived from the documentation of export_private_key and pbe.py)',
        'independent readers are limited by what they support (ssh-keygen: '
        'no ed448, OpenSSL 3 without legacy ciphers; PyCA: no ed448 / large '
        'DSA in SSH formats); unsupported combinations are counted, not '
        'judged',
    ]


def interop(ctx, D, scr, kts, quick, rnd, kf_sig):
    import asyncssh
    PW = 'interop-pw'
    cm = b'interop comment'
    stats = {'openssl_read': 0, 'openssl_unsupported': 0,
             'openssl_written': 0, 'sweep_cases': 0,
             'pyca_read': 0, 'pyca_unsupported': 0, 'pyca_written': 0,
             'keygen_read': 0, 'keygen_unsupported': 0, 'keygen_written': 0}
    encs = {
        'pkcs1-pem': [('aes256-cbc', 'sha256', 2), ('aes128-cbc', 'sha1', 2),
                      ('des3-cbc', 'sha1', 2), ('aes192-cbc', 'md5', 1)],
        'pkcs8-pem': [('aes256-cbc', 'sha256', 2), ('aes128-cbc', 'sha1', 2),
                      ('aes192-cbc', 'sha512', 2), ('des3-cbc', 'sha1', 1),
                      ('des3-cbc', 'sha256', 2), ('aes128-cbc', 'sha224', 2),
                      ('aes256-cbc', 'sha384', 2), ('des-cbc', 'md5', 1),
                      ('rc4-128', 'sha1', 1), ('blowfish-cbc', 'sha1', 2)],
        'pkcs8-der': [('aes256-cbc', 'sha256', 2), ('des3-cbc', 'sha1', 1),
                      ('aes128-cbc', 'sha512', 2)],
    }
    if not quick:
        p2 = ['aes128-cbc', 'aes192-cbc', 'aes256-cbc', 'blowfish-cbc',
              'cast128-cbc', 'des-cbc', 'des3-cbc']
        encs['pkcs8-pem'] = [(c, h, 2) for c in p2 for h in
                             ('sha1', 'sha224', 'sha256', 'sha384',
                              'sha512')] + \
            [(c, h, 1) for c, h in D.OSSL_V1]
        encs['pkcs8-der'] = encs['pkcs8-pem'][::3]
        encs['pkcs1-pem'] = [(c, 'sha256', 2) for c in
                             ('aes128-cbc', 'aes192-cbc', 'aes256-cbc',
                              'des-cbc', 'des3-cbc')]
    use_kts = list(kts) + ([] if quick else ['rsa3072'])
    for kt in use_kts:
        k = D.copy_with_comment(D.key(kt), cm)
        pk = D.key(kt).pyca_key
        ref_priv = D.pyca_private_der(pk)
        ref_pub = D.pyca_public_der(pk.public_key())
        pkcs1 = kt in ('rsa', 'rsa3072', 'dsa', 'ec256', 'ec384', 'ec521')
        fmts = ['openssh', 'pkcs8-pem', 'pkcs8-der'] + \
            (['pkcs1-pem', 'pkcs1-der'] if pkcs1 else [])
        for fmt in fmts:
            elist = [None] + encs.get(fmt, [])
            if quick:
                elist = elist[:3 if kt in ('rsa', 'dsa') else 5]
            for enc in elist:
                case = dict(kt=kt, fmt=fmt, enc=list(enc) if enc else None)
                if enc:
                    data = k.export_private_key(fmt, PW, *enc)
                else:
                    data = k.export_private_key(fmt)
                # --- PyCA reads what asyncssh wrote
                ctx.count(('interop-pyca-read', kt, fmt, enc))
                try:
                    loaded = D.pyca_load_private(data, fmt,
                                                 PW.encode() if enc else None)
                except Exception as exc:    # pylint: disable=broad-except
                    loaded = None
                    # can PyCA handle this key type in this format at all?
                    try:
                        own = D.pyca_write_private(pk, fmt, None)
                        D.pyca_load_private(own, fmt, None)
                        capable = D.pyca_must_read(fmt, enc)
                    except Exception:       # pylint: disable=broad-except
                        capable = False
                    if capable:
                        ctx.violation(
                            kf_sig('interop', reader='pyca', **case),
                            f'PyCA cannot read a private key written by '
                            f'asyncssh: {case}: {type(exc).__name__}: {exc}',
                            {'kind': 'interop', 'case': case,
                             'data_hex': data.hex()})
                    else:
                        stats['pyca_unsupported'] += 1
                if loaded is not None:
                    stats['pyca_read'] += 1
                    if D.pyca_private_der(loaded) != ref_priv:
                        ctx.violation(
                            kf_sig('interop', reader='pyca', step='equal',
                                   **case),
                            f'PyCA reads a different private key than '
                            f'asyncssh wrote: {case}',
                            {'kind': 'interop', 'case': case})
                # --- openssl reads what asyncssh wrote
                if D.OPENSSL and fmt != 'openssh':
                    ctx.count(('interop-openssl-read', kt, fmt, enc))
                    der = D.openssl_public_der(scr, data, fmt,
                                               PW if enc else None)
                    if der is not None:
                        stats['openssl_read'] += 1
                        if der != ref_pub:
                            ctx.violation(
                                kf_sig('interop', reader='openssl',
                                       step='equal', **case),
                                f'openssl reads a different key than '
                                f'asyncssh wrote: {case}',
                                {'kind': 'interop', 'case': case})
                    elif D.openssl_must_read(fmt, enc) and \
                            D.openssl_public_der(
                                scr, D.pyca_write_private(pk, 'pkcs8-pem',
                                                          None),
                                'pkcs8-pem', None) is not None:
                        ctx.violation(
                            kf_sig('interop', reader='openssl', **case),
                            f'openssl cannot read a private key written by '
                            f'asyncssh: {case}',
                            {'kind': 'interop', 'case': case,
                             'data_hex': data.hex()})
                    else:
                        stats['openssl_unsupported'] += 1
                # --- ssh-keygen reads what asyncssh wrote
                if D.SSH_KEYGEN and D.keygen_supports(kt) and \
                        fmt in ('openssh', 'pkcs1-pem', 'pkcs8-pem'):
                    ctx.count(('interop-keygen-read', kt, fmt, enc))
                    f = scr.write('privkey_' + kt, data)
                    rc, out, err = D.keygen(['-y', '-P', PW if enc else '',
                                             '-f', f])
                    if rc == 0:
                        stats['keygen_read'] += 1
                        blob, _ = D.blob_of_line(out)
                        if blob != k.public_data:
                            ctx.violation(
                                kf_sig('interop', reader='ssh-keygen',
                                       step='equal', **case),
                                f'ssh-keygen -y derives a different public '
                                f'key from the file asyncssh wrote: {case}',
                                {'kind': 'interop', 'case': case})
                    elif D.keygen_must_read(fmt, enc) and \
                            D.keygen_reads_pyca(scr, kt, fmt):
                        ctx.violation(
                            kf_sig('interop', reader='ssh-keygen', **case),
                            f'ssh-keygen cannot read a private key written '
                            f'by asyncssh: {case}: {err[:200]}',
                            {'kind': 'interop', 'case': case,
                             'data_hex': data.hex()})
                    else:
                        stats['keygen_unsupported'] += 1
                    if fmt == 'openssh' and rc == 0:
                        rc, out, err = D.keygen(['-l', '-f', f])
                        fp = k.get_fingerprint()
                        if rc == 0 and (fp.encode() not in out or
                                        cm not in out):
                            ctx.violation(
                                kf_sig('interop', reader='ssh-keygen',
                                       step='fingerprint', **case),
                                f'ssh-keygen -l shows {out!r}, asyncssh '
                                f'fingerprint {fp} comment {cm!r}',
                                {'kind': 'interop', 'case': case})
            # --- asyncssh reads what PyCA wrote
            for pw in (None, PW):
                if pw and fmt.endswith('-der') and fmt != 'pkcs8-der':
                    continue
                try:
                    data = D.pyca_write_private(pk, fmt,
                                                pw.encode() if pw else None)
                except Exception:           # pylint: disable=broad-except
                    continue                # PyCA cannot write this
                stats['pyca_written'] += 1
                case = dict(kt=kt, fmt=fmt, writer='pyca', enc=bool(pw))
                ctx.count(('interop-pyca-write', kt, fmt, bool(pw)))
                try:
                    k2 = D.imp_priv(data, pw)
                    if not D.same_private(k2, D.key(kt)):
                        ctx.violation(kf_sig('interop', step='equal', **case),
                                      f'asyncssh imports a different key '
                                      f'than PyCA wrote: {case}',
                                      {'kind': 'interop', 'case': case})
                except Exception as exc:    # pylint: disable=broad-except
                    ctx.violation(kf_sig('interop', step='import', **case),
                                  f'asyncssh cannot import a private key '
                                  f'written by PyCA: {case}: '
                                  f'{type(exc).__name__}: {exc}',
                                  {'kind': 'interop', 'case': case,
                                   'data_hex': data.hex()})
        # --- public formats
        kp = D.copy_with_comment(D.key(kt).convert_to_public(), cm)
        pfmts = ['openssh', 'pkcs8-pem', 'pkcs8-der'] + \
            (['pkcs1-pem', 'pkcs1-der'] if kt in ('rsa', 'rsa3072', 'dsa')
             else [])
        for fmt in pfmts:
            data = kp.export_public_key(fmt)
            case = dict(kt=kt, fmt=fmt, public=True)
            ctx.count(('interop-pub', kt, fmt))
            try:
                loaded = D.pyca_load_public(data, fmt)
                stats['pyca_read'] += 1
                if D.pyca_public_der(loaded) != ref_pub:
                    ctx.violation(kf_sig('interop', reader='pyca',
                                         step='equal', **case),
                                  f'PyCA reads a different public key: {case}',
                                  {'kind': 'interop', 'case': case})
            except Exception as exc:        # pylint: disable=broad-except
                try:
                    own = D.pyca_write_public(pk, fmt)
                    D.pyca_load_public(own, fmt)
                    ctx.violation(kf_sig('interop', reader='pyca', **case),
                                  f'PyCA cannot read a public key written by '
                                  f'asyncssh: {case}: {exc}',
                                  {'kind': 'interop', 'case': case,
                                   'data_hex': data.hex()})
                except Exception:           # pylint: disable=broad-except
                    stats['pyca_unsupported'] += 1
            try:
                own = D.pyca_write_public(pk, fmt)
            except Exception:               # pylint: disable=broad-except
                own = None
            if own is not None:
                stats['pyca_written'] += 1
                try:
                    k2 = asyncssh.import_public_key(own)
                    ok = D.same_public(k2, kp)
                except Exception as exc:    # pylint: disable=broad-except
                    ok = False
                if not ok:
                    ctx.violation(kf_sig('interop', writer='pyca', **case),
                                  f'asyncssh does not read the public key '
                                  f'PyCA wrote: {case}',
                                  {'kind': 'interop', 'case': case,
                                   'data_hex': own.hex()})
        # --- ssh-keygen converts public keys
        if D.SSH_KEYGEN and D.keygen_supports(kt):
            pubf = scr.write('k.pub', kp.export_public_key('openssh'), 0o644)
            for m, fmt in (('RFC4716', 'rfc4716'), ('PKCS8', 'pkcs8-pem'),
                           ('PEM', 'pkcs1-pem')):
                if fmt == 'pkcs1-pem' and kt not in ('rsa', 'rsa3072'):
                    continue
                if fmt == 'pkcs8-pem' and kt in ('ed25519',):
                    pass
                case = dict(kt=kt, fmt=fmt, via='ssh-keygen')
                rc, out, err = D.keygen(['-e', '-m', m, '-f', pubf])
                ctx.count(('interop-keygen-e', kt, fmt))
                if rc == 0:
                    stats['keygen_written'] += 1
                    try:
                        k2 = asyncssh.import_public_key(out)
                        ok = D.same_public(k2, kp)
                        if fmt == 'rfc4716' and ok and comment_of(k2) is None:
                            ok = False
                    except Exception:       # pylint: disable=broad-except
                        ok = False
                    if not ok:
                        ctx.violation(
                            kf_sig('interop', writer='ssh-keygen', **case),
                            f'asyncssh does not read what ssh-keygen -e -m '
                            f'{m} wrote: {case}',
                            {'kind': 'interop', 'case': case,
                             'data': out.decode('latin-1')})
                else:
                    stats['keygen_unsupported'] += 1
                ef = scr.write('e.pub', kp.export_public_key(fmt), 0o644)
                rc, out, err = D.keygen(['-i', '-m', m, '-f', ef])
                ctx.count(('interop-keygen-i', kt, fmt))
                if rc == 0:
                    stats['keygen_read'] += 1
                    if D.blob_of_line(out)[0] != kp.public_data:
                        ctx.violation(
                            kf_sig('interop', reader='ssh-keygen',
                                   step='equal', **case),
                            f'ssh-keygen -i -m {m} reads a different key '
                            f'than asyncssh wrote: {case}',
                            {'kind': 'interop', 'case': case})
                elif fmt == 'rfc4716' or D.keygen_reads_pyca(scr, kt, fmt,
                                                               public=True):
                    ctx.violation(
                        kf_sig('interop', reader='ssh-keygen', **case),
                        f'ssh-keygen -i -m {m} cannot read what asyncssh '
                        f'wrote: {case}: {err[:200]}',
                        {'kind': 'interop', 'case': case})
                else:
                    stats['keygen_unsupported'] += 1

    # --- keys made by ssh-keygen
    if D.SSH_KEYGEN:
        for t, extra in (('ed25519', []), ('ecdsa', ['-b', '384']),
                         ('rsa', ['-b', '2048'])) + \
                (() if quick else (('ecdsa', ['-b', '521']),
                                   ('rsa', ['-b', '3072']))):
            for pw in ('', 'kg-pass'):
                f = scr.path(f'kg_{t}')
                for p in (f, f + '.pub'):
                    if os.path.exists(p):
                        os.remove(p)
                rc, out, err = D.keygen(['-q', '-t', t] + extra +
                                        ['-N', pw, '-C', 'made by keygen',
                                         '-f', f])
                if rc != 0:
                    continue
                case = dict(writer='ssh-keygen', type=t, extra=extra,
                            encrypted=bool(pw))
                ctx.count(('interop-keygen-gen', t, tuple(extra), bool(pw)))
                stats['keygen_written'] += 1
                pub = asyncssh.read_public_key(f + '.pub')
                if comment_of(pub) != b'made by keygen':
                    ctx.violation(kf_sig('interop', step='comment', **case),
                                  f'comment of ssh-keygen public key read as '
                                  f'{comment_of(pub)!r}', {'kind': 'interop', 'case': case})
                if not pw:
                    try:
                        k = asyncssh.read_private_key(f)
                        ok = k.public_data == pub.public_data and \
                            comment_of(k) == b'made by keygen'
                    except Exception as exc:    # pylint: disable=broad-except
                        ok = False
                    if not ok:
                        ctx.violation(kf_sig('interop', step='import', **case),
                                      f'asyncssh does not read the private '
                                      f'key ssh-keygen wrote: {case}',
                                      {'kind': 'interop', 'case': case})
                    # convert to PEM (PKCS#1 / PKCS#8) with a passphrase
                    for m in ('PEM', 'PKCS8'):
                        f2 = scr.write('kg_conv', open(f, 'rb').read())
                        rc, out, err = D.keygen(['-p', '-m', m, '-P', '',
                                                 '-N', 'conv-pw', '-f', f2])
                        if rc != 0:
                            continue
                        ctx.count(('interop-keygen-conv', t, tuple(extra), m))
                        data = open(f2, 'rb').read()
                        if b'OPENSSH PRIVATE' in data:
                            continue    # ed25519 stays in OpenSSH format
                        stats['keygen_written'] += 1
                        try:
                            k2 = D.imp_priv(data, 'conv-pw')
                            ok = k2.public_data == pub.public_data
                        except Exception as exc:  # pylint: disable=broad-except
                            ok = False
                        if not ok:
                            ctx.violation(
                                kf_sig('interop', step='import', conv=m,
                                       **case),
                                f'asyncssh does not read the {m} encrypted '
                                f'key ssh-keygen wrote: {case}',
                                {'kind': 'interop', 'case': case,
                                 'data': data.decode('latin-1')})
                        try:
                            D.imp_priv(data, 'not-the-pw')
                            ctx.violation(
                                kf_sig('interop', step='passphrase', conv=m,
                                       **case),
                                f'{m} key of ssh-keygen imported with a '
                                f'wrong passphrase', {'kind': 'interop', 'case': case})
                        except ValueError:
                            pass
                else:
                    # encrypted OpenSSH format: needs bcrypt
                    data = open(f, 'rb').read()
                    try:
                        k = D.imp_priv(data, pw)
                        got = 'ok' if k.public_data == pub.public_data \
                            else 'different key'
                    except Exception as exc:    # pylint: disable=broad-except
                        got = type(exc).__name__
                    want = 'ok' if D.BCRYPT else 'KeyEncryptionError'
                    if got == 'different key':
                        ctx.violation(kf_sig('interop', step='equal', **case),
                                      f'encrypted OpenSSH key of ssh-keygen '
                                      f'imported as a different key',
                                      {'kind': 'interop', 'case': case})
                    elif got != want:
                        ctx.divergence(f'encrypted OpenSSH key of ssh-keygen: '
                                       f'import gives {got}, expected {want}')
                    # the public half is readable without the passphrase
                    try:
                        p2 = asyncssh.import_public_key(data)
                        if p2.public_data != pub.public_data:
                            ctx.violation(
                                kf_sig('interop', step='pub-from-enc',
                                       **case),
                                f'public half read from an encrypted OpenSSH '
                                f'key differs', {'kind': 'interop', 'case': case})
                    except Exception as exc:    # pylint: disable=broad-except
                        ctx.divergence(f'public half of encrypted OpenSSH key '
                                       f'not readable: {exc}')

    passphrase_sweep(ctx, D, scr, kts, quick, kf_sig, stats)
    certificates(ctx, D, scr, kts, quick, kf_sig, stats)
    ctx.notes.append(f'independent readers/writers: {stats}')


def passvalues(ctx, D, rows, kts, quick, kf_sig, only):
    """The passphrase VALUE as a dimension: None <=> unencrypted file; any
    other value (also the empty one) <=> a file encrypted under exactly that
    value.  Observables: the exception of export, a structural look at the
    file, PyCA loading it without / with the passphrase, asyncssh importing it
    with the same / no / another / the other spelling of the passphrase."""
    import asyncssh
    stats = {'exports': 0, 'pyca_clear_reads': 0, 'pyca_enc_reads': 0,
             'pyca_unsupported': 0}
    cache = {}
    for idx, (row, pexp, tail) in enumerate(rows):
        if not only.row('passval', row):
            continue
        penc, pimp = tail
        enc = row['enc']
        fmt = enc['fmt']
        kt = 'ec256' if fmt.startswith('pkcs1') or idx % 2 else 'ed25519'
        if kt not in kts:
            kt = 'ec256'
        k = D.key(kt)
        pv = D.PASS_VALUES[row['pv']]
        case = dict(fmt=fmt, cipher=enc['cipher'], hash=enc['hash'],
                    pbe=enc['pbe'], passphrase=row['pv'], kt=kt)
        rp = {'kind': 'passval', 'row': row}
        ck = (fmt, enc['cipher'], enc['hash'], enc['pbe'], row['pv'], kt)
        ctx.count(('passval', ck, row['ipv']),
                  nontrivial=row['pv'] != 'none')
        if ck not in cache:
            try:
                data = k.export_private_key(fmt, pv, enc['cipher'],
                                            enc['hash'], enc['pbe'])
                cache[ck] = ('ok', data)
            except Exception as exc:    # pylint: disable=broad-except
                cache[ck] = (type(exc).__name__, None)
            stats['exports'] += 1
            got, data = cache[ck]
            # --- export outcome
            if pexp == 'ok' and got != 'ok':
                ctx.violation(kf_sig('passval', step='export', **case),
                              f'export with passphrase {row["pv"]} fails '
                              f'({got}): {case}', rp)
            elif pexp != 'ok' and got == 'ok':
                ctx.violation(
                    kf_sig('passval', step='export-not-refused', **case),
                    f'a format that cannot encrypt here wrote a key although '
                    f'a passphrase ({row["pv"]}) was given (expected {pexp}; '
                    f'file encrypted: {D.looks_encrypted(data, fmt)}): '
                    f'{case}', rp)
            elif pexp != 'ok' and got != pexp:
                ctx.divergence(f'passval: export raises {got}, model says '
                               f'{pexp}: {case}')
            if got == 'ok':
                # --- is the file encrypted exactly when a passphrase was given
                is_enc = D.looks_encrypted(data, fmt)
                if is_enc != (row['pv'] != 'none'):
                    ctx.violation(
                        kf_sig('passval', step='encrypted', **case),
                        f'passphrase {row["pv"]!r}: the exported file is '
                        f'{"" if is_enc else "NOT "}encrypted: {case}',
                        dict(rp, data=data[:200].decode('latin-1')))
                # --- independent reader without a password
                try:
                    loaded = D.pyca_load_private(data, fmt, None)
                    clear = D.pyca_private_der(loaded) == \
                        D.pyca_private_der(k.pyca_key)
                    stats['pyca_clear_reads'] += 1
                except BaseException:   # pylint: disable=broad-except
                    clear = False
                if clear and row['pv'] != 'none':
                    ctx.violation(
                        kf_sig('passval', step='reader-no-password', **case),
                        f'PyCA loads the key WITHOUT a password although it '
                        f'was exported with passphrase {row["pv"]}: {case}',
                        rp)
                if not clear and row['pv'] == 'none' and \
                        not (kt == 'ed448'):
                    ctx.violation(
                        kf_sig('passval', step='reader-clear', **case),
                        f'PyCA cannot load the key exported without a '
                        f'passphrase: {case}', rp)
                # --- independent reader with exactly that passphrase
                if row['pv'] != 'none' and \
                        D.pyca_must_read(fmt, (enc['cipher'], enc['hash'],
                                               enc['pbe'])) and \
                        not (isinstance(pv, bytes) and enc['pbe'] == 1 and
                             enc['cipher'] != 'des-cbc') and len(pv) > 0:
                    pwb = pv.encode('utf-8') if isinstance(pv, str) else pv
                    try:
                        loaded = D.pyca_load_private(data, fmt, pwb)
                        ok = D.pyca_private_der(loaded) == \
                            D.pyca_private_der(k.pyca_key)
                        stats['pyca_enc_reads'] += 1
                        if not ok:
                            ctx.violation(
                                kf_sig('passval', step='reader-key', **case),
                                f'PyCA reads a different key: {case}', rp)
                    except BaseException as exc:  # pylint: disable=broad-except
                        if row['pv'] in ('one', 'str', 'bytes_same',
                                         'nonascii'):
                            ctx.violation(
                                kf_sig('passval', step='reader-passphrase',
                                       **case),
                                f'PyCA cannot decrypt the key with the '
                                f'passphrase it was exported with '
                                f'({type(exc).__name__}): {case}', rp)
                        else:
                            stats['pyca_unsupported'] += 1
        got, data = cache[ck]
        if got != 'ok' or pexp != 'ok':
            continue
        # --- import with the same / no / another / the other spelling
        if row['ipv'] == 'same':
            ip = pv
        elif row['ipv'] == 'none':
            ip = None
        elif row['ipv'] == 'other':
            ip = D.other_passphrase(pv)
        else:
            if pv is None or row['pv'] == 'highbytes':
                continue
            ip = D.other_spelling(pv)
        try:
            k2 = D.imp_priv(data, ip)
            obs = 'ok' if D.same_private(k2, k) else 'different key'
            exc = None
        except Exception as e:          # pylint: disable=broad-except
            obs, exc = 'KeyImportError', e
        icase = dict(case, import_passphrase=row['ipv'])
        if obs == 'different key':
            ctx.violation(kf_sig('passval', step='different-key', **icase),
                          f'imported as a different key: {icase}', rp)
        elif exc is not None and not isinstance(exc, ValueError):
            ctx.violation(kf_sig('passval', step='exception', **icase),
                          f'import raises {type(exc).__name__}: {exc}: '
                          f'{icase}', rp)
        elif pimp == 'ok' and obs != 'ok':
            ctx.violation(kf_sig('passval', step='import', **icase),
                          f'key exported with passphrase {row["pv"]} is not '
                          f'imported with the {row["ipv"]} passphrase '
                          f'({exc}): {icase}', rp)
        elif pimp != 'ok' and obs == 'ok':
            if row['ipv'] in ('none', 'other'):
                ctx.violation(
                    kf_sig('passval', step='passphrase', **icase),
                    f'key exported with passphrase {row["pv"]} is imported '
                    f'with {"no" if row["ipv"] == "none" else "another"} '
                    f'passphrase: {icase}', rp)
            else:
                ctx.divergence(f'passval: other spelling accepted, model '
                               f'says refused: {icase}')
    ctx.notes.append(f'passphrase values: {stats}')
    ctx.sample({'part': 'passval', 'rows': len(rows),
                'values': {k: (repr(v)[:30]) for k, v in
                           D.PASS_VALUES.items()}}, limit=14)


def encodings(ctx, D, scr, rows, kts, quick, kf_sig, only):
    """Files written by the harness's own encoder (hashlib / PyCA primitives,
    nothing from asyncssh) for every encoding choice of the table.
    Monitor: a legal encoding imports to the same key (and comment), a wrong
    passphrase is refused, an illegal or merely tolerated encoding is either
    refused with a ValueError-family exception or imported as the SAME key,
    never as another key and never with another exception type.  openssl /
    ssh-keygen confirm on a sample (and whenever asyncssh refuses a legal
    file) that the generated file is legal."""
    import asyncssh
    stats = {'rows': 0, 'legal_imported': 0, 'reference_reader_asked': 0,
             'refused': {}, 'lenient_accepts': {}, 'plain_ValueError': {}}
    sample_every = 12 if quick else 1

    def bump(d, key):
        d[key] = d.get(key, 0) + 1

    def reference_accepts(e, data, k, scheme):
        stats['reference_reader_asked'] += 1
        if scheme == 'openssh':
            if not D.SSH_KEYGEN:
                return None
            f = scr.write('enc.key', data)
            rc, out, _ = D.keygen(['-y', '-P', '', '-f', f])
            return rc == 0 and D.blob_of_line(out)[0] == k.public_data
        if not D.OPENSSL:
            return None
        der = D.openssl_public_der(
            scr, data, 'pkcs8-pem' if data[:5] == b'-----' else 'pkcs8-der',
            e['pw'])
        if der is None:
            return False
        try:        # openssl keeps the point form of the input: normalise
            from cryptography.hazmat.primitives import serialization as ser
            der = D.pyca_public_der(ser.load_der_public_key(der))
        except Exception:               # pylint: disable=broad-except
            pass
        return der == D.pyca_public_der(k.pyca_key.public_key())

    for idx, (row, cls, outcome) in enumerate(rows):
        if not only.row('encoding', row):
            continue
        scheme = row['scheme']
        if scheme in ('openssh', 'ecpriv', 'ecpub', 'p8env'):
            kt = row['kt']
        elif scheme == 'dek':
            kt = 'ec256'
        else:
            kt = ('ec256', 'ed25519', 'ec384')[idx % 3]
        if kt not in kts:
            continue
        if row.get('iter') == 'large' and quick and idx % 2:
            continue
        k = D.key(kt)
        e = D.encode_case(row, k)
        if scheme == 'ecpub':
            # public keys / certificates with a (possibly compressed) point
            stats['rows'] += 1
            case = dict(row)
            data = e.get('public') or e['cert']
            rp = {'kind': 'encoding', 'row': row,
                  'data': data.decode('latin-1')}
            ctx.count(('encoding', idx), nontrivial=True)
            try:
                if 'cert' in e:
                    got = asyncssh.import_certificate(data).key.public_data
                else:
                    got = asyncssh.import_public_key(data).public_data
                exc = None
            except Exception as ex:     # pylint: disable=broad-except
                got, exc = None, ex
            want = k.convert_to_public().public_data
            if exc is not None and not isinstance(exc, ValueError):
                ctx.violation(kf_sig('encoding', step='exception', **case),
                              f'import raises {type(exc).__name__}: {exc}: '
                              f'{case}', rp)
            elif exc is not None:
                if cls == 'legal':
                    ctx.violation(kf_sig('encoding', step='legal-refused',
                                         **case),
                                  f'EC public key refused: {exc}: {case}', rp)
                else:
                    bump(stats['refused'], f'{scheme}/{cls}')
            elif got != want:
                ctx.violation(
                    {'module': 'KeyFormats', 'part': 'encoding',
                     'class': 'ec-compressed-point-kept', 'scheme': scheme,
                     'row': row},
                    f'EC public key with a {row["point"]} point imports with '
                    f'public_data of {len(got)} bytes instead of the '
                    f'{len(want)}-byte uncompressed blob every peer / '
                    f'ssh-keygen uses: {case}', rp)
            elif cls != 'legal':
                bump(stats['lenient_accepts'], f'{scheme}/{cls}: normalised')
            else:
                stats['legal_imported'] += 1
            continue
        if 'pem' in e:
            data = e['pem']
        elif idx % 2:
            data = e['der']
        else:
            data = D.pem_wrap(e['typ'], e['der'])
        stats['rows'] += 1
        case = dict(row)
        rp = {'kind': 'encoding', 'row': row, 'data_hex': data.hex()}
        ctx.count(('encoding', idx), nontrivial=True)
        try:
            k2 = D.imp_priv(data, e['pw'])
            exc = None
        except Exception as ex:         # pylint: disable=broad-except
            k2, exc = None, ex
        same = k2 is not None and D.same_private(k2, k)
        if exc is not None and not isinstance(exc, ValueError):
            ctx.violation(kf_sig('encoding', step='exception', **case),
                          f'import raises {type(exc).__name__}: {exc} '
                          f'(neither a key nor a KeyImportError) for a '
                          f'{cls} encoding: {case}', rp)
            continue
        if k2 is not None and not same and k2 == k and \
                k2.public_data != k.public_data:
            ctx.violation(
                {'module': 'KeyFormats', 'part': 'encoding',
                 'class': 'ec-compressed-point-kept'
                 if row.get('pub') == 'compressed'
                 else 'public-half-not-derived', 'scheme': scheme,
                 'row': row},
                f'{cls} encoding imports the right private key but its public '
                f'half is wrong (public_data is {len(k2.public_data)} bytes, '
                f'expected {len(k.public_data)}): export_public_key / '
                f'certificates / authentication would use a wrong public '
                f'key: {case}', rp)
            continue
        if k2 is not None and not same:
            ctx.violation(kf_sig('encoding', step='different-key', **case),
                          f'{cls} encoding imported as a DIFFERENT key: '
                          f'{case}', rp)
            continue
        if exc is not None and not isinstance(
                exc, (asyncssh.KeyImportError, asyncssh.KeyEncryptionError)):
            bump(stats['plain_ValueError'], f'{scheme}: {exc}'[:60])
        observed = 'ok' if same else 'KeyImportError'
        if observed != outcome:
            ctx.divergence(f'encoding: model says {outcome}, code gives '
                           f'{observed} ({exc}): {case}')
        if cls == 'legal':
            ask = not same or idx % sample_every == 0
            if ask:
                ref = reference_accepts(e, data, k, scheme)
                if ref is False and scheme == 'p8env':
                    bump(stats['refused'], 'p8env: reference reader refuses')
                    continue
                if ref is False and not same:
                    raise MachineryError(
                        f'harness encoder wrote a file that neither asyncssh '
                        f'nor the reference reader accepts: {case}')
                if ref is False:
                    raise MachineryError(
                        f'harness encoder: reference reader refuses a file '
                        f'classified legal: {case}')
            if not same:
                ctx.violation(
                    kf_sig('encoding', step='legal-refused', **case),
                    f'a legal encoding (the reference reader imports it) is '
                    f'refused by asyncssh with the right passphrase: '
                    f'{type(exc).__name__}: {exc}: {case}', rp)
                continue
            stats['legal_imported'] += 1
            if scheme == 'openssh' and comment_of(k2) != e['comment']:
                ctx.violation(kf_sig('encoding', step='comment', **case),
                              f'comment {comment_of(k2)!r} instead of '
                              f'{e["comment"]!r}: {case}', rp)
            if e['pw'] is not None:
                try:
                    D.imp_priv(data, e['pw'][:-1] + 'X')
                    ctx.violation(kf_sig('encoding', step='passphrase',
                                         **case),
                                  f'imported with a wrong passphrase: {case}',
                                  rp)
                except ValueError:
                    pass
                except Exception as ex:     # pylint: disable=broad-except
                    ctx.violation(kf_sig('encoding', step='exception',
                                         wrong_passphrase=True, **case),
                                  f'wrong passphrase raises '
                                  f'{type(ex).__name__}: {ex}: {case}', rp)
        elif same:
            bump(stats['lenient_accepts'],
                 f'{scheme}/{cls}: ' + ', '.join(
                     f'{a}={row[a]}' for a in ('keylen', 'ber', 'null', 'salt',
                                               'ivlen', 'namecase', 'pad')
                     if a in row and row[a] not in ('right', 'absent', 'der',
                                                    True, 8, 'ok', 'upper',
                                                    'seq')))
        else:
            bump(stats['refused'], f'{scheme}/{cls}')
    ctx.notes.append(f'encoding choices: {stats}')
    ctx.sample({'part': 'encoding', 'rows': stats['rows'],
                'example': [r for r in rows if r[0]['scheme'] == 'pbes2' and
                            r[0]['keylen'] == 'right' and
                            r[0]['prf'] == 'sha256'][0]}, limit=12)


def keylists(ctx, D, scr, rows, kts, quick, kf_sig, only):
    """Ordered key lists through load_keypairs / the client_keys= option /
    load_public_keys / load_certificates.  Monitor: what comes out for entry
    i is what entry i gives when loaded alone: same public key, same
    certificate, sign() verifies under its own public key, the passphrase
    callable is asked for its own file only, get_agent_private_key() is the
    one of its own key; a wrong or missing passphrase is refused."""
    import asyncssh
    W = D.KeyListWorld(scr, kts)
    data = b'key list signing test ' * 5
    n_pairs = 0

    def judge(pairs, out, case, rp, via):
        nonlocal n_pairs
        if len(pairs) != len(out):
            ctx.violation(kf_sig('keylist', step='count', via=via, **case),
                          f'{via}: {len(pairs)} key pairs for a list that '
                          f'yields {len(out)} entry by entry: {case}', rp)
            return
        for n, (pair, rec) in enumerate(zip(pairs, out)):
            i = rec['e']
            kind = case['entries'][i - 1]
            sig = kf_sig('keylist', via=via, result=n + 1, entry=i,
                         kind=kind, **case)
            n_pairs += 1
            ref = W.reference_pair(i, rec['cert'])
            if pair.key_public_data != W.keys[i].public_data or \
                    pair.public_data != ref.public_data or \
                    bool(pair.has_cert) != rec['cert']:
                ctx.violation(dict(sig, step='identity'),
                              f'{via}: result {n + 1} is not the key / '
                              f'certificate of list entry {i} ({kind}): '
                              f'{case}', rp)
                continue
            before = len(W.asked)
            try:
                sg = pair.sign(data)
                exc = None
            except Exception as e:      # pylint: disable=broad-except
                sg, exc = None, e
            asked = W.asked[before:]
            if case['mode'] == 'callable_wrong' and rec['pend']:
                if exc is None:
                    ctx.violation(dict(sig, step='passphrase'),
                                  f'{via}: entry {i} ({kind}) signs although '
                                  f'the passphrase callable answers wrongly: '
                                  f'{case}', rp)
                continue
            if exc is not None:
                ctx.violation(dict(sig, step='sign'),
                              f'{via}: sign() of entry {i} ({kind}) fails: '
                              f'{type(exc).__name__}: {exc}: {case}', rp)
                continue
            if not W.keys[i].convert_to_public().verify(data, sg):
                ctx.violation(dict(sig, step='verify'),
                              f'{via}: the signature made by result {n + 1} '
                              f'(list entry {i}, {kind}) does not verify under '
                              f'its own public key: {case}', rp)
                continue
            own = [W.path(i, kind)] if rec['pend'] else []
            if [str(a) for a in asked] != own:
                ctx.violation(dict(sig, step='asked'),
                              f'{via}: signing with entry {i} ({kind}) asked '
                              f'for the passphrase of {asked}, expected '
                              f'{own}: {case}', rp)
                continue
            try:
                same = pair.get_agent_private_key() == \
                    ref.get_agent_private_key()
            except Exception as e:      # pylint: disable=broad-except
                same = False
            if not same:
                ctx.violation(dict(sig, step='agent-key'),
                              f'{via}: get_agent_private_key() of entry {i} '
                              f'({kind}) is not that of its own key: {case}',
                              rp)

    for idx, (row, perr, pout) in enumerate(rows):
        if not only.row('keylist', row):
            continue
        kinds = list(row['entries'])
        case = dict(api=row['api'], entries=kinds, mode=row['mode'])
        rp = {'kind': 'keylist', 'row': row}
        ctx.count(('keylist', row['api'], tuple(kinds), row['mode']),
                  nontrivial=len(kinds) > 1)
        if row['api'] != 'keypairs':
            entries = [W.entry(i + 1, k) for i, k in enumerate(kinds)]
            try:
                if row['api'] == 'public':
                    got = [k.public_data for k in
                           asyncssh.load_public_keys(entries)]
                    want = [W.keys[r['e']].public_data for r in pout]
                else:
                    got = [c.public_data for c in
                           asyncssh.load_certificates(entries)]
                    want = [W.certs[r['e']].public_data for r in pout]
            except Exception as exc:    # pylint: disable=broad-except
                got, want = repr(exc), None
            if got != want:
                ctx.violation(kf_sig('keylist', step='list', **case),
                              f'load_{row["api"]}: result does not match the '
                              f'entries one by one: {case} ({got if want is None else "other keys"})',
                              rp)
            continue
        vias = ['load_keypairs']
        if perr == 0 and idx % 4 == 0:
            vias.append('client_keys=')
        for via in vias:
            entries = [W.entry(i + 1, k) for i, k in enumerate(kinds)]
            pw = W.passphrase(row['mode'])
            try:
                if via == 'load_keypairs':
                    pairs = asyncssh.load_keypairs(
                        entries, pw, unsafe_skip_rsa_key_validation=True)
                else:
                    pairs = asyncssh.SSHClientConnectionOptions(
                        client_keys=entries, passphrase=pw).client_keys
                exc = None
            except Exception as e:      # pylint: disable=broad-except
                pairs, exc = None, e
            if perr:
                if exc is None:
                    ctx.violation(
                        kf_sig('keylist', step='passphrase', via=via, **case),
                        f'{via}: list with an encrypted key at entry {perr} '
                        f'loads although the passphrase is '
                        f'{row["mode"]}: {case}', rp)
                elif isinstance(exc, TypeError) and \
                        row['mode'].startswith('callable') and \
                        any(k in ('enc', 'encbytes') for k in kinds):
                    pass        # same defect as class callable-passphrase-...
                elif not isinstance(exc, ValueError):
                    ctx.divergence(f'keylist: expected KeyImportError at '
                                   f'entry {perr}, got {type(exc).__name__}: '
                                   f'{exc}: {case}')
                continue
            if exc is not None:
                cls = 'load-fails'
                if isinstance(exc, TypeError) and \
                        row['mode'].startswith('callable') and \
                        any(k in ('enc', 'encbytes') for k in kinds):
                    # passphrase callable + encrypted key without .pub /
                    # -cert.pub sibling (decrypted at load time)
                    cls = 'callable-passphrase-immediate-decrypt'
                ctx.violation(
                    {'module': 'KeyFormats', 'part': 'keylist', 'class': cls,
                     'via': via, 'entries': kinds, 'mode': row['mode']},
                    f'{via}: a loadable key list fails with '
                    f'{type(exc).__name__}: {exc}: {case}', rp)
                continue
            judge(pairs, pout, case, rp, via)
    ctx.traces_validated(n_pairs)
    ex = [r for r in rows if len(r[0]['entries']) > 1 and
          r[0]['mode'] == 'callable' and r[1] == 0][:1]
    if ex:
        ctx.sample({'part': 'keylist', 'rows': len(rows),
                    'key_pairs_checked': n_pairs, 'example_row': ex[0][0],
                    'predicted_pairs': ex[0][2]}, limit=10)


def layouts(ctx, D, scr, rows, kts, quick, kf_sig, only):
    """Text files as other implementations write them (RFC 4716 with folded
    headers, PEM and one-line OpenSSH variants).  Monitor: a file an
    independent reader accepts (and reads as the intended key) is read by
    asyncssh as the same key with the same comment.  The readers are asked
    lazily (when asyncssh's answer is not the intended one) and on a sample
    of all rows (to show that the generator writes legal files)."""
    import asyncssh
    from cryptography.hazmat.primitives import serialization as ser
    pubkts = [k for k in ('ed25519', 'rsa', 'ec256', 'ec384') if k in kts]
    stats = {'rows': 0, 'asked': 0, 'reader_accepts': 0, 'reader_refuses': 0}
    sample_every = 16 if quick else 2
    cert = D.key(pubkts[0], 1).generate_user_certificate(
        D.key(pubkts[0], 2), 'layout-cert', principals=['p'])

    def keygen_rfc(data, blob):
        f = scr.write('l.pub', data, 0o644)
        rc, out, _ = D.keygen(['-i', '-m', 'RFC4716', '-f', f])
        return rc == 0 and D.blob_of_line(out)[0] == blob

    def pem_readers(data, kind, kt):
        """-> names of the independent readers that read `data` as key kt"""
        pk = D.key(kt).pyca_key
        ref = D.pyca_public_der(pk.public_key())
        ok = []
        try:
            if kind.startswith('pub'):
                got = D.pyca_public_der(ser.load_pem_public_key(data))
            elif kind == 'priv-openssh':
                got = D.pyca_public_der(
                    ser.load_ssh_private_key(data, None).public_key())
            else:
                got = D.pyca_public_der(
                    ser.load_pem_private_key(data, None).public_key())
            if got == ref:
                ok.append('pyca')
        except Exception:               # pylint: disable=broad-except
            pass
        if D.OPENSSL and kind != 'priv-openssh':
            f = scr.write('l.pem', data)
            args = ['pkey', '-in', f, '-pubout', '-outform', 'DER']
            if kind.startswith('pub'):
                args.insert(1, '-pubin')
            rc, out, _ = D.openssl(args)
            if rc == 0 and out == ref:
                ok.append('openssl')
        if D.SSH_KEYGEN and kind.startswith('priv'):
            f = scr.write('l.key', data)
            rc, out, _ = D.keygen(['-y', '-P', '', '-f', f])
            if rc == 0 and D.blob_of_line(out)[0] == \
                    D.key(kt).public_data:
                ok.append('ssh-keygen')
        return ok

    for idx, (row, _, _) in enumerate(rows):
        if not only.row('layout', row):
            continue
        stats['rows'] += 1
        case = dict(row)
        rp = {'kind': 'layout', 'row': row}
        fmt = row['fmt']
        sampled = idx % sample_every == 0
        if fmt == 'rfc4716':
            kt = pubkts[idx % len(pubkts)]
            k = D.key(kt).convert_to_public()
            use_cert = idx % 5 == 4
            blob = cert.public_data if use_cert else k.public_data
            data, want_c = D.rfc4716_layout(blob, row)
            if data is None:
                continue
            ctx.count(('layout', idx), nontrivial=row['nl'] > 1 or
                      len(row['hdrs']) > 1)
            try:
                obj = asyncssh.import_certificate(data) if use_cert else \
                    asyncssh.import_public_key(data)
                got_c = obj.get_comment_bytes() if obj.has_comment() else None
                good = obj.public_data == blob
                how = 'a different key' if not good else \
                    f'comment {got_c!r} instead of {want_c!r}'
                good = good and got_c == want_c
            except Exception as exc:    # pylint: disable=broad-except
                good = False
                how = f'{type(exc).__name__}: {exc}'
            if good and not sampled:
                continue
            # is the layout legal?  (same layout around a plain key)
            kdata, _ = D.rfc4716_layout(k.public_data, row)
            stats['asked'] += 1
            legal = keygen_rfc(kdata, k.public_data)
            stats['reader_accepts' if legal else 'reader_refuses'] += 1
            if not good and legal:
                ctx.violation(
                    kf_sig('layout', reader='ssh-keygen', **case),
                    f'RFC 4716 file that ssh-keygen -i reads is read by '
                    f'asyncssh as {how} '
                    f'({"certificate" if use_cert else kt}): {case}',
                    dict(rp, data=data.decode('latin-1')))
        elif fmt == 'pem':
            kind = row['kind']
            kt = {'pub-pkcs1': ['rsa'], 'priv-pkcs1': ['ec256', 'rsa'],
                  'priv-openssh': ['ed25519', 'rsa', 'ec256']} \
                .get(kind, ['ed25519', 'rsa', 'ec256'])
            kt = [x for x in kt if x in kts]
            kt = kt[idx % len(kt)]
            pk = D.key(kt).pyca_key
            if kind == 'pub-pkcs8':
                der, typ = D.pyca_write_public(pk, 'pkcs8-der'), b'PUBLIC KEY'
            elif kind == 'pub-pkcs1':
                der, typ = D.pyca_write_public(pk, 'pkcs1-der'), \
                    b'RSA PUBLIC KEY'
            elif kind == 'priv-pkcs8':
                der, typ = D.pyca_write_private(pk, 'pkcs8-der', None), \
                    b'PRIVATE KEY'
            elif kind == 'priv-pkcs1':
                der = D.pyca_write_private(pk, 'pkcs1-der', None)
                typ = b'RSA PRIVATE KEY' if kt == 'rsa' else b'EC PRIVATE KEY'
            else:
                pem = D.pyca_write_private(pk, 'openssh', None)
                der = __import__('binascii').a2b_base64(
                    b''.join(pem.splitlines()[1:-1]))
                typ = b'OPENSSH PRIVATE KEY'
            data = D.pem_layout(der, typ, row)
            ctx.count(('layout', idx))
            try:
                if kind.startswith('pub'):
                    obj = asyncssh.import_public_key(data)
                    good = obj.public_data == D.key(kt).public_data
                else:
                    obj = D.imp_priv(data, None)
                    good = D.same_private(obj, D.key(kt))
                how = 'a different key'
            except Exception as exc:    # pylint: disable=broad-except
                good = False
                how = f'{type(exc).__name__}: {exc}'
            if good and not sampled:
                continue
            stats['asked'] += 1
            readers = pem_readers(data, kind, kt)
            stats['reader_accepts' if readers else 'reader_refuses'] += 1
            if not good and readers:
                ctx.violation(
                    kf_sig('layout', reader=readers[0], **case),
                    f'PEM file ({kt}) that {readers} read is read by asyncssh '
                    f'as {how}: {case}',
                    dict(rp, data=data.decode('latin-1')))
        else:
            kt = pubkts[idx % len(pubkts)]
            k = D.key(kt).convert_to_public()
            data, want_c = D.openssh_pub_layout(k.algorithm, k.public_data,
                                                row)
            ctx.count(('layout', idx))
            try:
                if row['opts']:
                    ak = asyncssh.import_authorized_keys(data.decode('latin-1'))
                    good = ak.validate(k, 'client.example',
                                       '10.1.2.3') is not None
                    how = 'a different key'
                else:
                    obj = asyncssh.import_public_key(data)
                    got_c = obj.get_comment_bytes() if obj.has_comment() \
                        else None
                    good = obj.public_data == k.public_data
                    how = 'a different key' if not good else \
                        f'comment {got_c!r} instead of {want_c!r}'
                    good = good and got_c == want_c
            except Exception as exc:    # pylint: disable=broad-except
                good = False
                how = f'{type(exc).__name__}: {exc}'
            if good and not sampled:
                continue
            stats['asked'] += 1
            legal = False
            if D.SSH_KEYGEN:
                f = scr.write('l1.pub', data, 0o644)
                rc, out, _ = D.keygen(['-l', '-f', f])
                legal = rc == 0 and k.get_fingerprint().encode() in out
            stats['reader_accepts' if legal else 'reader_refuses'] += 1
            if not good and legal:
                ctx.violation(
                    kf_sig('layout', reader='ssh-keygen', **case),
                    f'OpenSSH public key line that ssh-keygen -l reads is '
                    f'read by asyncssh as {how} ({kt}): {case}',
                    dict(rp, data=data.decode('latin-1')))
    ctx.notes.append(f'foreign layouts: {stats}')
    ctx.sample({'part': 'layout', 'rows': stats['rows'],
                'readers_asked': stats['asked'],
                'example': rows[len(rows) // 2][0]}, limit=9)


def passphrase_sweep(ctx, D, scr, kts, quick, kf_sig, stats):
    """Every key-derivation family x passphrase lengths around hash / cipher
    block boundaries (and non-ASCII passphrases): asyncssh's own round trip,
    PyCA / openssl / ssh-keygen reading what asyncssh wrote, asyncssh reading
    what openssl wrote.  A reader that handles a family for some passphrase
    must handle it for every passphrase."""
    import asyncssh
    kt_a = 'ec256' if 'ec256' in kts else kts[0]
    kt_b = 'ed25519' if 'ed25519' in kts else kts[0]
    sub_lengths = set(D.PW_LENGTHS_QUICK_SUBPROC if quick else D.PW_LENGTHS)
    for fi, (fam, fmt, enc) in enumerate(D.KDF_FAMILIES):
        kt = kt_a if fmt.startswith('pkcs1') or fi % 2 == 0 else kt_b
        k = D.key(kt)
        ref_priv = D.pyca_private_der(k.pyca_key)
        ref_pub = D.pyca_public_der(k.pyca_key.public_key())
        pws = [(n, D.passphrase_of(n, fi)) for n in D.PW_LENGTHS] + \
            [('na%d' % i, p) for i, p in enumerate(D.PW_NONASCII)]
        seen = {'pyca': {}, 'openssl': {}, 'ssh-keygen': {}}
        for n, pw in pws:
            case = dict(family=fam, fmt=fmt, enc=list(enc), kt=kt,
                        passphrase_len=n)
            rp = {'kind': 'interop', 'case': case, 'passphrase': pw}
            stats['sweep_cases'] += 1
            ctx.count(('pw-sweep', fam, n))
            try:
                data = k.export_private_key(fmt, pw, *enc)
                k2 = D.imp_priv(data, pw)
                ok = D.same_private(k2, k)
            except Exception as exc:        # pylint: disable=broad-except
                ok = False
                case['exc'] = repr(exc)
            if not ok:
                ctx.violation(kf_sig('pw-sweep', step='roundtrip', **case),
                              f'export/import round trip fails: {case}', rp)
                continue
            try:
                D.imp_priv(data, pw[:-1] + ('X' if pw[-1] != 'X' else 'Y'))
                ctx.violation(kf_sig('pw-sweep', step='passphrase', **case),
                              f'key imported with a passphrase differing in '
                              f'its last character: {case}', rp)
            except ValueError:
                pass
            # PyCA (in process: every length)
            try:
                loaded = D.pyca_load_private(data, fmt, pw.encode('utf-8'))
                seen['pyca'][n] = 'ok' if D.pyca_private_der(loaded) == \
                    ref_priv else 'different key'
            except Exception as exc:        # pylint: disable=broad-except
                seen['pyca'][n] = f'fails ({type(exc).__name__})'
            sub = n in sub_lengths or (isinstance(n, str) and not quick) \
                or n == 'na0'
            if D.OPENSSL and fmt != 'openssh' and sub:
                der = D.openssl_public_der(scr, data, fmt, pw)
                seen['openssl'][n] = 'fails' if der is None else \
                    ('ok' if der == ref_pub else 'different key')
                # asyncssh reads what openssl wrote
                own = D.openssl_write_private(scr, k, fmt, enc, pw)
                if own is not None:
                    stats['openssl_written'] += 1
                    try:
                        k3 = D.imp_priv(own, pw)
                        ok = D.same_private(k3, k)
                        why = 'different key'
                    except Exception as exc:    # pylint: disable=broad-except
                        ok = False
                        why = f'{type(exc).__name__}: {exc}'
                    if not ok:
                        ctx.violation(
                            kf_sig('pw-sweep', writer='openssl', **case),
                            f'asyncssh cannot import the key openssl wrote '
                            f'({why}): {case}',
                            dict(rp, data_hex=own.hex()))
            if D.SSH_KEYGEN and fmt.endswith('-pem') and sub and \
                    D.keygen_must_read(fmt, enc):
                f = scr.write('sweep_key', data)
                rc, out, err = D.keygen(['-y', '-P', pw, '-f', f])
                if rc == 0:
                    seen['ssh-keygen'][n] = 'ok' if \
                        D.blob_of_line(out)[0] == k.public_data \
                        else 'different key'
                else:
                    seen['ssh-keygen'][n] = 'fails'
        for reader, res in seen.items():
            if not res:
                continue
            good = [n for n, r in res.items() if r == 'ok']
            bad = {n: r for n, r in res.items() if r != 'ok'}
            stats[{'pyca': 'pyca_read', 'openssl': 'openssl_read',
                   'ssh-keygen': 'keygen_read'}[reader]] += len(good)
            if not good:
                # the reader does not support this family at all
                stats[{'pyca': 'pyca_unsupported',
                       'openssl': 'openssl_unsupported',
                       'ssh-keygen': 'keygen_unsupported'}[reader]] += 1
                continue
            for n, r in bad.items():
                case = dict(family=fam, fmt=fmt, enc=list(enc), kt=kt,
                            passphrase_len=n, reader=reader)
                ctx.violation(
                    kf_sig('pw-sweep', step='read', **case),
                    f'{reader} reads {fam} keys written by asyncssh for '
                    f'passphrase lengths {good[:6]}... but {r} for length '
                    f'{n}: {case}', {'kind': 'interop', 'case': case})
    ctx.sample({'part': 'passphrase sweep',
                'families': [f for f, _, _ in D.KDF_FAMILIES],
                'lengths': D.PW_LENGTHS, 'non_ascii': len(D.PW_NONASCII)})


def certificates(ctx, D, scr, kts, quick, kf_sig, stats):
    """Certificates written by asyncssh read by ssh-keygen -L and PyCA, and
    certificates written by ssh-keygen -s read by asyncssh."""
    import asyncssh
    from cryptography.hazmat.primitives import serialization as ser
    A, B = 1893456000, 1893459600
    made = []
    for ci, kt in enumerate(kts):
        ca = D.key(kt, 1)
        subj = D.key(kts[(ci + 1) % len(kts)], 2)
        for ctype in ('user', 'host'):
            if ctype == 'user':
                cert = ca.generate_user_certificate(
                    subj, 'kid-%d' % ci, serial=1000 + ci,
                    principals=['alice', 'bob'], valid_after=A,
                    valid_before=B, force_command='ls -l',
                    source_address=['10.0.0.0/8'], permit_pty=False,
                    comment=b'cert comment ' + kt.encode())
            else:
                cert = ca.generate_host_certificate(
                    subj, 'kid-%d' % ci, serial=2000 + ci,
                    principals=['host.example'], valid_after=A,
                    valid_before=B, comment=b'cert comment ' + kt.encode())
            case = dict(ca=kt, subject=kts[(ci + 1) % len(kts)], type=ctype)
            made.append(cert)
            ctx.count(('cert-roundtrip', kt, ctype))
            for fmt in ('openssh', 'rfc4716'):
                data = cert.export_certificate(fmt)
                c2 = asyncssh.import_certificate(data)
                if c2 != cert or c2.public_data != cert.public_data or \
                        c2.get_comment_bytes() != cert.get_comment_bytes() or \
                        c2.principals != cert.principals or \
                        c2.options != cert.options:
                    ctx.violation(kf_sig('cert', step='roundtrip', fmt=fmt,
                                         **case),
                                  f'certificate changed by export/import '
                                  f'({fmt}): {case}', {'kind': 'interop', 'case': case})
            line = cert.export_certificate('openssh')
            # PyCA
            try:
                pc = ser.load_ssh_public_identity(line)
            except Exception as exc:        # pylint: disable=broad-except
                pc = None
                stats['pyca_unsupported'] += 1
            if pc is not None:
                stats['pyca_read'] += 1
                from cryptography.exceptions import InvalidSignature
                try:
                    pc.verify_cert_signature()
                    sig_ok = True
                except InvalidSignature:
                    sig_ok = False
                except Exception:           # pylint: disable=broad-except
                    sig_ok = True           # CA key type unknown to PyCA
                    stats['pyca_unsupported'] += 1
                want_crit = {b'force-command': b'ls -l',
                             b'source-address': b'10.0.0.0/8'} \
                    if ctype == 'user' else {}
                ok = sig_ok and pc.serial == (1000 if ctype == 'user'
                                              else 2000) + ci and \
                    pc.key_id == b'kid-%d' % ci and \
                    [p.decode() for p in pc.valid_principals] == \
                    list(cert.principals) and \
                    pc.valid_after == A and pc.valid_before == B and \
                    dict(pc.critical_options) == want_crit and \
                    (ctype == 'host' or
                     b'permit-pty' not in pc.extensions and
                     b'permit-user-rc' in pc.extensions) and \
                    D.pyca_public_der(pc.public_key()) == \
                    D.pyca_public_der(subj.pyca_key.public_key())
                if not ok:
                    ctx.violation(kf_sig('cert', reader='pyca', **case),
                                  f'PyCA reads the certificate asyncssh '
                                  f'wrote differently: {case} sig_ok={sig_ok}',
                                  {'kind': 'interop', 'case': case, 'line': line.decode()})
            # ssh-keygen -L
            if D.SSH_KEYGEN and D.keygen_supports(kt) and \
                    D.keygen_supports(kts[(ci + 1) % len(kts)]):
                f = scr.write('x-cert.pub', line, 0o644)
                rc, out, err = D.keygen(['-L', '-f', f])
                if rc != 0:
                    ctx.violation(kf_sig('cert', reader='ssh-keygen', **case),
                                  f'ssh-keygen -L cannot read the certificate '
                                  f'asyncssh wrote: {err[:200]}',
                                  {'kind': 'interop', 'case': case, 'line': line.decode()})
                else:
                    stats['keygen_read'] += 1
                    t = out.decode('utf-8', 'replace')
                    need = [f'{ctype} certificate', f'Key ID: "kid-{ci}"',
                            f'Serial: {(1000 if ctype == "user" else 2000) + ci}']
                    need += list(cert.principals)
                    if ctype == 'user':
                        need += ['force-command ls -l',
                                 'source-address 10.0.0.0/8',
                                 'permit-user-rc']
                    missing = [n for n in need if n not in t]
                    if missing or (ctype == 'user' and 'permit-pty' in t):
                        ctx.violation(
                            kf_sig('cert', reader='ssh-keygen', step='fields',
                                   **case),
                            f'ssh-keygen -L shows other fields than asyncssh '
                            f'wrote: missing {missing}: {case}',
                            {'kind': 'interop', 'case': case, 'listing': t})
    # a file holding several certificates (both text formats, LF and CRLF)
    for eol in (b'\n', b'\r\n'):
        blob = b'# certificates\n\n' + b''.join(
            c.export_certificate('openssh' if i % 2 else 'rfc4716')
            for i, c in enumerate(made))
        blob = blob.replace(b'\n', eol)
        f = scr.write('certs.list', blob, 0o644)
        ctx.count(('cert-list', eol))
        try:
            got = list(asyncssh.read_certificate_list(f))
        except Exception as exc:            # pylint: disable=broad-except
            got = exc
        if got != made or [c.get_comment_bytes() for c in got] != \
                [c.get_comment_bytes() for c in made]:
            ctx.violation(kf_sig('cert', step='list', eol=eol.decode()),
                          f'file with {len(made)} certificates read back as '
                          f'{got if isinstance(got, Exception) else len(got)}',
                          {'kind': 'interop', 'file_hex': blob.hex()})
    # certificates made by ssh-keygen -s
    if not D.SSH_KEYGEN:
        return
    for ci, kt in enumerate(k for k in kts if D.keygen_supports(k)):
        ca = D.key(kt, 1)
        subj = D.key(kt, 2)
        caf = scr.write('ca', ca.export_private_key('openssh'))
        pubf = scr.write('subj.pub', subj.convert_to_public()
                         .export_public_key('openssh') , 0o644)
        certf = scr.path('subj-cert.pub')
        if os.path.exists(certf):
            os.remove(certf)
        rc, out, err = D.keygen(['-q', '-s', caf, '-I', 'kg id', '-z', '77',
                                 '-n', 'carol,dave', '-V',
                                 '20300101000000Z:20300101010000Z',
                                 '-O', 'clear', '-O', 'permit-pty', '-O',
                                 'force-command=uptime', '-O',
                                 'source-address=192.168.0.0/16', pubf])
        case = dict(writer='ssh-keygen', kt=kt)
        if rc != 0 or not os.path.exists(certf):
            ctx.notes.append(f'ssh-keygen -s failed for {kt}: {err[:120]}')
            continue
        ctx.count(('cert-keygen', kt))
        stats['keygen_written'] += 1
        try:
            cert = asyncssh.read_certificate(certf)
            ok = list(cert.principals) == ['carol', 'dave'] and \
                cert.options.get('force-command') == 'uptime' and \
                [str(n) for n in cert.options.get('source-address')] == \
                ['192.168.0.0/16'] and \
                cert.options.get('permit-pty') is True and \
                'permit-X11-forwarding' not in cert.options and \
                cert.key.public_data == subj.public_data and \
                cert.signing_key.public_data == ca.public_data
            from harness.drivers.sig_cert import Clock
            with Clock(1893456000):
                cert.validate(1, 'carol')
            with Clock(1893456000 + 3600):
                try:
                    cert.validate(1, 'carol')
                    ok = False
                except ValueError:
                    pass
        except Exception as exc:            # pylint: disable=broad-except
            ok = False
            case['exc'] = f'{type(exc).__name__}: {exc}'
        if not ok:
            ctx.violation(kf_sig('cert', step='import', **case),
                          f'asyncssh reads the certificate ssh-keygen wrote '
                          f'differently: {case}',
                          {'kind': 'interop', 'case': case,
                           'line': open(certf).read()})


if __name__ == '__main__':
    run_check('C15', main)
