"""C20 - forwarded connections relay faithfully and only where permitted.

Three specifications (specs/Forward), all checked by TLC and bound to the
real asyncssh code by replay on the deterministic loop:

Forward      one forwarded connection (local / remote / SOCKS / UNIX path):
             early data and early EOF before the channel is confirmed, open
             confirmation / refusal arriving late, relay, half-close each
             way, close, socket reset, SSH connection loss, listener close.
             TLC: RelayFIFO, Complete, HalfClose, Teardown, CloseBoth,
             Released, FailureClean, NoListenerLeft exhaustively; sensitivity
             variants (early data dropped, EOF not passed on) are rejected.
             Behaviours (-simulate) are replayed (a) with both SSH transports
             delivered one channel message at a time exactly as the behaviour
             says, comparing the implementation with the specification after
             every step, and (b) coarsely (automatic delivery, big units,
             odd segmentation) on every kind incl. open_connection /
             open_unix_connection; plus connection loss at every step index.
ForwardPerm  decision table request x key options x certificate x
             application answer x destination; every row is materialised
             (authorized_keys options, user certificates, SSHServer
             callbacks, real client request).
Socks        the SOCKS4/4a/5 request parser as a byte state machine; one
             input per reachable parser state (from TLC) is fed whole, split
             at every position and byte by byte into the real
             SSHSOCKSForwarder.

Verdicts come only from monitors over what the application ends / the
destination / the loop's socket registry saw.
"""

import concurrent.futures
import json
import os
import random
import time

from harness import tlc
from harness.framework import run_check, MachineryError, VERIF

SPEC = os.path.join(VERIF, 'specs', 'Forward')
WORKERS = 2

# ----------------------------------------------------------------------
# TLC job plumbing (several JVMs side by side)
# ----------------------------------------------------------------------

ALL_KEEPS = '{"TT", "FF", "TF", "FT"}'
FWD_DEFAULT = dict(MaxW=2, Keeps='{"TT"}', AllowFail='TRUE',
                   AllowReset='TRUE', AllowCut='TRUE', AllowLsn='TRUE',
                   FixLost='FALSE', FixCross='FALSE', Win=0,
                   AdjustOnlyOpen='FALSE', CreditDropped='FALSE',
                   FlowBias='FALSE', EarlyBias='FALSE',
                   DropEarly='FALSE',
                   NoEofRelay='FALSE')
SOCKS_DEFAULT = dict(MaxIn=30, MaxName=255, Runs='{254, 255, 256, 300}',
                     Fixed='TRUE')
PERM_DEFAULT = dict(SkipPermitOpen='FALSE', SkipCert='FALSE',
                    EmptySetMeansNoCert='FALSE',
                    LeakOnCancel='FALSE')
LSN_ALL_KINDS = '{"rfwd", "rsrv", "rpath", "lfwd", "socks", "lpath"}'
LSN_DEFAULT = dict(N=3, MaxConn=2, KindSet='{"rfwd", "lfwd", "rpath", "socks"}',
                   HostSet='{"h1", "h2"}', PortSet='{"dyn", "P"}',
                   WirePortZero='FALSE', KeepClosed='FALSE')
X11_DEFAULT = dict(N=3, MaxX=3, ServerAllows='TRUE', AtomicOpen='FALSE',
                   KeepClosedCookies='FALSE')
X11_INVS = ['ServedOnlyLive', 'LiveIsServed', 'ValidExact', 'RegExact',
            'ClientListener', 'ServerListener', 'Published', 'SingleOnce']
LA_ANSWERS = '{"false", "true", "callable", "applistener", "otherconn"}'
LA_DEFAULT = dict(N=3, Sides='{"remote", "local"}', Fams='{"tcp", "unix"}',
                  Answers=LA_ANSWERS, UntrackedAppListener='FALSE',
                  LateStore='{}')
LA_INVS = ['ListenersReleased', 'SocketsExact', 'NoLateListener',
           'ClosedOnce', 'CancelKeepsConnection']
MA_DEFAULT = dict(N=2, Resolver='{1, 2, 3}',
                  Sides='{"local", "socks", "remote"}', MaxConn=2,
                  LeakOnPartialBind='FALSE')
MA_INVS = ['NoListenerLeft', 'AllAddresses', 'ServedIffOpen']
DEFAULTS = {'ListenAddrs': MA_DEFAULT, 'ListenAsync': LA_DEFAULT,
            'Forward': FWD_DEFAULT, 'Socks': SOCKS_DEFAULT,
            'ForwardPerm': PERM_DEFAULT, 'Listeners': LSN_DEFAULT,
            'X11': X11_DEFAULT}
LSN_INVS = ['Routing', 'ClosedRefuses', 'RegistryExact', 'AddressesDistinct']

FWD_INVS_ASIS = ['TypeOK', 'RelayFIFO', 'Complete', 'HalfClose', 'Teardown',
                 'FailureClean', 'NoListenerLeft', 'NoLateChanEof', 'NoStall',
                 'NoProtocolError']
FWD_INVS_ALL = FWD_INVS_ASIS + ['CloseBoth', 'Released']
SOCKS_INVS = ['TypeOK', 'NoRaise', 'ClosedIsFinal', 'Progress',
              'ConnectWellFormed', 'NoReplyUnlessAsked', 'OutOnlyWhenConnected']
PERM_INVS = ['ServedOnlyIfPermitted', 'ServedIffPermitted',
             'ListenerOnlyIfServed', 'NoListenerAfterCancel', 'NoListenerLeft']


class Job:
    def __init__(self, name, module, consts=None, invariants=(), props=(),
                 view=True, expect=None, simulate=None, depth=None,
                 workers=WORKERS, dump=False, timeout=900):
        self.name, self.module = name, module
        self.consts = dict(DEFAULTS[module], **(consts or {}))
        self.invariants, self.props = list(invariants), list(props)
        self.view = view and module != 'ForwardPerm'
        self.expect = expect
        self.simulate, self.depth = simulate, depth
        self.workers, self.dump, self.timeout = workers, dump, timeout
        self.tag = 'c20_' + ''.join(c if c.isalnum() else '_' for c in name)
        self.res = None
        self.traces = None

    def cfg_text(self):
        lines = ['CONSTANTS'] + [f'  {k} = {v}' for k, v in self.consts.items()]
        lines += ['SPECIFICATION Spec', 'CHECK_DEADLOCK FALSE']
        lines += [f'INVARIANT {i}' for i in self.invariants]
        lines += [f'PROPERTY {p}' for p in self.props]
        if self.dump:
            lines.append('INVARIANT Dump')
        if self.view and not self.simulate:
            lines.append('VIEW view')
        return '\n'.join(lines) + '\n'

    def run(self, seed):
        cfg = f'_{self.tag}.cfg'
        path = os.path.join(SPEC, cfg)
        with open(path, 'w') as f:
            f.write(self.cfg_text())
        try:
            kw = {}
            out = None
            if self.simulate:
                out = tlc.workdir(self.tag + '_out')
                kw = dict(simulate=f'file={out}/tr,num={self.simulate}',
                          depth=self.depth, seed=seed)
            self.res = tlc.run(SPEC, self.module, cfg, self.tag,
                               workers=self.workers, timeout=self.timeout,
                               **kw)
            if self.simulate:
                self.traces = [
                    [(st['lbl'], st.get('S', st)) for _, st in steps[1:]]
                    for _, steps in tlc.read_sim_traces(out, 'tr_')]
                tlc.cleanup(self.tag + '_out')
        finally:
            tlc.cleanup(self.tag)
            try:
                os.remove(path)
            except OSError:
                pass
        return self


def run_jobs(ctx, jobs, parallel=3):
    with concurrent.futures.ThreadPoolExecutor(parallel) as ex:
        list(ex.map(lambda j: j.run(ctx.seed + 11), jobs))
    for j in jobs:
        res = j.res
        if j.simulate:
            if res.error and res.error != 'timeout':
                raise MachineryError(f'simulate {j.name}: {res.error}\n' +
                                     res.output[-2000:])
            ctx.require(j.traces, f'no simulation traces for {j.name}')
            ctx.add_tlc(j.name, res)
        else:
            ctx.require_tlc_ok(f'{j.module}: {j.name} {j.consts}', res,
                               expect_violation=j.expect)


# Fixed schedules (fine mode, every kind): situations every run must cover
# whatever the simulation seed. D = deliver towards the accepting side,
# U = towards the opening side.
D, U, DF = ('DOA', True), ('DAO',), ('DOA', False)
W = lambda e, d: ('W', e, d)
REGRESSIONS = [
    ('three early writes', [W('L', 1), W('L', 2), W('L', 3), D, U, D]),
    ('early writes and early EOF',
     [W('L', 1), W('L', 2), ('E', 'L'), D, W('R', 1), U, D, D, U,
      W('R', 2), ('E', 'R')]),
    ('early write, close before confirmation',
     [W('L', 1), W('L', 2), ('C', 'L'), D, U, D, D, W('R', 1), ('C', 'R')]),
    ('destination answers before the confirmation arrives',
     [W('L', 1), D, W('R', 1), W('R', 2), W('L', 2), U, U, U, W('L', 3), D,
      D]),
    ('refused open with early data', [W('L', 1), W('L', 2), DF, U]),
    ('local connection lost before confirmation (F11)',
     [W('L', 1), ('X', 'L'), D, U]),
    ('local connection lost after the open reached the other side (F11)',
     [D, ('X', 'L'), U]),
    ('EOFs crossing (F12)',
     [D, U, W('L', 1), ('E', 'L'), W('R', 1), ('E', 'R'), D, D, U, U,
      ('C', 'L'), ('C', 'R')]),
    ('half-close L, R keeps sending, then closes',
     [D, U, ('E', 'L'), D, W('R', 1), U, W('R', 2), W('R', 3), U, U,
      ('C', 'R')]),
    ('half-close R, L keeps sending, then closes',
     [D, U, ('E', 'R'), U, W('L', 1), D, W('L', 2), W('L', 3), D, D,
      ('C', 'L')]),
    ('reset of the destination with data in flight',
     [D, U, W('L', 1), W('R', 1), ('X', 'R'), D, U]),
    ('reset of the local end with data in flight',
     [D, U, W('L', 1), W('R', 1), ('X', 'L'), D, U]),
    ('listener closed while relaying',
     [D, ('LSN',), U, W('L', 1), D, W('R', 1), U, ('C', 'L'), ('C', 'R')]),
]

# Several listeners on one connection: fixed schedules (model-free labels:
# every connection into listener k must come out at destination k)
LC = lambda kind, host='h1', port='dyn': dict(kind=kind, host=host, port=port)


def _lsn_schedule(cfgs, closes):
    """open all; connect into each, forwards and backwards; then close the
    listed ones one at a time, connecting into every other listener (and the
    closed address) after each close"""
    n = len(cfgs)
    lab = [('open', k + 1, c) for k, c in enumerate(cfgs)]
    lab += [('connect', k) for k in range(1, n + 1)]
    lab += [('connect', k) for k in range(n, 0, -1)]
    alive = list(range(1, n + 1))
    for k in closes:
        lab.append(('close', k))
        alive.remove(k)
        lab += [('connect', j) for j in alive] + [('cclosed', k)]
    return lab


LSN_REGRESSIONS = [
    ('three dynamic remote forwards, one host',
     _lsn_schedule([LC('rfwd')] * 3, [3, 1])),
    ('dynamic start_server listeners on two hosts',
     _lsn_schedule([LC('rsrv'), LC('rsrv', 'h2'), LC('rsrv'),
                    LC('rsrv', 'h2')], [4, 1, 3])),
    ('fixed and dynamic remote forwards, same port on two hosts',
     _lsn_schedule([LC('rfwd', 'h1', 'P'), LC('rfwd', 'h2', 'P'), LC('rfwd'),
                    LC('rsrv', 'h2')], [3, 1])),
    ('local forwards and SOCKS',
     _lsn_schedule([LC('lfwd'), LC('socks'), LC('lfwd', 'h2', 'P'),
                    LC('socks', 'h1', 'P')], [2, 3])),
    ('UNIX listeners on both sides',
     _lsn_schedule([LC('rpath', '-', '-'), LC('lpath', '-', '-'),
                    LC('rpath', '-', '-'), LC('lpath', '-', '-')], [1, 4])),
    ('all kinds together',
     _lsn_schedule([LC('rfwd'), LC('lfwd'), LC('rpath', '-', '-'),
                    LC('rsrv')], [4, 2])),
]

# listeners whose creation is asynchronous vs. the end of the connection
LAC = lambda side, fam, ans='true', **kw: dict(
    side=side, fam=fam, ans=ans if side == 'remote' else '-', **kw)
LA_REGRESSIONS = []
for _side in ('remote', 'local'):
    for _fam in ('tcp', 'unix'):
        for _end in ('cclose', 'sclose', 'loss'):
            _r = ('request', 1, LAC(_side, _fam))
            if _side == 'remote':
                LA_REGRESSIONS += [
                    [_r, ('end', _end), ('decide', 1, True), ('setup', 1)],
                    [_r, ('decide', 1, True), ('end', _end), ('setup', 1)],
                    [('request', 1, LAC(_side, _fam, 'false')),
                     ('end', _end), ('decide', 1, False)]]
            else:
                LA_REGRESSIONS += [[_r, ('end', _end), ('setup', 1)]]
# the kind of answer the server application gives (synchronously here, as an
# awaitable in the TLC behaviours), then cancel / every way the connection ends
for _fam in ('tcp', 'unix'):
    for _ans in ('applistener', 'otherconn', 'true', 'callable', 'acallable',
                 'false'):
        if _fam == 'unix' and _ans in ('callable', 'acallable'):
            continue            # unix_server_requested has no accept handler
        _setup = [('setup', 1)] if _ans in ('true', 'callable', 'acallable') \
            else []
        for _tail in ([('cancel', 1), ('end', 'cclose')], [('end', 'cclose')],
                      [('end', 'sclose')], [('end', 'loss')]):
            if _ans == 'false' and _tail[0][0] == 'cancel':
                continue
            LA_REGRESSIONS.append(
                [('request', 1, LAC('remote', _fam, _ans, sync=True))] +
                _setup + _tail)
_P = 23000 + os.getpid() % 20000
LA_REGRESSIONS += [
    # fixed port, two application listeners, one cancelled
    [('request', 1, LAC('remote', 'tcp', 'applistener', fixed=_P)),
     ('decide', 1, True),
     ('request', 2, LAC('remote', 'tcp', 'applistener')), ('decide', 2, True),
     ('cancel', 1), ('request', 3, LAC('remote', 'tcp', 'otherconn')),
     ('decide', 3, True), ('end', 'loss')],
]
LA_REGRESSIONS += [
    [('request', 1, LAC('remote', 'tcp')), ('decide', 1, True), ('setup', 1),
     ('request', 2, LAC('remote', 'unix')), ('request', 3, LAC('local', 'tcp')),
     ('cancel', 1), ('decide', 2, True), ('end', 'loss'), ('setup', 2),
     ('setup', 3)],
]

# a listen host with several addresses: fixed schedules
MAC = lambda side, n, port, busy=(): dict(side=side, n=n, port=port,
                                          busy=list(busy))
MA_REGRESSIONS = []
for _side in ('local', 'socks', 'remote'):
    for _port in ('fix', 'dyn'):
        # all binds succeed: every address relays, every one is released
        MA_REGRESSIONS.append(
            [('listen', 1, MAC(_side, 3, _port)), ('connect', 1, 1),
             ('connect', 1, 2), ('connect', 1, 3), ('close', 1),
             ('connect', 1, 1), ('connect', 1, 3),
             ('listen', 2, MAC(_side, 2, _port)), ('connect', 2, 2),
             ('end', 'loss'), ('connect', 2, 1), ('connect', 2, 2)])
        # a later bind fails: nothing may be left of the request
        for _busy in ([2], [3], [2, 3]):
            MA_REGRESSIONS.append(
                [('listen', 1, MAC(_side, 3, _port, _busy)),
                 ('connect', 1, 1)] +
                ([('connect', 1, 2)] if 2 not in _busy else []) +
                [('listen', 2, MAC(_side, 2, _port)), ('connect', 2, 1),
                 ('end', ['cclose', 'sclose', 'loss'][len(MA_REGRESSIONS) % 3]),
                 ('connect', 1, 1)])
    MA_REGRESSIONS.append([('listen', 1, MAC(_side, 2, 'fix', [1])),
                           ('connect', 1, 2), ('end', 'cclose')])

# X11 forwarding: fixed schedules (model-free labels)
XR, XA, XC = (lambda s, sc=False: ('request', s, sc)), \
    (lambda s: ('answer', s)), (lambda s: ('close', s))
XX = lambda p, form='ok': ('xconn', p, form)
X11_REGRESSIONS = [
    ('cookie of a closed session while another session keeps the listener',
     [XR(1), XA(1), XR(2), XA(2), XX(1), XX(2), XC(1), XX(1), XX(2),
      XX(1, 'bigendian'), XX(1, 'wrongproto'), XC(2), XX(2)]),
    ('second session closed first',
     [XR(1), XA(1), XR(2), XA(2), XC(2), XX(2), XX(1), XX(2, 'bigendian'),
      XC(1), XX(1)]),
    ('three sessions, the middle one closes',
     [XR(1), XA(1), XR(2), XA(2), XR(3), XA(3), XX(2), XC(2), XX(2), XX(3),
      XX(1), XC(1), XX(1), XX(2), XX(3)]),
    ('single_connection cookie is good once',
     [XR(1, True), XA(1), XR(2), XA(2), XX(1), XX(1), XX(2), XC(1), XX(1),
      XX(2)]),
    ('single_connection session closed unused',
     [XR(1), XA(1), XR(2, True), XA(2), XC(2), XX(2), XX(1)]),
    ('garbage, wrong protocol name, truncated, byte orders',
     [XR(1), XA(1), XX(0), XX(0, 'bigendian'), XX(0, 'wrongproto'),
      XX(0, 'truncated'), XX(1, 'truncated'), XX(1, 'wrongproto'),
      XX(1, 'bigendian'), XX(3), XX(1, 'pipelined'), XX(0, 'pipelined')]),
    ('listener torn down and created again',
     [XR(1), XA(1), XX(1), XC(1), XX(1), XR(2), XA(2), XX(1), XX(2)]),
]

# ----------------------------------------------------------------------
# helpers
# ----------------------------------------------------------------------

def labels_of(trace):
    return [tuple(l) for l, _ in trace]


def compact(script):
    return ' '.join(''.join(str(x)[0] if isinstance(x, bool) else str(x)
                            for x in s) for s in script)


class Findings:
    """Groups monitor hits by (module, clause, cause); reports each group
    once with its shortest schedule."""

    def __init__(self, ctx):
        self.ctx = ctx
        self.groups = {}

    def add(self, module, clause, cause, what, replay, size):
        key = (module, clause, json.dumps(cause, sort_keys=True))
        g = self.groups.get(key)
        if g is None or size < g[2]:
            self.groups[key] = (what, replay, size,
                                (g[3] if g else 0) + 1)
        else:
            self.groups[key] = (g[0], g[1], g[2], g[3] + 1)

    def report(self):
        for (module, clause, cause), (what, replay, _, n) in \
                sorted(self.groups.items()):
            cause = json.loads(cause)
            sig = {'module': module, 'clause': clause}
            sig.update(cause if isinstance(cause, dict) else {'cause': cause})
            self.ctx.violation(sig, f'{module}/{clause}: {what} '
                               f'[{n} case(s) in this run]', replay=replay)


def forward_cause(r, clause):
    f = r.get('features', [])
    if 'local-lost-before-confirm' in f and clause in ('CloseBoth', 'Released'):
        return 'local-lost-before-confirm'
    if clause == 'Released' and 'eof-crossing' in f:
        return 'eof-crossing'
    return 'schedule: ' + compact(r['script'])


def judge_forward(ctx, finds, r, replay, mode):
    """r: result of a forward replay; returns True if something was flagged"""
    for clause, detail in r['l1']:
        finds.add('Forward', clause, forward_cause(r, clause),
                  f'{detail}; schedule {compact(r["script"])} '
                  f'({replay.get("kind")})', replay, len(r['script']))
    for e in r.get('loop_exceptions', []):
        finds.add('Forward', 'Exception', e[:60],
                  f'exception reached the event loop: {e}; schedule '
                  f'{compact(r["script"])}', replay, len(r['script']))
    if not r['l1'] and r.get('diverged'):
        ctx.divergence(f'Forward {mode} {replay.get("kind")}: '
                       f'{r["diverged"]} schedule={compact(r["script"])}')
    return bool(r['l1'])


# ----------------------------------------------------------------------
def main(ctx):
    from harness.drivers import forward as F
    import asyncssh
    ctx.require(os.path.dirname(os.path.dirname(asyncssh.__file__)) ==
                os.environ.get('VERIF_REPO', '/repo').rstrip('/'),
                f'asyncssh imported from {asyncssh.__file__}')
    from asyncssh import _verif
    ctx.require(_verif.ENABLED, 'RONF_ASYNCSSH_VERIF=1 is required (packet '
                'type hook used to label channel messages in flight)')
    quick = ctx.tier == 'quick'
    rnd = random.Random(ctx.seed)
    finds = Findings(ctx)
    t_last = [time.time()]
    timing = {}

    def phase(name):
        now = time.time()
        timing[name] = round(now - t_last[0], 1)
        t_last[0] = now
    ctx.notes.append(timing)

    if getattr(ctx, 'replay_path', None):
        return replay_one(ctx, F, finds)

    # ---- 0. which variant of the two teardown rules does the code have ----
    # (the specification has both; the one that matches the code is used for
    # conformance, the verdict comes from the monitors in either case)
    pr = F.run_labels([('X', 'L'), ('DOA', True), ('DAO',)], 'local')
    fix_lost = pr.get('relayed_after_drain', 0) == 0
    pr = F.run_labels([('DOA', True), ('DAO',), ('E', 'L'), ('E', 'R'),
                       ('DOA', True), ('DAO',), ('C', 'L'), ('C', 'R')],
                      'local')
    fix_cross = pr.get('relayed_after_drain', 0) == 0
    Wl = lambda e, d: ('W', e, d)
    pr = F.run_labels([Wl('L', 1), Wl('L', 2), Wl('L', 3), ('DOA', True),
                       Wl('R', 1), Wl('R', 2), Wl('R', 3), ('X', 'R'),
                       ('DAO',), ('X', 'L')], 'local', window=2)
    credit = pr.get('chan_after_drain') == {'O': 0, 'A': 0}
    asis = dict(FixLost='TRUE' if fix_lost else 'FALSE',
                FixCross='TRUE' if fix_cross else 'FALSE',
                CreditDropped='TRUE' if credit else 'FALSE')
    ctx.notes.append(f'code variant detected: {asis}')
    # does a listener that becomes ready after its connection ended stay open?
    late = []
    for side in ('remote', 'local'):
        pr = F.replay_listen_async(
            [('request', 1, dict(side=side, fam='tcp')), ('end', 'cclose')] +
            ([('decide', 1, True)] if side == 'remote' else []) +
            [('setup', 1)])
        if pr['l1']:
            late.append(side)
    late_store = '{' + ', '.join(f'"{x}"' for x in late) + '}'
    ctx.notes.append(f'late listeners stay open on: {late or "no side"}')
    T = lambda b: 'TRUE' if b else 'FALSE'

    phase('detect')
    # ---- 1. TLC: design checks, sensitivity, witnesses, generators --------
    maxw = 2 if quick else 3
    jobs = []
    jobs.append(Job('fwd required rules', 'Forward',
                    dict(MaxW=maxw, FixLost='TRUE', FixCross='TRUE',
                         Keeps='{"TT", "FF"}' if quick else ALL_KEEPS),
                    FWD_INVS_ALL, workers=4))
    if not (fix_lost and fix_cross):
        holds = FWD_INVS_ASIS + (['CloseBoth'] if fix_lost else [])
        jobs.append(Job('fwd code as it is', 'Forward',
                        dict(asis, MaxW=maxw, Keeps=ALL_KEEPS), holds,
                        workers=4))
    # flow control in play: a channel window of Win data units (one unit = one
    # maximum packet), WINDOW_ADJUST in every phase
    fixed = dict(FixLost='TRUE', FixCross='TRUE',
                 CreditDropped=asis['CreditDropped'])
    jobs.append(Job('fwd rules, window 2', 'Forward',
                    dict(fixed, Win=2, MaxW=3, AllowLsn='FALSE',
                         AllowFail='FALSE', Keeps='{"TT"}') if quick else
                    dict(fixed, Win=2, MaxW=3, Keeps=ALL_KEEPS),
                    FWD_INVS_ALL, workers=4))
    jobs.append(Job('fwd sensitivity AdjustOnlyOpen (expected '
                    'NoProtocolError)', 'Forward',
                    dict(fixed, Win=2, MaxW=3, AdjustOnlyOpen='TRUE',
                         AllowFail='FALSE', AllowLsn='FALSE'),
                    ['NoProtocolError'], expect='NoProtocolError'))
    if not quick:
        jobs.append(Job('fwd rules, window 3', 'Forward',
                        dict(fixed, Win=3, MaxW=4, AllowFail='FALSE',
                             AllowLsn='FALSE'), FWD_INVS_ALL, workers=4))
        jobs.append(Job('fwd without the close_pending credit (expected '
                        'ChannelsEnd)', 'Forward',
                        dict(fixed, Win=2, MaxW=3, CreditDropped='FALSE'),
                        ['ChannelsEnd'], expect='ChannelsEnd'))
        jobs.append(Job('fwd with the close_pending credit', 'Forward',
                        dict(fixed, Win=2, MaxW=3, CreditDropped='TRUE',
                             Keeps='{"TT"}'),
                        FWD_INVS_ALL + ['ChannelsEnd'], workers=4))
    # the two teardown rules are needed: without them the properties fail
    if not quick:
        jobs.append(Job('fwd without F11 rule (expected CloseBoth)', 'Forward',
                        dict(FixLost='FALSE', FixCross='TRUE'), ['CloseBoth'],
                        expect='CloseBoth'))
    jobs.append(Job('fwd without F12 rule (expected Released)', 'Forward',
                    dict(FixLost='TRUE', FixCross='FALSE', AllowReset='FALSE',
                         Keeps='{"FF"}'),
                    ['Released'], expect='Released'))
    jobs.append(Job('fwd sensitivity DropEarly (expected Complete)', 'Forward',
                    dict(DropEarly='TRUE', FixLost='TRUE', FixCross='TRUE'),
                    ['Complete'], expect='Complete'))
    if not quick:
        jobs.append(Job('fwd sensitivity NoEofRelay (expected HalfClose)',
                        'Forward', dict(NoEofRelay='TRUE', FixLost='TRUE',
                                        FixCross='TRUE'),
                        ['HalfClose'], expect='HalfClose'))
    if not quick:
        jobs.append(Job('fwd witness early flush', 'Forward',
                        dict(MaxW=2), ['NeverEarlyFlush'],
                        expect='NeverEarlyFlush'))
    # Socks
    jobs.append(Job('socks parser + case table', 'Socks', {}, SOCKS_INVS,
                    props=['AfterClose'], workers=1, dump=True))
    jobs.append(Job('socks loop as it is (expected NoRaise)', 'Socks',
                    dict(Fixed='FALSE', MaxIn=8), ['NoRaise'],
                    expect='NoRaise'))
    for wname, depth in ([] if quick else
                         [('NeverV6', 28), ('NeverV4a', 16),
                          ('NeverOverlong', 12), ('NeverV5Name', 16)]):
        jobs.append(Job(f'socks witness {wname}', 'Socks',
                        dict(MaxIn=depth), [wname], expect=wname))
    # Listeners (several listeners on one connection)
    jobs.append(Job('listeners rules', 'Listeners',
                    dict(KindSet='{"rfwd", "lfwd", "rpath"}') if quick
                    else dict(MaxConn=3, KindSet=LSN_ALL_KINDS),
                    LSN_INVS, workers=4))
    jobs.append(Job('listeners sensitivity WirePortZero (expected Routing)',
                    'Listeners', dict(WirePortZero='TRUE'), ['Routing'],
                    expect='Routing'))
    if not quick:
        jobs.append(Job('listeners sensitivity KeepClosed', 'Listeners',
                        dict(KeepClosed='TRUE'), ['ClosedRefuses'],
                        expect='ClosedRefuses'))
    if not quick:
        jobs.append(Job('listeners witness older dynamic listener',
                        'Listeners', {}, ['NeverOlderDynamic'],
                        expect='NeverOlderDynamic'))
        jobs.append(Job('listeners witness port in use', 'Listeners', {},
                        ['NeverFailedOpen'], expect='NeverFailedOpen'))
    # a listen host with several addresses
    jobs.append(Job('listen-addrs rules', 'ListenAddrs', {}, MA_INVS,
                    view=False, workers=4))
    jobs.append(Job('listen-addrs sensitivity LeakOnPartialBind', 'ListenAddrs',
                    dict(LeakOnPartialBind='TRUE'), ['NoListenerLeft'],
                    expect='NoListenerLeft', view=False))
    # asynchronous listener creation vs. connection end
    jobs.append(Job('listen-async required rules', 'ListenAsync', {}, LA_INVS,
                    view=False))
    jobs.append(Job('listen-async sensitivity UntrackedAppListener (expected '
                    'ListenersReleased)', 'ListenAsync',
                    dict(UntrackedAppListener='TRUE'), ['ListenersReleased'],
                    expect='ListenersReleased', view=False))
    if not quick:
        jobs.append(Job('listen-async sensitivity LateStore (expected '
                        'ListenersReleased)', 'ListenAsync',
                        dict(LateStore='{"remote"}'), ['ListenersReleased'],
                        expect='ListenersReleased', view=False))
        jobs.append(Job('listen-async sensitivity UntrackedAppListener '
                        '(expected CancelKeepsConnection)', 'ListenAsync',
                        dict(UntrackedAppListener='TRUE'),
                        ['CancelKeepsConnection'],
                        expect='CancelKeepsConnection', view=False))
    # X11 forwarding
    jobs.append(Job('x11 rules', 'X11',
                    dict(N=2, MaxX=3) if quick else dict(MaxX=3),
                    X11_INVS, workers=4))
    jobs.append(Job('x11 sensitivity KeepClosedCookies', 'X11',
                    dict(KeepClosedCookies='TRUE', MaxX=2),
                    ['ServedOnlyLive'], expect='ServedOnlyLive'))
    if not quick:
        jobs.append(Job('x11 rules, server refuses', 'X11',
                        dict(ServerAllows='FALSE'), X11_INVS))
        for wname in ['NeverServed', 'NeverClosedCookieRefused',
                      'NeverSingleReuse']:
            jobs.append(Job(f'x11 witness {wname}', 'X11', {}, [wname],
                            expect=wname))
    # ForwardPerm
    jobs.append(Job('perm table', 'ForwardPerm', {}, PERM_INVS, workers=1,
                    dump=True))
    jobs.append(Job('perm sensitivity EmptySetMeansNoCert', 'ForwardPerm',
                    dict(EmptySetMeansNoCert='TRUE'), ['ServedOnlyIfPermitted'],
                    expect='ServedOnlyIfPermitted', workers=1))
    jobs.append(Job('perm sensitivity SkipPermitOpen', 'ForwardPerm',
                    dict(SkipPermitOpen='TRUE'), ['ServedOnlyIfPermitted'],
                    expect='ServedOnlyIfPermitted', workers=1))
    if not quick:
        jobs.append(Job('perm sensitivity SkipCert', 'ForwardPerm',
                        dict(SkipCert='TRUE'), ['ServedOnlyIfPermitted'],
                        expect='ServedOnlyIfPermitted', workers=1))
        jobs.append(Job('perm sensitivity LeakOnCancel', 'ForwardPerm',
                        dict(LeakOnCancel='TRUE'), ['NoListenerLeft'],
                        expect='NoListenerLeft', workers=1))
        jobs.append(Job('perm witness NeverServed', 'ForwardPerm', {},
                        ['NeverServed'], expect='NeverServed', workers=1))
    # generators: behaviours of the model of the code as it is
    n = 48 if quick else 500
    sims = [
        Job('sim relay', 'Forward',
            dict(asis, MaxW=3, Keeps=ALL_KEEPS, AllowCut='FALSE',
                 AllowLsn='FALSE'), simulate=3 * n, depth=26, view=False),
        Job('sim early', 'Forward',
            dict(asis, MaxW=3, Keeps=ALL_KEEPS, AllowCut='FALSE',
                 AllowLsn='FALSE', AllowFail='FALSE', EarlyBias='TRUE'),
            simulate=2 * n, depth=26, view=False),
        Job('sim cut+lsn', 'Forward', dict(asis, MaxW=2, Keeps=ALL_KEEPS),
            simulate=n, depth=22, view=False),
        Job('sim nofail', 'Forward',
            dict(asis, MaxW=3, Keeps=ALL_KEEPS, AllowFail='FALSE',
                 AllowReset='FALSE', AllowCut='FALSE', AllowLsn='FALSE'),
            simulate=n, depth=30, view=False)]
    if quick:
        sims = sims[:-1]        # 'sim window 3 flow' covers long clean runs
    wsims = [
        Job('sim window 2', 'Forward',
            dict(asis, Win=2, MaxW=4, Keeps=ALL_KEEPS, AllowCut='FALSE',
                 AllowLsn='FALSE', FlowBias='TRUE'),
            simulate=n // 2, depth=34, view=False),
        Job('sim window 3 flow', 'Forward',
            dict(asis, Win=3, MaxW=5, Keeps=ALL_KEEPS, AllowFail='FALSE',
                 AllowReset='FALSE', AllowCut='FALSE', AllowLsn='FALSE',
                 FlowBias='TRUE'),
            simulate=n, depth=44, view=False),
        Job('sim window 1', 'Forward',
            dict(asis, Win=1, MaxW=3, Keeps='{"TT"}', AllowFail='FALSE',
                 AllowCut='FALSE', AllowLsn='FALSE', FlowBias='TRUE'),
            simulate=n // 2, depth=34, view=False)]
    nl = 40 if quick else 400
    lsims = [
        Job('lsn sim all kinds', 'Listeners',
            dict(N=4, MaxConn=7, KindSet=LSN_ALL_KINDS,
                 PortSet='{"dyn", "P", "Q"}'),
            simulate=nl, depth=14, view=False),
        Job('lsn sim remote', 'Listeners',
            dict(N=4, MaxConn=7, KindSet='{"rfwd", "rsrv"}'),
            simulate=nl, depth=14, view=False),
        Job('lsn sim one host', 'Listeners',
            dict(N=4, MaxConn=7, KindSet='{"rfwd", "rsrv", "lfwd", "socks"}',
                 HostSet='{"h1"}', PortSet='{"dyn", "P"}'),
            simulate=nl, depth=14, view=False)]
    if quick:
        lsims = lsims[:-1]
    nxs = 40 if quick else 400
    xsims = [Job('x11 sim', 'X11', dict(MaxX=6, AtomicOpen='TRUE'),
                 simulate=nxs, depth=16, view=False)]
    if not quick:
        xsims.append(Job('x11 sim refused', 'X11',
                         dict(MaxX=3, AtomicOpen='TRUE', ServerAllows='FALSE'),
                         simulate=40, depth=10, view=False))
    asims = [Job('listen-async sim', 'ListenAsync',
                 dict(LateStore=late_store), simulate=40 if quick else 300,
                 depth=12, view=False)]
    msims = [Job('listen-addrs sim', 'ListenAddrs', dict(MaxConn=5),
                 simulate=30 if quick else 300, depth=10, view=False)]
    run_jobs(ctx, jobs + sims + wsims + lsims + xsims + asims + msims,
             parallel=6)
    jobmap = {j.name: j for j in jobs + sims}

    phase('tlc')
    # ---- 2. Forward: fine replay of behaviours -----------------------------
    total = 0
    seen = set()
    all_traces = []
    for j in sims:
        local_only = j.name == 'sim cut+lsn'
        for tr in j.traces:
            if not tr:
                continue
            kl, kr = tr[0][1]['keep']['L'], tr[0][1]['keep']['R']
            key = (kl, kr, tuple(labels_of(tr)))
            if key in seen:
                continue
            seen.add(key)
            all_traces.append((kl, kr, local_only, tr))
    ctx.require(len(all_traces) >= 100, 'too few distinct behaviours')
    sizes_pool = [(1, 300, 5000), (7, 1, 9000), (4096, 2, 33)]
    for idx, (kl, kr, local_only, tr) in enumerate(all_traces):
        has_lsn = any(l[0] == 'LSN' for l, _ in tr)
        kinds = [k for k in F.FINE_KINDS
                 if not (has_lsn and k in F.REMOTE_KINDS)]
        kind = kinds[idx % len(kinds)]
        sizes = sizes_pool[idx % len(sizes_pool)]
        kw = dict(kind=kind, keep_l=kl, keep_r=kr, sizes=sizes,
                  finish=['close', 'cutc', 'cuts'][idx % 3])
        r = F.replay(tr, **kw)
        total += 1
        key = (kind, kl, kr, compact(r['script']))
        ctx.count(key, nontrivial=len(r['script']) >= 3)
        if idx in (3, 40):
            ctx.sample({'module': 'Forward', 'mode': 'fine', **kw,
                        'schedule': compact(r['script']),
                        'observed': r.get('obs')})
        judge_forward(ctx, finds, r,
                      {'kind': 'forward-labels', 'world': kw,
                       'labels': r['script']}, 'fine')
    ctx.traces_validated(total)
    # the same with flow control in play (window of Win units, every unit one
    # CHANNEL_DATA message, WINDOW_ADJUST messages delivered like the others)
    nwin = nadj = 0
    seen_w = set()
    windowed = []
    for j in wsims:
        win = int(j.consts['Win'])
        for tr in j.traces:
            if not tr:
                continue
            kl, kr = tr[0][1]['keep']['L'], tr[0][1]['keep']['R']
            key = (win, kl, kr, tuple(labels_of(tr)))
            if key in seen_w:
                continue
            seen_w.add(key)
            windowed.append((kl, kr, win, tr))
            kind = F.FINE_KINDS[nwin % len(F.FINE_KINDS)]
            kw = dict(kind=kind, keep_l=kl, keep_r=kr, window=win,
                      finish=['close', 'cutc', 'cuts'][nwin % 3])
            r = F.replay(tr, **kw)
            nwin += 1
            adj = any(m['t'] == 'adjust' for _, S in tr
                      for m in S['qOA'] + S['qAO'])
            nadj += adj
            ctx.count(('window', win, kind, kl, kr, compact(r['script'])),
                      nontrivial=adj)
            if nwin == 9:
                ctx.sample({'module': 'Forward', 'mode': 'fine, window',
                            **kw, 'schedule': compact(r['script'])})
            judge_forward(ctx, finds, r, {'kind': 'forward-labels',
                                          'world': kw,
                                          'labels': r['script']}, 'window')
    ctx.require(nadj >= 40, f'only {nadj} windowed behaviours with a '
                'WINDOW_ADJUST in flight')
    ctx.traces_validated(nwin)
    ctx.coverage['windowed_behaviours'] = nwin
    ctx.coverage['windowed_behaviours_with_adjust'] = nadj
    nreg = 0
    for name, labels in REGRESSIONS:
        for kind in F.FINE_KINDS:
            if kind in F.REMOTE_KINDS and ('LSN',) in labels:
                continue
            for keep in ((True, True), (False, False)):
                kw = dict(kind=kind, keep_l=keep[0], keep_r=keep[1],
                          sizes=sizes_pool[nreg % 3])
                r = F.run_labels(labels, **kw)
                nreg += 1
                ctx.count(('regression', name, kind, keep))
                judge_forward(ctx, finds, r, {'kind': 'forward-labels',
                                              'world': kw,
                                              'labels': r['script']},
                              'regression')
    ctx.traces_validated(nreg)

    phase('fine')
    # ---- 3. Forward: SSH connection loss at every step index ----------------
    cut_src = [t for t in all_traces
               if not any(l[0] == 'CUT' for l, _ in t[3]) and len(t[3]) >= 6]
    rnd.shuffle(cut_src)
    ncut = 0
    for idx, (kl, kr, _, tr) in enumerate(cut_src[:(14 if quick else 120)]):
        has_lsn = any(l[0] == 'LSN' for l, _ in tr)
        kinds = [k for k in F.FINE_KINDS
                 if not (has_lsn and k in F.REMOTE_KINDS)]
        kind = kinds[idx % len(kinds)]
        for k in range(len(tr) + 1):
            how = ['cutc', 'cuts', 'close'][(k + idx) % 3]
            kw = dict(kind=kind, keep_l=kl, keep_r=kr, finish=how, cut_at=k)
            r = F.replay(tr, **kw)
            ncut += 1
            ctx.count(('cut', kind, how, k, compact(r['script'])))
            judge_forward(ctx, finds, r,
                          {'kind': 'forward-labels', 'world':
                           {kk: v for kk, v in kw.items() if kk != 'cut_at'},
                           'labels': r['script']}, 'cut')
    ctx.traces_validated(ncut)

    phase('cut')
    # ---- 4. Forward: coarse replay on every kind, bulk, isolation -----------
    all_kinds = F.FINE_KINDS + F.DIRECT_KINDS
    coarse_src = list(all_traces)
    rnd.shuffle(coarse_src)
    ncoarse = 0
    seen_c = set()
    variants = [((1, 70000, 300), None, None), ((3, 17, 5), 1, None),
                ((40000, 1, 66000), 4093, None),
                ((9000, 70000, 300), None, (4096, 1024)),
                ((20000, 700, 33000), 1500, (1000, 300))]
    coarse_src = [(kl, kr, 0, tr) for kl, kr, _, tr in coarse_src]
    coarse_src += [(kl, kr, 0, tr) for kl, kr, _, tr in windowed]
    rnd.shuffle(coarse_src)
    for idx, (kl, kr, _, tr) in enumerate(coarse_src[:(270 if quick else 3000)]):
        labels = [l for l in labels_of(tr) if l[0] in 'WECX' or l[0] == 'LSN']
        kind = all_kinds[idx % len(all_kinds)]
        sizes, chunk, window = variants[idx % len(variants)]
        key = (kind, kl, kr, tuple(labels), sizes, window)
        if key in seen_c or len(labels) < 2:
            continue
        seen_c.add(key)
        kw = dict(kind=kind, keep_l=kl, keep_r=kr, sizes=sizes, chunk=chunk,
                  window=window, finish=['close', 'cutc', 'cuts'][idx % 3])
        r = F.replay_coarse(labels, **kw)
        ncoarse += 1
        ctx.count(('coarse', kind, kl, kr, compact(r['script']), sizes))
        if idx == 5:
            ctx.sample({'module': 'Forward', 'mode': 'coarse', **kw,
                        'schedule': compact(r['script']),
                        'observed': r.get('obs')})
        judge_forward(ctx, finds, r, {'kind': 'forward-coarse', 'world': kw,
                                      'labels': r['script']}, 'coarse')
    ctx.traces_validated(ncoarse)
    for kind in all_kinds:
        for paused, chunk, nbytes in [('R', None, 3 << 20), ('L', 1000, 1 << 20)]:
            if quick and kind not in ('local', 'remote', 'socks5', 'direct') \
                    and paused == 'L':
                continue
            r = F.bulk_case(kind, nbytes=nbytes, paused=paused, chunk=chunk)
            ctx.count(('bulk', kind, paused))
            r['script'] = [['bulk', kind, paused]]
            judge_forward(ctx, finds, r, {'kind': 'bulk', 'world':
                                          dict(kind=kind, paused=paused,
                                               chunk=chunk, nbytes=nbytes)},
                          'bulk')
    # several windows in the direction that keeps flowing after the other
    # was half-closed, with the half-closed end slow to read
    flow_windows = [(4096, 1024), (1000, 300), (32768, 32768)]
    nflow = 0
    for kind in all_kinds:
        for half in 'LR':
            if quick and kind in ('socks4', 'socks5h', 'socks5v6',
                                  'direct_unix') and half == 'R':
                continue
            window = flow_windows[nflow % len(flow_windows)]
            if nflow % 3 == 1:
                # everything the answering end wrote fits into the channel
                # window: it is all parked behind the paused relay when the
                # EOF and the CLOSE arrive
                window = (1 << 20, 32768)
            kw = dict(kind=kind, window=window, half=half,
                      slow=nflow % 4 != 3,
                      close_while_paused=nflow % 3 == 1,
                      chunk=None if nflow % 2 else 777)
            r = F.flow_case(**kw)
            nflow += 1
            ctx.count(('flow', kind, half, window))
            judge_forward(ctx, finds, r, {'kind': 'flow', 'world': kw},
                          'flow')
    ctx.traces_validated(nflow)
    for kind in F.FINE_KINDS:
        r = F.isolation_case(kind)
        ctx.count(('isolation', kind))
        r['script'] = [['isolation', kind]]
        judge_forward(ctx, finds, r, {'kind': 'isolation',
                                      'world': dict(kind=kind)}, 'isolation')

    phase('coarse')
    # ---- 4b. Listeners: several listeners on one connection ----------------

    def judge_listeners(r, rp):
        for clause, detail, key in r['l1']:
            finds.add('Listeners', clause, key,
                      f'{detail}; schedule {" ".join(r["script"])}', rp,
                      len(r['script']))
        for e in r.get('loop_exceptions', []):
            finds.add('Listeners', 'Exception', e[:60],
                      f'exception reached the event loop: {e}; schedule '
                      f'{" ".join(r["script"])}', rp, len(r['script']))
        if not r['l1'] and r.get('diverged'):
            ctx.divergence(f'Listeners: {r["diverged"]} schedule='
                           f'{" ".join(r["script"])}')

    nlsn = 0
    seen_l = set()
    for j in lsims:
        for tr in j.traces:
            labels = [l for l, _ in tr]
            nconnect = sum(1 for l in labels if l[0] in ('connect', 'cclosed'))
            key = json.dumps(labels, sort_keys=True)
            if key in seen_l or nconnect < 2:
                continue
            seen_l.add(key)
            variant = nlsn % 2
            r = F.replay_listeners(tr, nslots=4, dst_variant=variant)
            nlsn += 1
            ctx.count(('listeners', key, variant))
            if nlsn == 7:
                ctx.sample({'module': 'Listeners', 'schedule': r['script']})
            judge_listeners(r, {'kind': 'listeners', 'labels': labels,
                                'dst_variant': variant})
    ctx.require(nlsn >= 50, f'only {nlsn} distinct listener behaviours')
    for name, labels in LSN_REGRESSIONS:
        for variant in (0, 1):
            r = F.replay_listeners(labels, nslots=4, dst_variant=variant)
            nlsn += 1
            ctx.count(('listeners-regression', name, variant))
            judge_listeners(r, {'kind': 'listeners', 'labels': labels,
                                'dst_variant': variant})
    ctx.traces_validated(nlsn)
    phase('listeners')
    if not quick:
        # real loopback TCP / UNIX sockets on the real selector loop
        os.makedirs(tlc.WORK, exist_ok=True)
        for kind, pattern, l1, err in F.real_loop_cases(tlc.WORK):
            ctx.count(('real-loop', kind, pattern))
            for clause, detail in l1:
                finds.add('Forward', clause, f'real-loop {kind} {pattern}',
                          f'{detail} (real sockets, {kind}, {pattern})',
                          {'kind': 'real-loop', 'world':
                           dict(kind=kind, pattern=pattern)}, 1)
            if err:
                ctx.divergence(f'real-loop scenario {kind}/{pattern} did not '
                               f'complete: {err}')
        ctx.traces_validated(12)

    # ---- 4e. asynchronous listener creation vs. connection end -------------
    def judge_la(r, rp):
        for clause, detail, cause in r['l1']:
            finds.add('ListenAsync', clause, cause,
                      f'{detail}; schedule {" ".join(r["script"])}', rp,
                      len(r['script']))
        for e in r.get('loop_exceptions', []):
            finds.add('ListenAsync', 'Exception', e[:60],
                      f'exception reached the event loop: {e}; schedule '
                      f'{" ".join(r["script"])}', rp, len(r['script']))
        if not r['l1'] and r.get('diverged'):
            ctx.divergence(f'ListenAsync: {r["diverged"]} schedule='
                           f'{" ".join(r["script"])}')

    nla = 0
    seen_a = set()
    for j in asims:
        for tr in j.traces:
            labels = [l for l, _ in tr]
            key = json.dumps(labels, sort_keys=True)
            if key in seen_a or len(labels) < 3:
                continue
            seen_a.add(key)
            r = F.replay_listen_async(tr)
            nla += 1
            ctx.count(('listen-async', key))
            if nla == 4:
                ctx.sample({'module': 'ListenAsync', 'schedule': r['script']})
            judge_la(r, {'kind': 'listen-async', 'labels': labels})
    for labels in LA_REGRESSIONS:
        r = F.replay_listen_async(labels)
        nla += 1
        ctx.count(('listen-async-regression', json.dumps(labels)))
        judge_la(r, {'kind': 'listen-async', 'labels': labels})
    ctx.traces_validated(nla)
    phase('listen-async')

    # ---- 4f. a listen host that resolves to several addresses ---------------
    def judge_ma(r, rp):
        for clause, detail, cause in r['l1']:
            finds.add('ListenAddrs', clause, cause,
                      f'{detail}; schedule {" ".join(r["script"])}', rp,
                      len(r['script']))
        for e in r.get('loop_exceptions', []):
            finds.add('ListenAddrs', 'Exception', e[:60],
                      f'exception reached the event loop: {e}; schedule '
                      f'{" ".join(r["script"])}', rp, len(r['script']))
        if not r['l1'] and r.get('diverged'):
            ctx.divergence(f'ListenAddrs: {r["diverged"]} schedule='
                           f'{" ".join(r["script"])}')

    nma = 0
    seen_m = set()
    for j in msims:
        for tr in j.traces:
            labels = [l for l, _ in tr]
            key = json.dumps(labels, sort_keys=True)
            if key in seen_m or len(labels) < 2:
                continue
            seen_m.add(key)
            r = F.replay_listen_addrs(tr)
            nma += 1
            ctx.count(('listen-addrs', key))
            if nma == 3:
                ctx.sample({'module': 'ListenAddrs', 'schedule': r['script']})
            judge_ma(r, {'kind': 'listen-addrs', 'labels': labels})
    for labels in MA_REGRESSIONS:
        r = F.replay_listen_addrs(labels)
        nma += 1
        ctx.count(('listen-addrs-regression', json.dumps(labels)))
        judge_ma(r, {'kind': 'listen-addrs', 'labels': labels})
    ctx.traces_validated(nma)
    phase('listen-addrs')

    # ---- 4d. X11 forwarding ------------------------------------------------
    os.makedirs(tlc.WORK, exist_ok=True)

    def judge_x11(r, rp):
        for clause, detail, cause in r['l1']:
            finds.add('X11', clause, cause,
                      f'{detail}; schedule {" ".join(r["script"])}', rp,
                      len(r['script']))
        for e in r.get('loop_exceptions', []):
            finds.add('X11', 'Exception', e[:60],
                      f'exception reached the event loop: {e}; schedule '
                      f'{" ".join(r["script"])}', rp, len(r['script']))
        if not r['l1'] and r.get('diverged'):
            ctx.divergence(f'X11: {r["diverged"]} schedule='
                           f'{" ".join(r["script"])}')

    nx11 = 0
    seen_x = set()
    for j in xsims:
        allows = j.consts['ServerAllows'] == 'TRUE'
        for tr in j.traces:
            labels = [l for l, _ in tr]
            key = json.dumps(labels)
            if key in seen_x or not any(l[0] == 'xconn' for l in labels):
                continue
            seen_x.add(key)
            kw = dict(server_allows=allows, unix_display=bool(nx11 % 2),
                      seed=ctx.seed + nx11)
            r = F.replay_x11(tr, tlc.WORK, **kw)
            nx11 += 1
            ctx.count(('x11', key, kw['unix_display']))
            if nx11 == 5:
                ctx.sample({'module': 'X11', 'schedule': r['script']})
            judge_x11(r, {'kind': 'x11', 'labels': labels, 'world': kw})
    ctx.require(nx11 >= 40, f'only {nx11} distinct X11 behaviours')
    for name, labels in X11_REGRESSIONS:
        for ud in (False, True):
            kw = dict(server_allows=True, unix_display=ud, seed=ctx.seed)
            r = F.replay_x11(labels, tlc.WORK, **kw)
            nx11 += 1
            ctx.count(('x11-regression', name, ud))
            judge_x11(r, {'kind': 'x11', 'labels': labels, 'world': kw})
    ctx.traces_validated(nx11)
    phase('x11')

    # ---- 4c. code -> spec: recorded natural runs validated by TLC ----------
    trace_validation(ctx, F, finds, quick, asis)
    phase('traces')

    # ---- 5. ForwardPerm: every row against a real server --------------------
    pj = jobmap['perm table']
    rows = [tlc.parse_value(tlc.parse_value(l)) for l in pj.res.printed
            if l.startswith('"<<')]
    rows = [r for r in rows if r and r[0] == 'ROW']
    ctx.require(len(rows) >= 400, f'perm table has only {len(rows)} rows')
    nserved = 0
    for _, row, decision, permitted in rows:
        listen = row['req'] in ('tcpip-forward', 'streamlocal-forward')
        for cancel in ([False, True] if decision == 'served' and listen
                       else [False]):
            o = F.perm_case(row, cancel)
            ctx.count(('perm', json.dumps(row, sort_keys=True), cancel),
                      nontrivial=True)
            rp = {'kind': 'perm', 'row': row, 'cancel': cancel}
            if decision == 'noauth':
                # the certificate's source-address does not match: no login
                if o['auth_ok']:
                    finds.add('ForwardPerm', 'ServedOnlyIfPermitted',
                              {'row': row}, 'login accepted although the '
                              'certificate\'s source-address does not match '
                              f'the client: {row}', rp, 1)
                continue
            ctx.require(o['auth_ok'], f'perm row {row}: {o["detail"]}')
            served = o['served'] or bool(o['dest_hits'])
            nserved += bool(o['served'])
            if served and not permitted:
                finds.add('ForwardPerm', 'ServedOnlyIfPermitted',
                          {'row': row},
                          f'request served although not permitted: {row} '
                          f'(destination connections: {o["dest_hits"]}, '
                          f'{o["detail"]})', rp, 1)
            elif permitted and not o['served']:
                ctx.divergence(f'perm row {row}: permitted but not served '
                               f'({o["detail"]})')
            want_hit = 'unix' if 'streamlocal' in row['req'] else \
                ('permitted' if row['dest'] == 'alias' or listen
                 else row['dest'])
            if o['dest_hits'] and set(o['dest_hits']) != {want_hit}:
                finds.add('ForwardPerm', 'Destination', {'row': row},
                          f'connection made to {o["dest_hits"]} instead of '
                          f'{want_hit!r} (row {row})', rp, 1)
            if o['left']:
                finds.add('ForwardPerm', 'NoListenerLeft',
                          {'req': row['req'], 'cancel': cancel},
                          f'left after the connection ended: {o["left"]} '
                          f'(row {row}, cancel={cancel})', rp, 1)
            elif cancel and o['listener_after_cancel']:
                ctx.divergence(f'perm row {row}: listener still registered '
                               'after cancel')
            if permitted and listen and not o.get('listener_created'):
                ctx.divergence(f'perm row {row}: no listener registered')
            if o['exceptions']:
                finds.add('ForwardPerm', 'Exception', {'row': row},
                          f'exception reached the event loop: '
                          f'{o["exceptions"][0]} (row {row})', rp, 1)
            if len(ctx.coverage['samples']) < 5 and decision == 'served' \
                    and row['key'] != 'none' and row['cert'] != 'none':
                ctx.sample({'module': 'ForwardPerm', 'row': row,
                            'model': decision, 'observed':
                            {k: o[k] for k in ('served', 'dest_hits',
                                               'app_calls', 'detail')}})
    ctx.require(nserved >= 80 or ctx.divergences or finds.groups,
                f'only {nserved} perm rows were served: the positive side of '
                'the table is not exercised')
    ctx.traces_validated(len(rows))

    phase('perm')
    # ---- 6. Socks: one input per reachable parser state ---------------------
    sj = jobmap['socks parser + case table']
    cases = [tlc.parse_value(tlc.parse_value(l)) for l in sj.res.printed
             if l.startswith('"<<')]
    cases = [c for c in cases if c and c[0] == 'S']
    ctx.require(len(cases) >= 1500, f'socks table has only {len(cases)} rows')

    def data_of(inp):
        return b''.join(bytes((b,)) * k for b, k in inp)

    def overlong_cut(inp, st):
        """offset after a run that overflowed a NUL-terminated field"""
        if not st['closed'] or not inp or inp[-1][1] <= 1:
            return None
        return len(data_of(inp))

    # always: the minimal known inputs first (stable signatures)
    pending = {'replies': b'', 'connect': None, 'out': b'', 'closed': False}
    fixed_inputs = [
        (bytes.fromhex('0500'), None),
        (bytes.fromhex('04'), pending),
        (bytes.fromhex('0402') + bytes.fromhex('04011b587f00000100'), None),
        (bytes.fromhex('0600') + bytes.fromhex('050100'), None),
    ]
    if quick:
        # states in which the parser waits (every prefix of every request)
        # are cheap and numerous: take a stride of them, and all outcomes
        final = [c for c in cases if c[2]['st'] in ('connected', 'closed')]
        rest = [c for c in cases if c[2]['st'] not in ('connected', 'closed')]
        rnd.shuffle(final)
        rnd.shuffle(rest)
        chosen = final[:240] + rest[:90]
    else:
        chosen = cases
    sw = F.SocksWorld()
    nsocks = 0
    socks_bad = {}
    try:
        def feed(data, want, ol, label):
            nonlocal sw, nsocks
            segs = F.socks_segmentations(data, thorough=not quick)
            if quick and len(segs) > 7:
                keep = segs[:1] + segs[-1:] + rnd.sample(segs[1:-1], 5)
                segs = keep
            if ol is not None and 0 < ol < len(data):
                segs.append((f'split@{ol}', [data[:ol], data[ol:]]))
            for name, chunks in segs:
                loose = ol is not None and not (len(chunks) == 2 and
                                                len(chunks[0]) == ol)
                obs = sw.run_case(chunks)
                nsocks += 1
                if want is None:
                    l1 = [('ParseAfterClose' if obs['closed'] else 'Exception',
                           f'exception reached the event loop: {e}')
                          for e in obs['exceptions'][:1]]
                    div = None
                else:
                    l1, div = F.socks_judge(obs, want, loose)
                for clause, detail in l1:
                    cur = socks_bad.get(clause)
                    if cur is None or len(data) < len(cur[0]):
                        socks_bad[clause] = (data, name, detail,
                                             (cur[3] if cur else 0) + 1)
                    else:
                        socks_bad[clause] = cur[:3] + (cur[3] + 1,)
                if div and not l1:
                    ctx.divergence(f'Socks input {data[:40].hex()} ({name}): '
                                   f'{div}')
                if div or any(c != 'Released' for c, _ in l1):
                    sw.stop()
                    sw = F.SocksWorld()
                elif l1:
                    sw.drop_leaked()
        for data, want in fixed_inputs:
            feed(data, want, None, 'fixed')
            ctx.count(('socks', data.hex()))
        for _, inp, st in chosen:
            data = data_of(inp)
            if not data:
                continue
            want = F.socks_expected(st)
            feed(data, want, overlong_cut(inp, st), 'table')
            ctx.count(('socks', data[:64].hex(), len(data)),
                      nontrivial=st['st'] in ('connected', 'closed'))
            if st['st'] == 'connected' and st['host']['kind'] == 'name' and \
                    len(ctx.coverage['samples']) < 6:
                ctx.sample({'module': 'Socks', 'input': data[:48].hex(),
                            'model': {'connect': want['connect'],
                                      'replies': want['replies'].hex()}})
    finally:
        sw.stop()
    ctx.traces_validated(nsocks)
    for clause, (data, name, detail, nfail) in sorted(socks_bad.items()):
        sig = {'input': data.hex()}
        if clause == 'Released' and 'middle of its request' in detail:
            sig['cause'] = 'client-eof-during-request'
        finds.add('Socks', clause, sig,
                  f'{detail}; input {data.hex()} ({name}); {nfail} failing '
                  'feed(s) with this clause', {'kind': 'socks',
                                               'input': data.hex(),
                                               'segmentation': name}, 1)

    phase('socks')
    finds.report()
    ctx.assumptions += [
        'application sockets are in-memory stream transports with TCP '
        'semantics: close() of an end is seen by the forwarder as EOF, a '
        'reset as connection_lost(exc); writes to a closed peer are dropped '
        'silently (no RST on write)',
        'run-to-completion scheduling: one application action or one channel '
        'message, then the loop runs until idle',
        'data units < 32 KiB in fine mode so that one write is one '
        'CHANNEL_DATA message; larger units / odd segmentation only in '
        'coarse mode',
        'forward listeners bind a real loopback socket (port reservation); '
        'connections to it are in-memory',
        'packet types of channel messages in flight are read from the '
        'asyncssh._verif pkt_out hook (conformance only, not verdicts)',
    ]


TRACE_DIAG = ['DiagOut', 'DiagSock', 'DiagPair', 'DiagChs', 'DiagChr',
              'DiagBuf', 'DiagFeof', 'DiagCeof', 'DiagOutb', 'DiagCut']
TRACE_MODES = ['mixed', 'whole', 'tiny', 'mixed nocut', 'stall whole',
               'tiny noreset']


def trace_consts(asis, **kw):
    d = dict(FWD_DEFAULT, MaxW=200, Keeps='{"TT"}', **asis)
    d.update(kw)
    return d


def trace_validation(ctx, F, finds, quick, asis):
    """CODE -> SPEC: forwarded connections recorded from naturally scheduled
    runs (independent tasks at the four ends, random segmentation and
    stalls, early data, refusals, resets, SSH cut, listener close; one or
    two connections at a time; every kind) are validated by TLC against
    Forward.tla (ForwardTrace.tla); the C20 invariants are evaluated in
    every recorded state.  Corrupted copies and a spec with a wrong rule
    must be rejected."""
    import copy
    nruns = 42 if quick else 800
    recs, traces, owner = [], [], []
    early = []
    for i in range(nruns):
        args = dict(seed=ctx.seed * 7919 + i,
                    kind=F.NAT_KINDS[i % len(F.NAT_KINDS)],
                    nconn=2 if i % 3 == 2 else 1,
                    mode=TRACE_MODES[(i // 2) % len(TRACE_MODES)])
        r = F.record_natural(**args)
        st = r['stats']
        ctx.count(('natural', args['kind'], args['nconn'], args['mode'], i),
                  nontrivial=st['events'] >= 8)
        rp = {'kind': 'natural', **args}
        for clause, detail in r['l1']:
            finds.add('ForwardTrace', clause, 'natural',
                      f'{detail} (recorded run {args})', rp, 1)
        for e in r['loop_exceptions']:
            finds.add('ForwardTrace', 'Exception', e[:60],
                      f'exception reached the event loop: {e} '
                      f'(recorded run {args})', rp, 1)
        if r['outcome'] != 'ok':
            ctx.divergence(f'natural run {args}: {r["outcome"]}')
        for t in r['traces']:
            if t['stray']:
                ctx.divergence(f'natural run {args}: messages sent outside '
                               f'any step: {t["stray"][:3]}')
            tr = {'ev': t['ev'], 'usz': t['usz']}
            first_dao = next((e for e in t['ev'] if e['e'] == 'DAO'), None)
            if len(early) < 3 and not r['l1'] and first_dao is not None \
                    and any(o[0] == 'data' for o in first_dao['out']):
                early.append(tr)        # early data flushed at confirmation
            traces.append(tr)
            owner.append(args)
    # the same natural scheduling with small channel windows (flow control,
    # WINDOW_ADJUST, paused relays): judged by the monitors on the recording
    # only - Forward.tla's window is counted in packets, not bytes
    for i in range(12 if quick else 300):
        args = dict(seed=ctx.seed * 104729 + i,
                    kind=F.NAT_KINDS[i % len(F.NAT_KINDS)],
                    nconn=2 if i % 3 == 2 else 1,
                    mode=TRACE_MODES[(i // 2) % len(TRACE_MODES)] + ' big',
                    window=[(4096, 1024), (1000, 300), (700, 700)][i % 3])
        r = F.record_natural(**args)
        ctx.count(('natural-window', args['kind'], args['nconn'], i))
        rp = {'kind': 'natural', **args}
        for clause, detail in r['l1']:
            finds.add('ForwardTrace', clause, 'natural-window',
                      f'{detail} (recorded run {args})', rp, 1)
        for e in r['loop_exceptions']:
            finds.add('ForwardTrace', 'Exception', e[:60],
                      f'exception reached the event loop: {e} '
                      f'(recorded run {args})', rp, 1)
        if r['outcome'] != 'ok':
            ctx.divergence(f'natural run {args}: {r["outcome"]}')
    if traces:
        big = max(traces, key=lambda t: len(t['ev']))
        ctx.notes.append({'recorded_trace_sample': big['ev'][:6]})
    res, verdicts = tlc.validate_traces(
        SPEC, 'ForwardTrace', traces, 'c20_tr', constants=trace_consts(asis),
        diag=TRACE_DIAG, progress='TraceProgress', report='TraceReport')
    ctx.add_tlc('ForwardTrace: recorded executions', res)
    if res.violation:
        finds.add('ForwardTrace', 'Invariant', res.violation,
                  f'invariant {res.violation} fails on a recorded execution: '
                  + res.output[-1200:], {'kind': 'natural-batch',
                                         'args': owner[:50]}, 1)
        return
    if res.error:
        raise MachineryError(f'ForwardTrace: {res.error}\n' +
                             res.output[-3000:])
    matched = 0
    good = []
    for i, v in sorted(verdicts.items()):
        matched += v['matched']
        if not v['accepted']:
            ctx.divergence(f'recorded execution {owner[i]} is not a '
                           f'behaviour of Forward.tla: {v["diagnosis"]}')
        elif len(good) < 3 and len(traces[i]['ev']) >= 12 and \
                any(e['e'] == 'DAO' and e['out'] == [] and
                    e['st']['outb'] > 0 for e in traces[i]['ev']) and \
                traces[i]['ev'][-1]['e'] != 'CUT':
            good.append(traces[i])
    ctx.coverage['recorded_traces_validated_by_tlc'] = len(verdicts)
    ctx.coverage['recorded_events_matched'] = matched
    ctx.traces_validated(len(verdicts))
    # ---- binding controls ---------------------------------------------------
    if ctx.divergences or finds.groups:
        ctx.notes.append('trace binding controls skipped: recorded traces '
                         'were rejected / flagged')
        return
    ctx.require(len(good) == 3 and early,
                'no suitable recorded traces for the binding controls')
    bad = []
    t = copy.deepcopy(good[0])
    i = [k for k, e in enumerate(t['ev']) if e['e'] == 'DAO' and
         e['st']['outb'] > 0][0]
    t['ev'][i]['st']['outb'] += 1
    bad.append(('bytes handed to the application corrupted', t))
    t = copy.deepcopy(good[1])
    i = [k for k, e in enumerate(t['ev']) if e['e'] == 'DAO'][0]
    del t['ev'][i]
    bad.append(('confirmation receipt removed', t))
    t = copy.deepcopy(good[2])
    i = [k for k, e in enumerate(t['ev']) if e['e'] == 'W' and e['out']][0]
    t['ev'][i]['out'][0][1] += 1
    bad.append(('relayed message one byte longer', t))
    t = copy.deepcopy(good[0])
    i = [k for k, e in enumerate(t['ev']) if e['e'] in ('E', 'C') and
         not e['late']]
    if i:
        t['ev'][i[0]]['st']['feof'] = False
        bad.append(('EOF flag corrupted', t))
    res2, v2 = tlc.validate_traces(
        SPEC, 'ForwardTrace', [b[1] for b in bad], 'c20_tr_neg',
        constants=trace_consts(asis), progress='TraceProgress',
        report='TraceReport')
    for i, (what, _) in enumerate(bad):
        ctx.require(i in v2 and not v2[i]['accepted'],
                    f'binding control "{what}" was accepted by ForwardTrace')
    res3, v3 = tlc.validate_traces(
        SPEC, 'ForwardTrace', early, 'c20_tr_sens',
        constants=trace_consts(asis, DropEarly='TRUE'), invariants=(),
        progress='TraceProgress', report='TraceReport')
    ctx.require(v3 and not any(v['accepted'] for v in v3.values()),
                'a spec that drops early data accepted a recorded trace with '
                'early data')
    ctx.notes.append(f'trace binding controls: {len(bad)} corrupted traces '
                     f'and {len(early)} traces against a wrong rule rejected')


def replay_one(ctx, F, finds):
    with open(ctx.replay_path) as f:
        rec = json.load(f)
    rp = rec.get('replay') or {}
    kind = rp.get('kind')
    if kind == 'forward-labels':
        r = F.run_labels(rp['labels'], **rp['world'])
        judge_forward(ctx, finds, r, rp, 'replay')
    elif kind == 'forward-coarse':
        r = F.replay_coarse([tuple(l) for l in rp['labels']], **rp['world'])
        judge_forward(ctx, finds, r, rp, 'replay')
    elif kind == 'socks':
        data = bytes.fromhex(rp['input'])
        sw = F.SocksWorld()
        try:
            obs = sw.run_case([data])
        finally:
            sw.stop()
        if obs['exceptions']:
            finds.add('Socks', 'ParseAfterClose' if obs['closed'] else
                      'Exception', {'input': data.hex()},
                      f'exception reached the event loop: '
                      f'{obs["exceptions"][0]}', rp, 1)
    elif kind == 'x11':
        os.makedirs(tlc.WORK, exist_ok=True)
        r = F.replay_x11([tuple(l) for l in rp['labels']], tlc.WORK,
                         **rp['world'])
        for clause, detail, cause in r['l1']:
            finds.add('X11', clause, cause, detail, rp, 1)
    elif kind == 'natural':
        args = {k: rp[k] for k in ('seed', 'kind', 'nconn', 'mode', 'window')
                if k in rp}
        if args.get('window'):
            args['window'] = tuple(args['window'])
        r = F.record_natural(**args)
        for clause, detail in r['l1']:
            finds.add('ForwardTrace', clause, 'natural', detail, rp, 1)
    elif kind == 'listen-addrs':
        r = F.replay_listen_addrs([tuple(l) for l in rp['labels']])
        for clause, detail, cause in r['l1']:
            finds.add('ListenAddrs', clause, cause, detail, rp, 1)
    elif kind == 'listen-async':
        r = F.replay_listen_async([tuple(l) for l in rp['labels']])
        for clause, detail, cause in r['l1']:
            finds.add('ListenAsync', clause, cause, detail, rp, 1)
    elif kind == 'flow':
        kw = dict(rp['world'])
        kw['window'] = tuple(kw['window'])
        r = F.flow_case(**kw)
        judge_forward(ctx, finds, r, rp, 'replay')
    elif kind == 'listeners':
        labels = [tuple(l) for l in rp['labels']]
        r = F.replay_listeners(labels, nslots=4,
                               dst_variant=rp.get('dst_variant', 0))
        for clause, detail, key in r['l1']:
            finds.add('Listeners', clause, key, detail, rp, 1)
    elif kind == 'perm':
        o = F.perm_case(rp['row'], rp.get('cancel', False))
        print('observed:', {k: o[k] for k in ('served', 'dest_hits', 'left',
                                              'detail', 'exceptions')})
    else:
        raise MachineryError(f'cannot replay {kind!r}')
    ctx.count(('replay', kind))
    finds.report()


if __name__ == '__main__':
    run_check('C20', main)
