"""X08 (extra module) - KexGex: parameter negotiation of
diffie-hellman-group-exchange (kex_dh.py _KexDHGex, RFC 4419 and the old
one-number request).

1. TLC evaluates specs/Handshake/KexGex.tla: the server's choice of a group
   for every request (min, n, max over eight size classes incl. min > n,
   n > max, below 1024, above 8192; old style) and three group sets; the
   client's decision on every offered group (size below / inside / above
   its bounds, p even, p = 1, g in {0, 1, p-1}); the range of e / f.  Seven
   wrong variants (NoUpperBoundCheck, PreferredIgnored, MinIgnored,
   FallbackSmallest, ClientNoBounds, ClientNoDegenerate, RangeInclusive)
   must each be rejected.
2. Every row is run through a real client / real server pair: the parsing
   MITM puts the row's request on the wire and reads the group the server
   answers; the server's group table is replaced to offer the row's group to
   the real client; e / f are replaced in flight; edits of min, n, max, p, g
   in flight must fail (HashCoversNegotiation).
"""

import json
import os
import random
import warnings

from harness import tlc
from harness.framework import run_check, MachineryError, VERIF

SPEC = os.path.join(VERIF, 'specs', 'Handshake')
SIZES = '{512, 1024, 1500, 2048, 3000, 4096, 8192, 16384}'
OFFER_QUICK = '{512, 768, 1024, 2048, 4096}'
OFFER_FULL = '{512, 768, 1024, 2048, 4096, 8192}'
GROUPSETS = ('{{1024, 2048, 3072, 4096, 6144, 8192}, {2048}, '
             '{4096, 8192}}')
INVS = ['ServerPicksWithinBounds', 'ClientRefusesOutOfBounds',
        'PeerValueRange']
VARIANTS = [('NoUpperBoundCheck', 'ServerPicksWithinBounds'),
            ('PreferredIgnored', 'ServerPicksWithinBounds'),
            ('MinIgnored', 'ServerPicksWithinBounds'),
            ('FallbackSmallest', 'ServerPicksWithinBounds'),
            ('ClientNoBounds', 'ClientRefusesOutOfBounds'),
            ('ClientNoDegenerate', 'ClientRefusesOutOfBounds'),
            ('RangeInclusive', 'PeerValueRange')]


def run(ctx, name, mode='rule', emit=False, expect=None, invs=INVS):
    OFFER = OFFER_QUICK if ctx.tier == 'quick' else OFFER_FULL
    tag = f'x08_{name}_{os.getpid()}'
    cfg = f'_{tag}.cfg'
    with open(os.path.join(SPEC, cfg), 'w') as f:
        f.write(f'CONSTANTS\n  Sizes = {SIZES}\n  OfferSizes = {OFFER}\n'
                f'  GroupSets = {GROUPSETS}\n  Mode = "{mode}"\n'
                f'  Emit = {"TRUE" if emit else "FALSE"}\n'
                'SPECIFICATION Spec\nCHECK_DEADLOCK FALSE\n' +
                ''.join(f'INVARIANT {i}\n' for i in invs) +
                ('INVARIANT Emitted\n' if emit else ''))
    try:
        res = tlc.run(SPEC, 'KexGex', cfg, tag, workers=1 if emit else 4,
                      timeout=900)
    finally:
        tlc.cleanup(tag)
        os.remove(os.path.join(SPEC, cfg))
    ctx.require_tlc_ok(f'KexGex {name}', res, expect_violation=expect)
    return res


def main(ctx):
    warnings.filterwarnings('ignore')
    from harness.drivers import kexgex as K
    from harness.drivers import handshake as H
    quick = ctx.tier == 'quick'
    rnd = random.Random(ctx.seed + 8)

    # ---- 1. the model ----------------------------------------------------
    for mode, inv in VARIANTS:
        run(ctx, f'variant_{mode}', mode=mode, expect=inv, invs=[inv])
    res = run(ctx, 'rule', emit=True)
    rows = []
    for v in H.printed_cases(res.output, 'row'):
        rows.append(dict(kind=v[1], style=v[2], mn=v[3], n=v[4], mx=v[5],
                         groups=sorted(v[6]['$set']), bits=v[7], pk=v[8],
                         gk=v[9], vk=v[10], pick=v[11], accept=v[12],
                         inrange=v[13]))
    ctx.require(len(rows) > 500, f'too few rows from TLC: {len(rows)}')
    picks = [r for r in rows if r['kind'] == 'pick']
    accepts = [r for r in rows if r['kind'] == 'accept']
    ranges = [r for r in rows if r['kind'] == 'range']
    tally = {}

    def t(key):
        tally[key] = tally.get(key, 0) + 1

    if ctx.replay_path:
        with open(ctx.replay_path) as f:
            rp = json.load(f)['replay']
        picks = [rp['row']] if rp['row']['kind'] == 'pick' else []
        accepts = [rp['row']] if rp['row']['kind'] == 'accept' else []
        ranges = [rp['row']] if rp['row']['kind'] == 'range' else []
    elif quick:
        rnd.shuffle(picks)
        # requests that are in order first, a sample of the others
        picks = [r for r in picks if r['pick'] == 0][:150] + \
            [r for r in picks if r['pick'] != 0][:330]

    # ---- 2a. the server's choice ------------------------------------------
    for r in picks:
        got, o = K.server_pick(r['style'], r['mn'], r['n'], r['mx'],
                               r['groups'])
        want = r['pick']
        ctx.count(('pick', r['style'], r['mn'], r['n'], r['mx'],
                   str(r['groups'])))
        t(('pick', 'as the rule' if got == want else 'other'))
        if got != want:
            lo = 0 if r['style'] == 'old' else r['mn']
            how = ('a group above max' if got > r['mx'] else
                   'a group below min' if got and got < lo else
                   'no group' if not got else 'another group')
            if want == 0:
                how = 'no acceptable group exists, offered ' + how
            ctx.violation(
                {'module': 'KexGex', 'rule': 'ServerPicksWithinBounds',
                 'how': how},
                f'request ({r["style"]}) min={r["mn"]} n={r["n"]} '
                f'max={r["mx"]}, server groups {r["groups"]}: the server '
                f'answered a {got}-bit group, the rule says '
                f'{want or "fail"}', replay={'row': r})
        if o.loop_exceptions:
            ctx.divergence(f'pick {r}: {o.loop_exceptions[0][:120]}')

    # ---- 2b. what the client does with an offered group --------------------
    for r in accepts:
        o = K.client_accept(r['bits'], r['pk'], r['gk'])
        ctx.count(('accept', r['bits'], r['pk'], r['gk']))
        done = o.completed and o.sid_c == o.sid_s and o.echo == 'pong:ping'
        t(('accept', r['accept'], done))
        if done and not r['accept']:
            how = ('below the minimum the client asked for'
                   if r['bits'] < r['mn'] else
                   'above the maximum' if r['bits'] > r['mx'] else
                   'degenerate p or g')
            ctx.violation(
                {'module': 'KexGex', 'rule': 'ClientRefusesOutOfBounds',
                 'how': how},
                f'the client asked for min={r["mn"]} n={r["n"]} '
                f'max={r["mx"]}, was offered p of {r["bits"]} bits '
                f'({r["pk"]}), g {r["gk"]}, and completed the exchange',
                replay={'row': r})
        elif r['accept'] and not done:
            ctx.divergence(f'accept {r}: refused ({o.client_exc!r})')
        elif o.completed and o.sid_c != o.sid_s:
            ctx.violation({'module': 'KexGex', 'rule': 'AgreeOrFail'},
                          f'{r}: completed with different session ids',
                          replay={'row': r})

    # ---- 2c. range of the peer's public value ------------------------------
    for r in ranges:
        for field in ('e', 'f'):
            o = K.peer_value(field, r['vk'])
            ctx.count(('range', field, r['vk']))
            t(('range', r['vk'], o.completed))
            if r['vk'] == 'ok':
                if not o.completed:
                    ctx.divergence(f'unedited exchange failed: '
                                   f'{o.client_exc!r}')
            elif o.completed:
                ctx.violation(
                    {'module': 'KexGex', 'rule': 'PeerValueRange',
                     'value': r['vk'], 'field': field},
                    f'{field} = {r["vk"]} in flight and the exchange '
                    f'completed', replay={'row': r})

    # ---- 2d. min, n, max, p, g are in the exchange hash ---------------------
    if not ctx.replay_path:
        edits = [H.e_gexreq(i) for i in range(3)] + \
            [H.e_group('alt', i) for i in range(3)] + \
            [H.e_group('bad', i) for i in range(4)]
        msgs = ['GREQ'] * 3 + ['GGRP'] * 7
        for kex in [k for k in H.available_kex()
                    if H.family(k) == 'gex'][:2 if quick else None]:
            for m, fn in zip(msgs, edits):
                o = H.run_handshake(kex, edits=[{'msg': m, 'fn': fn,
                                                 'label': m}],
                                    run_command=False)
                ctx.count(('hash', kex, m, id(fn)))
                t(('hash', tuple(o.effects), o.completed))
                if o.completed and 'bound' in o.effects:
                    ctx.violation(
                        {'module': 'KexGex', 'rule': 'HashCoversNegotiation',
                         'msg': m},
                        f'{kex}: {m} altered in flight and the exchange '
                        f'completed', replay=None)
    ctx.traces_validated(sum(tally.values()))
    ctx.notes.append('outcomes: ' + ', '.join(
        f'{k}={v}' for k, v in sorted(tally.items(), key=str)))
    ctx.sample({'example rows': picks[:2] + accepts[:2]})
    ctx.assumptions += [
        'the server\'s configured group set is asyncssh.kex_dh.'
        '_dh_gex_groups, replaced by the harness for the row',
        'a p above 8192 bits is not offered to the client (no such prime '
        'at hand); sizes without a built-in group use a generated 512 / '
        '768-bit prime',
        'e / f boundary values are put on the wire by the MITM: such an '
        'exchange also fails at the exchange hash, so {1, p-1} being '
        'refused by the role itself is observed only through the error '
        'text, not judged',
    ]


if __name__ == '__main__':
    run_check('X08', main)
