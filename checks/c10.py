"""C10 - hostile input costs bounded work and fails cleanly.

What TLA+ decides here (specs/Hostile/Grammar.tla): (a) LoopProgress - every
iteration of every peer-driven loop consumes input or ends the loop, for
peer-controlled parameters 0..3 (the pre-repair _flush_send_buf must be
rejected), and CountBounded - a count-prefixed list (agent identities,
keyboard-interactive prompts/responses, EXT_INFO, SFTP names and extended
attributes on both sides) costs work bounded by the entries received, not by
the announced count (the error-swallowing variant must be rejected); (b) the complete structured case space: SSH messages as typed
field sequences with one field mutated to an extreme / inconsistent value,
cut after any field or with trailing bytes, in the phase where the endpoint
parses them, and DER trees with every length and tag form.  TLC enumerates
every derivation; each is turned into bytes and fed to the real endpoint /
parser under a meter.  "For every byte string" is not something a model
checker decides: the verdict per input comes from the harness (watchdog,
iteration and output budgets, event-loop exception handler, documented error
classes), hence level = exploration with a model-generated case space."""

import os
import random

from harness import tlc
from harness.framework import run_check, MachineryError, VERIF

SPEC = os.path.join(VERIF, 'specs', 'Hostile')


def cases(ctx, part, invariants=('Emit', 'LoopProgress'), expect=None):
    name = f'_c10_{part}.cfg'
    with open(os.path.join(SPEC, name), 'w') as f:
        f.write(f'CONSTANTS\n  Part = "{part}"\nSPECIFICATION Spec\n'
                f'CHECK_DEADLOCK FALSE\n' +
                ''.join(f'INVARIANT {i}\n' for i in invariants))
    rows, res = tlc.bfs_scripts(SPEC, 'Grammar', name, f'c10_{part}')
    ctx.require_tlc_ok(f'Grammar {part}', res, expect_violation=expect)
    tlc.cleanup(f'c10_{part}')
    os.remove(os.path.join(SPEC, name))
    return [r[0] for r in rows]


def scan_cases(ctx, quick, only=None):
    """Grammar part "scan": list imports of keys and certificates over every
    layout (item before, last item, what follows the last line): a value or
    KeyImportError within bounded CPU time (ScanProgress)."""
    import signal
    import asyncssh
    if only:                            # --replay of one recorded case
        rows = [only]
    else:
        rows = cases(ctx, 'scan', invariants=('Emit', 'ScanProgress'))
        ctx.require(len(rows) >= 1000, f'scan cases: {len(rows)}')
        cases(ctx, 'scan_zero_end', invariants=('ScanProgress',),
              expect='ScanProgress')
    key = asyncssh.generate_private_key('ssh-ed25519')
    cert = key.generate_user_certificate(key, 'user', principals=['user'])
    items = {'pubkey': key.export_public_key('openssh'),
             'cert': cert.export_certificate('openssh'),
             'garbage': b'this is not a key', 'blank': b'',
             'comment': b'# ssh-ed25519 AAAA',
             'pem': key.export_public_key('pkcs8-pem'),
             'rfc4716': key.export_public_key('rfc4716'),
             'privpem': key.export_private_key('pkcs8-pem')}
    items = {k: v.rstrip(b'\n') for k, v in items.items()}
    ends = {'lf': b'\n', 'crlf': b'\r\n', 'none': b'', 'space': b' '}
    os.makedirs(tlc.WORK, exist_ok=True)
    path = os.path.join(tlc.WORK, f'scan_{os.getpid()}.txt')
    funcs = {'pubkeys': lambda d: asyncssh.read_public_key_list(path),
             'certs': lambda d: asyncssh.read_certificate_list(path),
             'certs_data': asyncssh.load_certificates,
             'privkeys': lambda d: asyncssh.read_private_key_list(path)}

    class Spin(BaseException):
        pass

    def alarm(*_):
        raise Spin()

    outcomes = {}
    nbad = 0
    old = signal.signal(signal.SIGVTALRM, alarm)
    try:
        for f, i1, i2, e in sorted(map(tuple, rows)):
            data = (items[i1] + b'\n' if i1 != '-' else b'') + items[i2] + \
                ends[e]
            with open(path, 'wb') as fh:
                fh.write(data)
            signal.setitimer(signal.ITIMER_VIRTUAL, 3)
            try:
                out = ('value', len(funcs[f](data)))
            except Spin:
                out = ('spin',)
            except asyncssh.KeyImportError:
                out = ('KeyImportError',)
            except Exception as exc:    # pylint: disable=broad-except
                out = ('undocumented', type(exc).__name__)
            finally:
                signal.setitimer(signal.ITIMER_VIRTUAL, 0)
            ctx.count(('scan', f, i1, i2, e), nontrivial=True)
            outcomes[out[0]] = outcomes.get(out[0], 0) + 1
            if out[0] in ('spin', 'undocumented'):
                nbad += 1
                what = ('did not return within 3 s of CPU time' if
                        out[0] == 'spin' else f'raised {out[1]}')
                ctx.violation({'module': 'Grammar', 'part': 'scan', 'func': f,
                               'items': [i1, i2], 'end': e,
                               'outcome': out[0]},
                              f'list import {f} of a text with items '
                              f'[{i1}, {i2}] whose last line ends with '
                              f'{e!r}: {what}',
                              replay={'kind': 'scan', 'func': f, 'i1': i1,
                                      'i2': i2, 'end': e})
                if nbad >= 12:          # every spin costs the full watchdog
                    break
    finally:
        signal.signal(signal.SIGVTALRM, old)
        if os.path.exists(path):
            os.remove(path)
    ctx.coverage['scan_outcomes'] = outcomes
    ctx.require(only or nbad >= 12 or outcomes.get('value', 0) > 100 and
                outcomes.get('KeyImportError', 0) + outcomes.get('value', 0)
                > 500, f'scan part vacuous: {outcomes}')


def fields_of_spec():
    """The Fields table of the spec, parsed from the module text so that the
    templates of the driver are checked against it."""
    import re
    text = open(os.path.join(SPEC, 'Grammar.tla')).read()
    body = text[text.index('Fields =='):text.index('Mutations(kind)')]
    out = {}
    for m in re.finditer(r'(\w+) \|-> <<(.*?)>>', body, re.S):
        out[m.group(1)] = re.findall(r'"(\w+)"', m.group(2))
    return out


def main(ctx):
    from harness.drivers import hostile as H
    if ctx.replay_path:
        from checks import replay_mine
        H.FIELDS.update(fields_of_spec())
        ctx.level = 'exploration'
        return replay_mine.c10(ctx, H)
    ctx.level = 'exploration'
    quick = ctx.tier == 'quick'
    rnd = random.Random(ctx.seed)
    # ---- loops: progress ----
    loops = cases(ctx, 'loops')
    cases(ctx, 'loops_unfixed', expect='LoopProgress')
    ctx.require(len(loops) == 120, f'loop cases: {len(loops)}')
    # the key-list loop of the client's hostkeys-00 handler, on the real code
    from harness.drivers import countloops as CL0
    for loop_name, p_, a_ in loops:
        if loop_name != 'keylist':
            continue
        (outcome, detail, secs), exc = CL0.hostkeys_tail(p_, a_)
        ctx.count(('loop-keylist', p_, a_), nontrivial=a_ > 0)
        sig = {'module': 'Loops', 'loop': 'keylist', 'p': p_, 'avail': a_}
        rep_ = {'kind': 'keylist', 'p': p_, 'avail': a_}
        if outcome == 'hang' or secs > 1.5:
            ctx.violation(sig, f'hostkeys-00 key list with {a_} trailing '
                          f'byte(s) (parameter {p_}): {outcome} {detail} '
                          f'({secs:.1f} s)', replay=rep_)
        if exc:
            ctx.violation(dict(sig, loop_exc=True),
                          f'hostkeys-00 key list ({p_}, {a_}): exception '
                          f'reached the event loop: {exc[0]}', replay=rep_)
    # ---- count-prefixed lists ----
    from harness.drivers import countloops as CL
    counts = cases(ctx, 'counts', invariants=('Emit', 'CountBounded'))
    cases(ctx, 'counts_swallow', invariants=('CountBounded',),
          expect='CountBounded')
    ctx.require(len(counts) == 8 * 5 * 3, f'count cases: {len(counts)}')
    for site, cls, n in counts:
        r = CL.run_case(site, cls, n)
        ctx.count(('count', site, cls, n), nontrivial=cls != 'exact')
        sig = {'module': 'Counts', 'site': site, 'count': cls, 'present': n}
        rep = {'kind': 'count', 'site': site, 'count': cls, 'present': n}
        if r['outcome'] == 'hang' or r['seconds'] > 1.5:
            ctx.violation(sig, f'{site}: a list announcing '
                          f'{CL.count_value(cls, n)} entries with {n} present '
                          f'is not handled in bounded work: {r["outcome"]} '
                          f'{r["detail"]} ({r["seconds"]:.1f} s)', replay=rep)
        elif cls == 'exact' and r['outcome'] != 'ok':
            ctx.divergence(f'count case {site} exact {n}: well-formed list '
                           f'refused: {r["detail"]}')
        elif cls != 'exact' and r['outcome'] != 'error':
            ctx.divergence(f'count case {site} {cls} {n}: inconsistent list '
                           f'accepted: {r["detail"]}')
        if r['loop_exceptions']:
            ctx.violation(dict(sig, loop=True),
                          f'{site} {cls} {n}: exception reached the event '
                          f'loop: {r["loop_exceptions"][0]}', replay=rep)
    # ---- channel sizes announced by the peer x what its identity makes
    # the endpoint derive from them ----
    from harness.drivers import chan_raw
    sizes = cases(ctx, 'sizes', invariants=('Emit', 'SizeProgress'))
    cases(ctx, 'sizes_truthy', invariants=('SizeProgress',),
          expect='SizeProgress')
    ctx.require(len(sizes) == 2 * 4 * 4, f'size cases: {len(sizes)}')
    val = {'0': 0, '1': 1, '2': 2, 'max': 0xffffffff}
    for quirk, wc, pc in sizes:
        for case, bad in chan_raw.extreme_size_cases_one(quirk, val[wc],
                                                        val[pc]):
            ctx.count(('sizes', quirk, wc, pc),
                      nontrivial=True)
            case2, bad2 = chan_raw.extreme_size_cases_client(quirk, val[wc],
                                                             val[pc])
            ctx.count(('sizes-client', quirk, wc, pc), nontrivial=True)
            bad = bad + ['(client role) ' + b for b in bad2
                         if 'C10' in b.split(' ')[0]]
            mine = [b for b in bad if 'C10' in b]
            if mine:
                ctx.violation({'module': 'Sizes', 'quirk': quirk,
                               'window': wc, 'pktsize': pc},
                              f'peer {quirk} announcing window {val[wc]} and '
                              f'maximum packet size {val[pc]}: '
                              + '; '.join(mine[:2]),
                              replay={'kind': 'sizes', 'quirk': quirk,
                                      'window': val[wc], 'pktsize': val[pc]})
    # ---- a hostile server answering a want-reply channel request of the
    # client with something else ----
    replies = cases(ctx, 'replies', invariants=('Emit', 'WaiterResolved'))
    cases(ctx, 'replies_hang', invariants=('WaiterResolved',),
          expect='WaiterResolved')
    ctx.require(len(replies) == 5 * 6, f'reply cases: {len(replies)}')
    for kind, instead in replies:
        (outcome, detail, secs), exc = CL.reply_replaced(kind, instead)
        ctx.count(('reply', kind, instead), nontrivial=True)
        sig = {'module': 'Replies', 'request': kind, 'instead': instead}
        rep_ = {'kind': 'reply', 'request': kind, 'instead': instead}
        if outcome != 'ok' or secs > 1.5:
            ctx.violation(sig, f'client {kind} request answered with '
                          f'{instead}: {outcome} {detail} ({secs:.1f} s)',
                          replay=rep_)
        if exc:
            ctx.violation(dict(sig, loop=True),
                          f'client {kind} request answered with {instead}: '
                          f'exception reached the event loop: {exc[0]}',
                          replay=rep_)
    # ---- messages ----
    H.FIELDS.update(fields_of_spec())
    for name, (_, _, vals) in H.TEMPLATES.items():
        ctx.require(name in H.FIELDS and len(H.FIELDS[name]) == len(vals),
                    f'driver template {name} does not match the spec')
    msg = cases(ctx, 'msg')
    ctx.require(len(msg) > 500, f'message cases: {len(msg)}')
    if quick:
        rnd.shuffle(msg)
        keep, seen = [], set()
        for c in msg:                    # every (message, mutation kind) once
            k = (c[0], c[2])
            if k not in seen:
                seen.add(k)
                keep.append(c)
        msg = keep
    n = 0
    # channel requests are also sent pipelined behind requests that complete
    # asynchronously (they are then served from the channel's request queue)
    msg = [(a, b, c, False) for a, b, c in msg] + \
        [(a, b, c, True) for a, b, c in msg
         if H.TEMPLATES[a][1] in ('CH', 'CH0')]
    for name, idx, mut, piped in msg:
        bad, closed = H.run_msg_case(name, H.FIELDS[name], idx, mut,
                                     pipelined=piped)
        n += 1
        ctx.count(('msg', name, idx, mut, piped), nontrivial=True)
        if n % 61 == 1:
            ctx.sample({'message': name, 'field': idx, 'mutation': mut,
                        'connection_closed': closed})
        if bad:
            ctx.violation({'module': 'Grammar', 'message': name,
                           'field': idx, 'mutation': mut,
                           'pipelined': piped},
                          f'{name} field {idx} {mut}' +
                          (' (pipelined behind agent / X11 requests)'
                           if piped else '') + ': ' + '; '.join(bad[:2]),
                          replay={'kind': 'msg', 'message': name,
                                  'field': idx, 'mutation': mut,
                                  'pipelined': piped})
    # ---- DER ----
    der = cases(ctx, 'der')
    ctx.require(len(der) > 500, f'DER cases: {len(der)}')
    if quick:
        der = [c for c in der if len(c[2]) < 2] + \
            rnd.sample([c for c in der if len(c[2]) == 2], 60)
    for tag, lenform, kids in der:
        bad, out = H.run_der_case(tag, lenform, kids)
        ctx.count(('der', tag, lenform, str(kids)), nontrivial=True)
        if bad:
            ctx.violation({'module': 'Grammar', 'der': [tag, lenform,
                                                        str(kids)]},
                          '; '.join(bad[:2]),
                          replay={'kind': 'der', 'tag': tag,
                                  'lenform': lenform, 'kids': kids})
    # ---- raw byte streams at connection start ----
    streams = H.raw_stream_cases()
    for role in ('server', 'client'):
        for name, data in sorted(streams.items()):
            for chunk in ((0, 1) if len(data) <= 6000 else (0, 997)):
                if quick and chunk == 1 and len(data) > 600:
                    continue
                bad, closed = H.run_raw_stream(role, name, data, chunk)
                ctx.count(('raw', role, name, chunk), nontrivial=True)
                if bad:
                    ctx.violation({'module': 'RawStream', 'role': role,
                                   'input': name, 'chunk': chunk},
                                  f'{role} fed {name} (chunk {chunk}): ' +
                                  '; '.join(bad[:2]),
                                  replay={'kind': 'raw', 'role': role,
                                          'input': name, 'chunk': chunk})
    # seeded byte-level mutation of the structured inputs (plain robustness)
    import struct
    for i in range(40 if quick else 600):
        name, idx, mut, _ = rnd.choice(msg)
        from harness.drivers.hostile import build, TEMPLATES
        body = bytearray(build(name, H.FIELDS[name], idx, mut, chan=0))
        for _ in range(rnd.randrange(1, 4)):
            if body:
                body[rnd.randrange(len(body))] = rnd.randrange(256)
        t, phase, _ = TEMPLATES[name]
        s = H.ServerUnderTest('P4' if phase == 'KEX' else phase)
        try:
            out, written, iters = s.feed(t, bytes(body))
            bad = []
            if out != 'ok':
                bad.append(out)
        finally:
            exc = s.stop()
        if exc:
            bad.append(f'exception reached the event loop: {exc[0]}')
        ctx.count(('fuzz', name, bytes(body).hex()[:40]))
        if bad:
            ctx.violation({'module': 'Fuzz', 'message': name,
                           'body': bytes(body).hex()},
                          f'{name} mutated body: ' + '; '.join(bad[:2]),
                          replay={'kind': 'fuzz', 'message': name,
                                  'body': bytes(body).hex()})
    ctx.coverage['reported_as_internal_error'] = len(H.INTERNAL)
    if H.INTERNAL:
        ctx.notes.append('observation (not a violation: the owner is told an '
                         'error and the connection closes): %d malformed '
                         'inputs surface as an internal error (e.g. '
                         'PacketDecodeError from an auth task) instead of a '
                         'DisconnectError, first: %s'
                         % (len(H.INTERNAL), H.INTERNAL[0]))
    ctx.coverage['rule'] = (
        'cases are the derivations of specs/Hostile/Grammar.tla enumerated by '
        'TLC (message x field x mutation, DER tag x length form x children, '
        'loop x parameter) plus fixed raw byte streams and seeded byte '
        'mutations; each distinct case is non-trivial (it is malformed or '
        'extreme by construction)')
    # ---- the server-side line editor: keys are hostile input too; no key
    # sequence makes the line outgrow max_line_length or costs more output
    # than a + b * (line length + width) per key (Editor.tla LineBounded /
    # WorkBounded; part of builder-editor, shared with the extra module X06) ----
    from checks import x06
    x06.editor_work_cases(ctx, quick)
    # ---- the server side of the SFTP copy-data extension: offsets and length
    # are peer-chosen uint64 values; every request costs at most
    # ceil(length / block) + 1 iterations and gets its one reply
    # (SftpIO/CopyData.tla ChunkProgress; part of builder-sftp, shared with
    # C12 / C14) ----
    from harness.drivers import sftp_copydata
    sftp_copydata.copy_data_work_cases(ctx, quick)
    scan_cases(ctx, quick)
    ctx.assumptions += [
        'work bounds: 3 s watchdog per input, <= 2000 loop iterations and '
        '<= 4096 + 64*len(input) output bytes per packet (generous: only '
        'unbounded or super-linear behaviour trips)',
        'SFTP request/reply parsing beyond the count-prefixed lists is '
        'exercised by C14; known_hosts / authorized_keys line parsers by C17',
    ]


if __name__ == '__main__':
    run_check('C10', main)
