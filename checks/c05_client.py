"""C05, converse clause "a client presenting a valid credential (password,
local key, certificate or agent-held key) is admitted", for the asyncssh
CLIENT.  Called from checks/c05.py as `run(ctx, quick)`.

1. TLC checks specs/Auth/AuthClient.tla - how SSHClientConnection walks
   through authentication (try_next_auth, _process_userauth_failure with the
   preferred_auth filter and partial success, public_key_auth_requested with
   agent keys prepended and the RSA certificate key-type retry,
   _choose_signature_alg / server-sig-algs, password used once, the
   keyboard-interactive password fallback, PK_OK handling, the _Client*Auth
   classes) - over every configuration of the sections order / keys / rsa /
   kbd / mix / change / partial / odd: ValidAdmitted, SuccessIsServers, Bounded +
   Terminates, EachCredentialOnce, KeyOrder, AgentFirst, SignedOnlyAfterPkOk,
   NoCredentialLeak, DisabledUnused.  Wrong variants of the rule (stop at the
   first failed key, password kept, agent keys appended, no RSA retry, no
   preferred_auth filter, next_method pops twice) must be rejected; two
   witness runs show that the stated exceptions are reachable.  The same run
   emits one row per configuration: the predicted dialogue and outcome.
2. Every selected row is materialised (harness/drivers/authclient.py): real
   keys / certificates / agent, a REAL asyncssh client against a real asyncssh
   server where the row is expressible there, and against a scripted raw
   server otherwise (and for a sample of the rest).  Observed dialogue and
   outcome are compared with the row:
     the client held a credential the server accepts for an offered,
       permitted method (the row's Premise) and was not admitted; or
       connect() neither succeeded nor failed (hang / endless retry); or an
       exception reached the event loop                     -> VIOLATION
     any other difference between code and model            -> divergence.
"""

import json
import os
import random
import re
import time
from concurrent.futures import ThreadPoolExecutor

from harness import tlc
from harness.framework import VERIF

SPEC = os.path.join(VERIF, 'specs', 'Auth')
INVS = ['TypeOK', 'Bounded', 'ValidAdmitted', 'SuccessIsServers',
        'EachCredentialOnce', 'KeyOrder', 'AgentFirst', 'SignedOnlyAfterPkOk',
        'NoCredentialLeak', 'DisabledUnused']
ALL = '{"order", "keys", "rsa", "kbd", "mix", "change", "partial", "odd"}'
TABLE_SPLIT = ['{"order", "kbd", "mix"}',
               '{"keys", "rsa", "change", "partial", "odd"}']
WORKERS = 4
REPLAY_PROCS = 4

# public_key_auth_requested tests "no client keys left" before it looks at
# the saved RSA certificate: see fixes/C05c_rsa_cert_retry_last_key.patch
RETRY_FINDING = {'module': 'AuthClient',
                 'finding': 'rsa-cert-sha2-keytype-retry-skipped-when-'
                            'certificate-is-last-key'}

FLAGS = ['StopAtFirstFailedKey', 'PasswordKept', 'AgentAppended',
         'NoRsaRetry', 'NoPrefFilter', 'PopTwice', 'StrictConverse',
         'StrictDisabled']


def write_cfg(name, consts, invariants, properties=()):
    d = dict(Tier='"quick"', Sections=ALL, AsCoded='FALSE')
    d.update({f: 'FALSE' for f in FLAGS})
    d.update(consts)
    lines = ['CONSTANTS'] + [f'  {k} = {v}' for k, v in d.items()]
    lines += ['SPECIFICATION Spec']
    lines += [f'INVARIANT {i}' for i in invariants]
    lines += [f'PROPERTY {p}' for p in properties]
    with open(os.path.join(SPEC, name), 'w') as f:
        f.write('\n'.join(lines) + '\n')
    return name


# short runs on a shared machine: few GC threads; C1 only unless the run is long
JVM_LIGHT = {'JAVA_TOOL_OPTIONS':
             '-XX:ParallelGCThreads=2 -XX:TieredStopAtLevel=1'}
JVM_LONG = {'JAVA_TOOL_OPTIONS': '-XX:ParallelGCThreads=2'}


def tlc_job(tag, consts, invariants, workers=WORKERS, properties=(),
            jvm=JVM_LIGHT):
    """Start-to-finish TLC run (thread-safe: own cfg, own metadir)."""
    cfg = write_cfg(f'_{tag}.cfg', consts, invariants, properties)
    try:
        return tlc.run(SPEC, 'AuthClient', cfg, tag, timeout=1500,
                       workers=workers, env=jvm, java_heap='3g')
    finally:
        os.remove(os.path.join(SPEC, cfg))
        tlc.cleanup(tag)


_SUBS = [(re.compile(r'\['), '{'), (re.compile(r'\]'), '}'),
         (re.compile(r'<<'), '['), (re.compile(r'>>'), ']'),
         (re.compile(r'([A-Za-z_][A-Za-z0-9_]*) \|->'), r'"\1":'),
         (re.compile(r'\bTRUE\b'), 'true'), (re.compile(r'\bFALSE\b'), 'false')]


def parse_rows(output):
    """ToString()ed TLA+ values -> Python via json (no sets in a row)"""
    rows = []
    for line in output.splitlines():
        if not line.startswith('"<<\\"ROW'):
            continue
        text = json.loads(line)
        for rx, to in _SUBS:
            text = rx.sub(to, text)
        v = json.loads(text)
        rows.append({'cfg': v[1], 'dlg': v[2], 'out': v[3],
                     'premise': v[4]})
    return rows


def cfg_key(cfg):
    return json.dumps(cfg, sort_keys=True)


def sensitivity(quick):
    """(tag, constants, invariant / property that must be violated)"""
    runs = [
        ('C05c_s1', dict(StopAtFirstFailedKey='TRUE',
                         Sections='{"keys"}'), 'ValidAdmitted'),
        ('C05c_s2', dict(PasswordKept='TRUE', Sections='{"kbd"}'),
         'Bounded'),
        ('C05c_s3', dict(AgentAppended='TRUE', Sections='{"keys"}'),
         'AgentFirst'),
        ('C05c_s4', dict(NoRsaRetry='TRUE', Sections='{"rsa"}'),
         'ValidAdmitted'),
        # the defect itself: the rule as coded loses a valid certificate
        ('C05c_s5', dict(AsCoded='TRUE', Sections='{"rsa"}'),
         'ValidAdmitted'),
    ]
    if not quick:
        runs += [
            ('C05c_s6', dict(NoPrefFilter='TRUE', Sections='{"order"}'),
             'NoCredentialLeak'),
            ('C05c_s7', dict(PopTwice='TRUE', Sections='{"order"}'),
             'ValidAdmitted'),
            ('C05c_s8', dict(PasswordKept='TRUE', Sections='{"order"}'),
             'EachCredentialOnce'),
            # witnesses: the two stated exceptions are reachable
            ('C05c_w1', dict(StrictConverse='TRUE', Sections='{"kbd"}'),
             'ValidAdmitted'),
            ('C05c_w2', dict(StrictDisabled='TRUE', Sections='{"kbd"}'),
             'DisabledUnused'),
        ]
    return runs


def ev_list(e):
    """specification event record -> the driver's event list"""
    k = e['k']
    if k in ('none', 'kbd', 'S', 'CHG'):
        return [k]
    if k == 'F':
        return ['F', list(e['l']), bool(e['f'])]
    if k == 'pkq':
        return ['pkq', e['a'], e['b'], e['c']]
    if k == 'pks':
        return ['pks', e['a'], e['b'], e['c'], e['l'][0], True]
    if k == 'PKOK':
        return ['PKOK'] if e['f'] else ['PKOK', 'other']
    if k == 'pw':
        return ['pw', e['a']]
    if k == 'INFO':
        return ['INFO', e['a']]
    if k == 'resp':
        return ['resp', list(e['l'])]
    return [k]


def run(ctx, quick):
    import multiprocessing
    from harness.drivers import authclient as A
    tier = 'quick' if quick else 'thorough'
    rnd = random.Random(ctx.seed + 5)
    t0 = time.time()

    # worker processes for the replay: forked before any thread exists, after
    # the key material has been generated (so that all share it)
    A.pool().warm()
    procs = multiprocessing.get_context('fork').Pool(REPLAY_PROCS)

    # ---- 1. the specification: properties over every configuration, and
    #         the table (oracle rule; the rule as coded for the rsa section)
    pool = ThreadPoolExecutor(max_workers=4)
    try:
        jvm = JVM_LIGHT if quick else JVM_LONG
        f_tabs = [pool.submit(tlc_job, f'C05c_tab{i}',
                              dict(Tier=f'"{tier}"', Sections=secs),
                              INVS + ['EmitRow'], 1, (), jvm)
                  for i, secs in enumerate(TABLE_SPLIT)]
        f_coded = pool.submit(tlc_job, 'C05c_coded',
                              dict(Tier=f'"{tier}"', AsCoded='TRUE',
                                   Sections='{"rsa"}'),
                              [i for i in INVS if i != 'ValidAdmitted'] +
                              ['EmitRow'], 1)
        f_live = pool.submit(tlc_job, 'C05c_live',
                             dict(Tier=f'"{tier}"', Sections=ALL if not quick
                                  else '{"keys", "rsa", "mix", "odd"}'),
                             [], 2, ['Terminates'], jvm)
        jobs = [(tag, consts, inv,
                 pool.submit(tlc_job, tag, consts, [inv], 1))
                for tag, consts, inv in sensitivity(quick)]

        # ---- 2. rows against the real client (each part of the table is
        #         replayed as soon as TLC has produced it) ----
        budget = 13 if quick else 220       # seconds of replay
        rows, n, spent = [], 0, 0.0
        coded = None
        for secs, fut in zip(TABLE_SPLIT, f_tabs):
            res = fut.result()
            ctx.require_tlc_ok(f'AuthClient table + invariants Tier={tier} '
                               f'{secs}', res)
            part = parse_rows(res.output)
            rows += part
            if coded is None:
                res_c = f_coded.result()
                ctx.require_tlc_ok('AuthClient rsa section, rule as coded',
                                   res_c)
                coded = {cfg_key(r['cfg']): r
                         for r in parse_rows(res_c.output)}
            rnd.shuffle(part)
            part.sort(key=lambda r: r['cfg']['sec'] not in
                      ('rsa', 'odd', 'mix'))    # the small sections first
            tasks = []
            for row in part:
                real_ok = A.real_expressible(row['cfg'])
                backends = ['real'] if real_ok else ['raw']
                if real_ok and rnd.random() < (0.15 if quick else 0.5):
                    backends.append('raw')
                tasks.append((row['cfg'], backends))
            t1 = time.time()
            for row, task, observations in zip(
                    part, tasks,
                    procs.imap(A.replay_task, tasks, chunksize=8)):
                n += 1
                judge(ctx, A, row, coded.get(cfg_key(row['cfg'])), n,
                      task[1], observations)
                if spent + time.time() - t1 > budget:
                    break
            spent += time.time() - t1
        ctx.require(len(rows) > (3000 if quick else 15000),
                    f'AuthClient table has only {len(rows)} rows')
        procs.terminate()
        ctx.traces_validated(n)
        ctx.coverage['authclient_rows'] = len(rows)
        ctx.coverage['authclient_rows_replayed'] = n
        res_l = f_live.result()
        ctx.require_tlc_ok('AuthClient Terminates (liveness)', res_l)
        for tag, consts, inv, fut in jobs:
            ctx.require_tlc_ok(f'AuthClient {tag} {consts} (wrong rule / '
                               f'witness, expected to violate {inv})',
                               fut.result(), expect_violation=inv)
    finally:
        procs.terminate()
        procs.join()
        pool.shutdown(wait=True)
    ctx.assumptions += [
        'AuthClient: the application callbacks are the SSHClient defaults '
        'except a keyboard-interactive responder that offers itself once; '
        'the server is a deterministic function of the configuration; a '
        'server that does not send server-sig-algs accepts ssh-rsa '
        'signatures; a server insisting on the SHA-2 certificate key type '
        'advertises SHA-2 signature algorithms',
        'AuthClient: dialogues are observed at the server side of the '
        'encrypted transport (logging subclass of SSHServerConnection / '
        'scripted raw server), signatures are verified there with the '
        'public key named in the request',
    ]
    ctx.notes.append(
        'AuthClient: modelled as coded and not alarmed: (1) the one password '
        'is spent by whichever of keyboard-interactive (single password '
        'prompt) and password comes first, the other method is then skipped '
        '(witness run StrictConverse); (2) password_auth=False does not stop '
        'the password method once the keyboard-interactive password '
        'fallback has started (witness run StrictDisabled); (3) '
        'preferred_auth=[] means "the server\'s list in the server\'s '
        'order"; (4) the same key held by the agent and listed in '
        'client_keys is offered twice; (5) for an RSA certificate listed by '
        'the agent, when the server advertises no RSA signature algorithm, '
        'a second request with the unregistered key type name '
        '"ssh-rsa-cert-v01@openssh.com-cert-v01@openssh.com" is sent')
    ctx.coverage['authclient_wall_s'] = round(time.time() - t0, 1)


def judge(ctx, A, row, coded_row, n, backends, observations):
    cfg = row['cfg']
    want = [ev_list(e) for e in row['dlg']]
    want_coded = [ev_list(e) for e in coded_row['dlg']] if coded_row else None
    desc = A.describe(cfg)
    for backend, obs in zip(backends, observations):
        got = obs['dialogue']
        key = (cfg['sec'], backend, desc)
        ctx.count(key, nontrivial=len(got) > 2)
        ctx.coverage['authclient_' + backend] = \
            ctx.coverage.get('authclient_' + backend, 0) + 1
        replay = {'kind': 'authclient', 'backend': backend, 'cfg': cfg,
                  'spec_dialogue': want, 'spec_outcome': row['out'],
                  'premise': row['premise'], 'observed': obs}
        base = {'module': 'AuthClient', 'section': cfg['sec']}
        if n % 173 == 1 and backend == backends[0]:
            ctx.sample({'row': desc, 'backend': backend,
                        'spec': {'outcome': row['out'],
                                 'dialogue': [' '.join(map(str, e))
                                              for e in want]},
                        'observed': {'outcome': obs['outcome'],
                                     'requests': obs['requests']}})
        # -- the property's own clause, on observations
        admitted = obs['outcome'] == 'success' and \
            obs['client_user'] == A.USER and obs['granted'] == A.USER
        if obs['loop_exceptions']:
            ctx.violation(dict(base, clause='LoopException',
                               exc=obs['loop_exceptions'][0][:60]),
                          f'exception reached the event loop: '
                          f'{obs["loop_exceptions"][0]} in {desc}',
                          replay=replay)
            continue
        if obs['outcome'] in ('hung', 'runaway'):
            ctx.violation(dict(base, clause='Terminates',
                               how=obs['outcome'],
                               last=got[-2][0] if len(got) > 1 else '-'),
                          f'connect() neither succeeded nor failed '
                          f'({obs["outcome"]} after {obs["requests"]} '
                          f'requests): {desc}', replay=replay)
            continue
        if row['premise'] and not admitted:
            if coded_row is not None and got == want_coded and \
                    obs['outcome'] == outcome_name(coded_row['out']) and \
                    coded_row['out'] != row['out']:
                ctx.violation(RETRY_FINDING,
                              f'valid RSA certificate not admitted: the '
                              f'second attempt under the SHA-2 certificate '
                              f'key type is skipped when the certificate is '
                              f'the last key pair: {desc}', replay=replay)
            else:
                ctx.violation(dict(base, clause='ValidAdmitted',
                                   outcome=obs['outcome'],
                                   shape=[e[0] for e in got][:12]),
                              f'client holds a credential the server '
                              f'accepts but was not admitted '
                              f'({obs["outcome"]}): {desc}', replay=replay)
            continue
        # -- conformance
        if obs['problems']:
            ctx.divergence(f'{desc} [{backend}]: {obs["problems"]}')
        if obs['outcome'] != outcome_name(row['out']):
            ctx.divergence(f'{desc} [{backend}]: outcome model '
                           f'{row["out"]}, code {obs["outcome"]} '
                           f'granted={obs["granted"]}')
        elif got != want:
            i = next((i for i, (a, b) in enumerate(zip(got, want))
                      if a != b), min(len(got), len(want)))
            ctx.divergence(f'{desc} [{backend}]: dialogue differs at event '
                           f'{i + 1}: model '
                           f'{want[i] if i < len(want) else "(end)"}, code '
                           f'{got[i] if i < len(got) else "(end)"}')
        elif (obs['outcome'] == 'success') != admitted:
            ctx.divergence(f'{desc} [{backend}]: connected as '
                           f'{obs["client_user"]}, server granted '
                           f'{obs["granted"]}')


def outcome_name(out):
    return {'success': 'success', 'denied': 'denied',
            'proto': 'error:ProtocolError'}[out]
