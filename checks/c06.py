"""C06 - out-of-phase and injected messages never take effect.

1. TLC checks the transcribed phase/role gate (specs/Transport/Gate.tla) over
   every (role, phase, message class, strict) row: NoEffectOutOfPhase,
   StrictNoFiller, RoleRespected; variants without the authentication gate /
   without the role checks must be rejected.  TLC also emits the table.
2. Every row of the encrypted phases is materialised: a raw malicious peer
   (client or server role) injects the message (well-formed, truncated and
   with trailing bytes; thorough: every type number 1..100) at that phase of
   a real dialogue with the endpoint under test; the result must be "the
   connection ended" or "everything proceeded exactly as in the untampered
   twin run"; the predicted outcome class is compared as conformance.
3. Cleartext phase: an on-path MITM injects forged cleartext packets at every
   position before NEWKEYS in both directions, also in pairs, and performs
   the prefix-truncation (Terrapin) manoeuvre: with strict key exchange the
   handshake must fail or end identical to the twin.
4. A client accepts USERAUTH_SUCCESS only while a request of its own is
   outstanding (scripted server sends SUCCESS at every other point)."""

import os

from harness import tlc
from asyncssh.packet import String
from harness.framework import run_check, MachineryError, VERIF

SPEC = os.path.join(VERIF, 'specs', 'Transport')
INVS = ['NoEffectOutOfPhase', 'StrictNoFiller', 'RoleRespected',
        'GuessSwallowsKexOnly']


def write_cfg(name, consts, invariants=()):
    d = dict(AuthGate='TRUE', RoleCheck='TRUE', StaleAuthHandler='FALSE',
             GuessSwallowsAny='FALSE')
    d.update(consts)
    lines = ['CONSTANTS'] + [f'  {k} = {v}' for k, v in d.items()]
    lines += ['SPECIFICATION Spec', 'CHECK_DEADLOCK FALSE']
    lines += [f'INVARIANT {i}' for i in invariants]
    with open(os.path.join(SPEC, name), 'w') as f:
        f.write('\n'.join(lines) + '\n')
    return name


def mc(ctx, tag, consts, invariants, expect=None):
    cfg = write_cfg(f'_{tag}.cfg', consts, invariants)
    res = tlc.run(SPEC, 'Gate', cfg, tag, timeout=600, workers=4)
    ctx.require_tlc_ok(f'Gate {tag} {consts}', res, expect_violation=expect)
    tlc.cleanup(tag)
    os.remove(os.path.join(SPEC, cfg))


def table(ctx):
    cfg = write_cfg('_c06_tab.cfg', {}, ['EmitRow'])
    rows, res = tlc.bfs_scripts(SPEC, 'Gate', cfg, 'c06_tab')
    ctx.require_tlc_ok('Gate table emission', res)
    tlc.cleanup('c06_tab')
    os.remove(os.path.join(SPEC, cfg))
    return {(r[0], r[1], r[2], r[3]): out for r, out in rows}


def main(ctx):
    from harness.drivers import gate as G, transport as T
    if ctx.replay_path:
        from checks import replay_mine
        return replay_mine.c06(ctx)
    quick = ctx.tier == 'quick'
    # ---- 1. the gate as a decision table ----
    mc(ctx, 'c06_mc', {}, INVS)
    mc(ctx, 'c06_sens1', dict(AuthGate='FALSE'), ['NoEffectOutOfPhase'],
       expect='NoEffectOutOfPhase')
    mc(ctx, 'c06_sens2', dict(RoleCheck='FALSE'), ['RoleRespected'],
       expect='RoleRespected')
    mc(ctx, 'c06_sens3', dict(StaleAuthHandler='TRUE'), ['NoEffectOutOfPhase'],
       expect='NoEffectOutOfPhase')
    mc(ctx, 'c06_sens4', dict(GuessSwallowsAny='TRUE'), ['StrictNoFiller'],
       expect='StrictNoFiller')
    mc(ctx, 'c06_sens5', dict(GuessSwallowsAny='TRUE'),
       ['GuessSwallowsKexOnly'], expect='GuessSwallowsKexOnly')
    tab = table(ctx)
    ctx.require(len(tab) == 2 * 11 * 24 * 2, f'table has {len(tab)} rows')

    # ---- 2a. real server, malicious raw client ----
    twin = G.run_server_case()
    ctx.require(not twin['closed'] and twin['seen'] == [6, 52, 91, 99],
                f'server twin run unexpected: {twin}')
    n = 0
    classes = sorted(G.ALL_TYPES)
    types = {}
    for c in classes:
        for vname, t, body in G.variants(c, thorough=not quick):
            types[(c, vname)] = (t, body)
    if not quick:
        for t in range(1, 101):
            types[(G.class_of(t), f'type{t}')] = (t, b'')
            types[(G.class_of(t), f'type{t}+junk')] = (t, b'\x00\x00\x00\x01z')
    for phase in G.SERVER_PHASES:
        for (cls, vname), (t, body) in sorted(types.items()):
            r = G.run_server_case(phase, t, body)
            n += 1
            same = (not r['closed'] and
                    [x for x in r['seen'] if x != 3] == twin['seen'] and
                    r['log'] == twin['log'])
            ctx.count(('srv', phase, cls, vname), nontrivial=True)
            pred = tab.get(('server', G.MODEL_PHASE.get(phase, phase), cls,
                            True))
            sig = {'module': 'Gate', 'role': 'server', 'phase': phase,
                   'class': cls, 'variant': vname}
            expected_cls = cls in ('SERVICE_REQUEST', 'USERAUTH_REQUEST',
                                   'KEXINIT', 'GLOBAL_REQUEST',
                                   'CHANNEL_OPEN', 'CHANNEL_MSG',
                                   'DISCONNECT', 'EXT_INFO')
            if not r['closed'] and not same and not (
                    expected_cls and pred == 'process'):
                ctx.violation(sig, f'server {phase}: injected {cls}/{vname} '
                              f'(type {t}) took effect: connection stayed up '
                              f'and the run differs from the twin: seen='
                              f'{r["seen"]} log={r["log"]}',
                              replay={'kind': 'server', 'phase': phase,
                                      'type': t, 'body': body.hex()})
            elif vname == 'wellformed' and pred is not None:
                obs = 'fatal' if r['closed'] else \
                    'unimpl' if 3 in r['seen'] else 'same'
                ok = (pred == 'fatal') == (obs == 'fatal') or \
                    pred == 'process'
                if not ok:
                    ctx.divergence(f'server {phase} {cls}: model {pred}, '
                                   f'code {obs}')
            if r['loop_exceptions']:
                ctx.violation(dict(sig, loop=True),
                              f'server {phase} {cls}/{vname}: exception '
                              f'reached the event loop: '
                              f'{r["loop_exceptions"][0]}',
                              replay={'kind': 'server', 'phase': phase,
                                      'type': t, 'body': body.hex()})
            if n % 37 == 1:
                ctx.sample({'role': 'server', 'phase': phase, 'class': cls,
                            'variant': vname, 'closed': r['closed'],
                            'seen': r['seen'], 'model': pred})
    # pairs (quick: a few)
    pairs = [('IGNORE', 'CHANNEL_OPEN'), ('UNKNOWN_MID', 'GLOBAL_REQUEST'),
             ('DEBUG', 'USERAUTH_SUCCESS'), ('UNIMPLEMENTED', 'SERVICE_ACCEPT')]
    for phase in G.SERVER_PHASES[:2]:
        for a, b in pairs:
            ta, ba = types[(a, 'wellformed')]
            tb, bb = types[(b, 'wellformed')]
            r = G.run_server_case(phase, ta, ba, second=(tb, bb))
            n += 1
            ctx.count(('srv-pair', phase, a, b))
            same = (not r['closed'] and
                    [x for x in r['seen'] if x != 3] == twin['seen'] and
                    r['log'] == twin['log'])
            if not r['closed'] and not same:
                ctx.violation({'module': 'Gate', 'role': 'server',
                               'phase': phase, 'pair': [a, b]},
                              f'server {phase}: injected pair {a},{b} took '
                              f'effect: {r["seen"]} {r["log"]}',
                              replay={'kind': 'server-pair', 'phase': phase,
                                      'pair': [a, b]})

    # ---- 2a+. the authentication phase with real methods: a challenge
    # outstanding (P3k: the model's P3), after the FAILURE that ended a
    # keyboard-interactive attempt, after a password FAILURE, after an
    # answered public key query (P3n: no exchange outstanding - 60..79 is
    # "Authentication not in progress", even a response that would be right)
    atwin = G.run_server_auth_case()
    ctx.require(not atwin['closed'] and
                atwin['seen'] == [6, 60, 51, 51, 60, 52, 91, 99],
                f'server auth twin run unexpected: {atwin}')
    atypes = {k: v for k, v in types.items() if k[1] == 'wellformed'}
    atypes[('AUTH60', 'good-response')] = G.GOOD_RESPONSE
    atypes[('AUTH60', 'response-wrong')] = (61, b'\x00\x00\x00\x01' +
                                            b'\x00\x00\x00\x01x')
    for phase in G.AUTH_PHASES:
        for (cls, vname), (t, body) in sorted(atypes.items()):
            r = G.run_server_auth_case(phase, t, body)
            n += 1
            ctx.count(('srv-auth', phase, cls, vname), nontrivial=True)
            pred = tab.get(('server', G.MODEL_PHASE[phase], cls, True))
            sig = {'module': 'Gate', 'role': 'server', 'phase': phase,
                   'class': cls, 'variant': vname}
            rep = {'kind': 'server-auth', 'phase': phase, 'type': t,
                   'body': body.hex()}
            same = (not r['closed'] and
                    [x for x in r['seen'] if x != 3] == atwin['seen'] and
                    r['log'] == atwin['log'])
            # what the application was told before the connection ended
            told = [e for e in r['log'] if e[0] != 'server_lost']
            if pred in ('fatal', 'ignore', 'unimpl') or \
                    (cls == 'AUTH60' and phase != 'P3k'):
                if told != atwin['log'][:len(told)]:
                    ctx.violation(dict(sig, clause='ActedOn'),
                                  f'server {phase}: out-of-phase {cls}/{vname} '
                                  f'(type {t}) reached the application: '
                                  f'{told} (untampered: {atwin["log"]})',
                                  replay=rep)
                elif G.acted(r['emitted'], [x for x in atwin['emitted']
                                            if x not in (1, 3)]):
                    ctx.violation(dict(sig, clause='ActedOn'),
                                  f'server {phase}: out-of-phase {cls}/{vname} '
                                  f'(type {t}) was acted upon: the server '
                                  f'emitted {r["emitted"]} (untampered: '
                                  f'{atwin["emitted"]})', replay=rep)
                elif not r['closed'] and not same:
                    ctx.violation(sig, f'server {phase}: {cls}/{vname} took '
                                  f'effect: seen={r["seen"]} log={r["log"]}',
                                  replay=rep)
                elif pred == 'fatal' and not r['closed']:
                    ctx.divergence(f'server {phase} {cls}/{vname}: model '
                                   f'fatal, code tolerated it')
            if r['loop_exceptions']:
                ctx.violation(dict(sig, loop=True),
                              f'server {phase} {cls}/{vname}: exception '
                              f'reached the event loop: '
                              f'{r["loop_exceptions"][0]}', replay=rep)

    # ---- 2a'. cleartext phase and peers WITHOUT strict key exchange ----
    # the raw client itself sends the extra message during the first
    # exchange (after its KEXINIT / right before its NEWKEYS), with and
    # without offering strict key exchange; and the encrypted phases again
    # against a server that negotiated no strict key exchange
    ntwin = G.run_server_case(no_strict=True)
    ctx.require(not ntwin['closed'] and ntwin['seen'] == twin['seen'] and
                ntwin['log'] == twin['log'],
                f'non-strict server twin run unexpected: {ntwin}')
    for strict in (True, False):
        # 'guessed': the raw client's KEXINIT announces a guessed first packet
        # for a method that is not negotiated (first_kex_packet_follows, wrong
        # guess): the message stands where the guessed packet would (P1g)
        for point in ('after_kexinit', 'before_newkeys', 'guessed'):
            for (cls, vname), (t, body) in sorted(types.items()):
                # after_kexinit: the exchange is running (P1); before_newkeys:
                # the server has already sent its own NEWKEYS and waits for
                # ours (P1w) - there a repeated INIT must not run the
                # exchange again.  NEWKEYS itself is the genuine next message.
                if cls == 'NEWKEYS' or \
                        (cls in ('KEXMSG', 'KEXOTHER') and
                         point == 'after_kexinit') or \
                        (quick and vname != 'wellformed'):
                    continue
                guessed = point == 'guessed'
                # a repeated key exchange message is the peer's own genuine
                # one sent again (valid for whatever method was negotiated)
                inj = (t, None) if (cls == 'KEXMSG' and not guessed and
                                    vname == 'wellformed') else (t, body)
                injs = [inj]
                if guessed and cls not in ('KEXMSG', 'KEXOTHER') and \
                        tab.get(('server', 'P1g', cls, strict)) in ('ignore',
                                                                   'unimpl'):
                    # a tolerated message is not the guessed packet: that one
                    # (of some other method: dropped unread) still follows
                    injs.append((30, String(b'guessed')))
                r = G.run_server_case(
                    None, no_strict=not strict, wrong_guess=guessed,
                    cleartext={'after_kexinit' if guessed else point: injs})
                n += 1
                ctx.count(('srv-clear', strict, point, cls, vname),
                          nontrivial=True)
                same = (not r['closed'] and
                        [x for x in r['seen'] if x != 3] == twin['seen'] and
                        r['log'] == twin['log'])
                dead = not r['closed'] and not r['seen'] and not r['log']
                mph = {'after_kexinit': 'P1', 'guessed': 'P1g'}.get(point, 'P1w')
                pred = tab.get(('server', mph, cls, strict))
                sig = {'module': 'Gate', 'role': 'server', 'phase': mph,
                       'point': point, 'strict': strict, 'class': cls,
                       'variant': vname}
                rep = {'kind': 'server-clear', 'strict': strict,
                       'point': point, 'type': t, 'body': body.hex()}
                if guessed and cls in ('KEXMSG', 'KEXOTHER'):
                    # the guessed packet itself: dropped, the exchange goes on
                    if r['closed'] or not same:
                        ctx.divergence(f'server P1g {cls}/{vname} strict='
                                       f'{strict}: the guessed packet was not '
                                       f'dropped silently: closed={r["closed"]} '
                                       f'seen={r["seen"]}')
                elif pred == 'process':
                    # the message starts something the code supports at this
                    # point (a KEXINIT once the own NEWKEYS is out): only the
                    # take-effect rule below applies
                    if not r['closed'] and not same and not dead:
                        ctx.violation(sig, f'server, first key exchange '
                                      f'({point}, strict={strict}): {cls}/'
                                      f'{vname} (type {t}) took effect: seen='
                                      f'{r["seen"]} log={r["log"]}',
                                      replay=rep)
                elif G.acted(r['emitted'], [t for t in twin['emitted']
                                            if t not in (1, 3)]):
                    ctx.violation(dict(sig, clause='ActedOn'),
                                  f'server, first key exchange ({point}, '
                                  f'strict={strict}): {cls}/{vname} (type {t}) '
                                  f'was acted upon: the server emitted '
                                  f'{r["emitted"]} (untampered run: '
                                  f'{twin["emitted"]})', replay=rep)
                elif not r['closed'] and not same and not dead:
                    ctx.violation(sig, f'server, first key exchange ({point}, '
                                  f'strict={strict}): {cls}/{vname} (type {t}) '
                                  f'took effect: seen={r["seen"]} '
                                  f'log={r["log"]}', replay=rep)
                elif strict and not r['closed'] and not dead and \
                        cls != 'KEXINIT':
                    ctx.violation(dict(sig, clause='StrictNoFiller'),
                                  f'strict key exchange: {cls} (type {t}) '
                                  f'during the initial exchange ({point}) was '
                                  f'tolerated', replay=rep)
                elif vname == 'wellformed' and pred is not None:
                    obs = 'fatal' if (r['closed'] or dead) else 'same'
                    if (pred == 'fatal') != (obs == 'fatal'):
                        ctx.divergence(f'server P1 {point} strict={strict} '
                                       f'{cls}: model {pred}, code {obs}')
                # a message the table refuses must have NO effect: whatever the
                # server puts on the wire once it has taken the injected packet
                # in (DISCONNECT / UNIMPLEMENTED aside) is an answer to it - the
                # prefix rule above cannot tell an early SERVICE_ACCEPT from
                # the genuine one of the untampered run
                late = [x for x in (r.get('after_inj') or ()) if x not in (1, 3)]
                if pred == 'fatal' and late and \
                        not (guessed and cls in ('KEXMSG', 'KEXOTHER')):
                    ctx.violation(dict(sig, clause='AnsweredOutOfPhase'),
                                  f'server, first key exchange ({point}, '
                                  f'strict={strict}): {cls}/{vname} (type {t}) '
                                  f'is refused in phase {mph}, but the server '
                                  f'answered it with {late} before it gave up',
                                  replay=rep)
                if r['loop_exceptions']:
                    ctx.violation(dict(sig, loop=True),
                                  f'server P1 {cls}: exception reached the '
                                  f'event loop: {r["loop_exceptions"][0]}',
                                  replay=rep)
    for phase in G.SERVER_PHASES:
        for (cls, vname), (t, body) in sorted(types.items()):
            if vname != 'wellformed':
                continue
            r = G.run_server_case(phase, t, body, no_strict=True)
            n += 1
            ctx.count(('srv-nostrict', phase, cls), nontrivial=True)
            same = (not r['closed'] and
                    [x for x in r['seen'] if x != 3] == twin['seen'] and
                    r['log'] == twin['log'])
            pred = tab.get(('server', G.MODEL_PHASE.get(phase, phase), cls,
                            False))
            expected_cls = cls in ('SERVICE_REQUEST', 'USERAUTH_REQUEST',
                                   'KEXINIT', 'GLOBAL_REQUEST',
                                   'CHANNEL_OPEN', 'CHANNEL_MSG',
                                   'DISCONNECT', 'EXT_INFO')
            if not r['closed'] and not same and not (
                    expected_cls and pred == 'process'):
                ctx.violation({'module': 'Gate', 'role': 'server',
                               'phase': phase, 'strict': False, 'class': cls},
                              f'server {phase} (no strict kex): injected '
                              f'{cls} (type {t}) took effect: seen='
                              f'{r["seen"]} log={r["log"]}',
                              replay={'kind': 'server', 'phase': phase,
                                      'type': t, 'body': body.hex(),
                                      'no_strict': True})

    # ---- 2b. real client, malicious raw server ----
    ctwin = G.run_client_case()
    ctx.require(ctwin['outcome'] == 'connected' and
                ctwin['log'] == ['auth_completed'],
                f'client twin run unexpected: {ctwin}')
    phase_of = {'before_accept': 'P2', 'after_accept': 'P3',
                'before_failure': 'P3', 'after_failure': 'P3',
                'before_success': 'P3', 'after_success': 'P4',
                'after_rekey': 'P4n'}
    for point in G.CLIENT_POINTS:
        for (cls, vname), (t, body) in sorted(types.items()):
            if quick and vname not in ('wellformed', 'trailing'):
                continue
            r = G.run_client_case(point, t, body)
            n += 1
            ctx.count(('cli', point, cls, vname))
            lost = any(isinstance(e, tuple) and e[0] == 'client_lost'
                       for e in r['log'])
            connected = r['outcome'] == 'connected' and not lost
            same = connected and r['log'] == ctwin['log'] and \
                r['requests'] == ctwin['requests']
            sig = {'module': 'Gate', 'role': 'client', 'point': point,
                   'class': cls, 'variant': vname}
            # a legitimate reply of the dialogue arriving at its proper
            # point is not an injection
            legit = (cls == 'USERAUTH_FAILURE' and point in
                     ('before_failure', 'after_failure', 'before_success',
                      'after_accept')) or \
                (cls == 'USERAUTH_SUCCESS' and point in
                 ('before_failure', 'before_success')) or \
                cls == 'USERAUTH_BANNER' or \
                cls in ('KEXINIT', 'DISCONNECT', 'EXT_INFO', 'GLOBAL_REQUEST',
                        'CHANNEL_OPEN', 'AUTH60', 'SERVICE_ACCEPT')
            if r['success_when_idle'] and \
                    r['log'].count('auth_completed') > r['success_ok']:
                ctx.violation(dict(sig, clause='SuccessOnlyIfOutstanding'),
                              f'client accepted USERAUTH_SUCCESS at {point} '
                              f'with no request outstanding (requests sent: '
                              f'{r["requests"]})',
                              replay={'kind': 'client', 'point': point,
                                      'type': t, 'body': body.hex()})
            elif connected and not same and not legit:
                ctx.violation(sig, f'client {point}: injected {cls}/{vname} '
                              f'(type {t}) took effect: {r}',
                              replay={'kind': 'client', 'point': point,
                                      'type': t, 'body': body.hex()})
            if r['loop_exceptions']:
                ctx.violation(dict(sig, loop=True),
                              f'client {point} {cls}/{vname}: exception '
                              f'reached the event loop: '
                              f'{r["loop_exceptions"][0]}',
                              replay={'kind': 'client', 'point': point,
                                      'type': t, 'body': body.hex()})
    # SUCCESS at every point, also doubled
    for point in G.CLIENT_POINTS:
        for second in (None, (52, b'')):
            r = G.run_client_case(point, 52, b'', second=second)
            n += 1
            ctx.count(('cli-success', point, bool(second)))
            if r['success_when_idle'] and \
                    r['log'].count('auth_completed') > r['success_ok']:
                ctx.violation({'module': 'Gate', 'role': 'client',
                               'clause': 'SuccessOnlyIfOutstanding',
                               'point': point},
                              f'client accepted USERAUTH_SUCCESS at {point} '
                              f'with no request outstanding',
                              replay={'kind': 'client', 'point': point,
                                      'type': 52, 'body': ''})
            if r['log'].count('auth_completed') > 1:
                ctx.violation({'module': 'Gate', 'role': 'client',
                               'clause': 'SuccessOnce', 'point': point},
                              f'auth_completed delivered twice at {point}',
                              replay={'kind': 'client', 'point': point,
                                      'type': 52, 'body': ''})

    # ---- 3. cleartext phase: MITM injection, strict kex ----
    payloads = [b'ok\n']
    base = T.run_session(payloads, mitm=T.Mitm([]))
    ctx.require(base['outcome'] == 'ok', f'baseline session: {base}')
    inj_classes = ['IGNORE', 'DEBUG', 'UNIMPLEMENTED', 'UNKNOWN_LOW',
                   'SERVICE_REQUEST', 'SERVICE_ACCEPT', 'USERAUTH_SUCCESS',
                   'CHANNEL_OPEN',
                   'KEXINIT', 'NEWKEYS', 'KEXOTHER', 'DISCONNECT', 'EXT_INFO']
    for d in ('cs', 'sc'):
        for pos in range(1, 5):        # before version+1 .. before NEWKEYS
            for cls in inj_classes:
                t, body = types[(cls, 'wellformed')]
                m = ClearInjector(d, pos, [(t, body)])
                r = T.run_session(payloads, mitm=m)
                n += 1
                ctx.count(('clear', d, pos, cls), nontrivial=m.fired)
                if m.fired and r['outcome'] == 'ok' and \
                        r['echoed'] == payloads and cls != 'DISCONNECT':
                    ctx.violation({'module': 'Gate', 'phase': 'cleartext',
                                   'dir': d, 'pos': pos, 'class': cls},
                                  f'cleartext injection of {cls} in {d} '
                                  f'before packet {pos} went unnoticed under '
                                  f'strict key exchange',
                                  replay={'kind': 'clear', 'dir': d,
                                          'pos': pos, 'class': cls})
                # the receiver of a cleartext message the table refuses in its
                # phase (before packet 3: exchange running, P1; before the
                # sender's NEWKEYS: the receiver's own NEWKEYS is out, P1w)
                # puts nothing on the wire in answer to it but DISCONNECT /
                # UNIMPLEMENTED - both roles, also when the session fails later
                role = 'server' if d == 'cs' else 'client'
                mph = {3: 'P1', 4: 'P1w'}.get(pos)
                late = [x for x in (m.after or ()) if x not in (1, 3)]
                if mph and m.after is not None and \
                        tab.get((role, mph, cls, True)) == 'fatal':
                    ctx.coverage['clear_refused_rows_observed'] = \
                        ctx.coverage.get('clear_refused_rows_observed', 0) + 1
                if mph and late and \
                        tab.get((role, mph, cls, True)) == 'fatal':
                    ctx.violation({'module': 'Gate', 'phase': mph,
                                   'role': role, 'dir': d, 'pos': pos,
                                   'class': cls,
                                   'clause': 'AnsweredOutOfPhase'},
                                  f'{role}, first key exchange: cleartext '
                                  f'{cls} before packet {pos} of the peer is '
                                  f'refused in phase {mph}, but the {role} '
                                  f'answered it with {late}',
                                  replay={'kind': 'clear', 'dir': d,
                                          'pos': pos, 'class': cls})
    # Terrapin: insert IGNORE before NEWKEYS, drop the first encrypted packet
    for d in ('cs', 'sc'):
        for enc in ('chacha20-poly1305@openssh.com', 'aes128-cbc'):
            kw = dict(encryption_algs=[enc])
            if 'cbc' in enc:
                kw['mac_algs'] = ['hmac-sha2-256-etm@openssh.com']
            t, body = types[('IGNORE', 'wellformed')]
            m = ClearInjector(d, 3, [(t, body)], drop_first_encrypted=True)
            r = T.run_session(payloads, client_kw=kw, server_kw=kw, mitm=m)
            n += 1
            ctx.count(('terrapin', d, enc), nontrivial=m.fired)
            if m.fired and r['outcome'] == 'ok':
                ctx.violation({'module': 'Gate', 'clause': 'TerrapinSafe',
                               'dir': d, 'enc': enc},
                              f'prefix truncation ({d}, {enc}) went '
                              f'unnoticed although strict key exchange was '
                              f'negotiated',
                              replay={'kind': 'terrapin', 'dir': d,
                                      'enc': enc})
    ctx.traces_validated(n)
    ctx.coverage['gate_rows'] = len(tab)
    ctx.notes.append('deliberate tolerance, not alarmed: a client accepts '
                     'USERAUTH_BANNER at any time after key exchange, also '
                     'after authentication (upstream test_late_auth_banner)')
    ctx.assumptions += [
        'both endpoints negotiate strict key exchange (asyncssh always offers '
        'it); the non-strict variant is covered by the decision table only',
        'the phase after authentication is exercised without an open channel '
        'for the injected message (channel-level phase rules are C07-C09)',
    ]


class ClearInjector:
    """MITM for the cleartext phase: forges cleartext packets and inserts
    them before the pos-th packet written by one side; optionally drops the
    first encrypted packet of that direction."""

    def __init__(self, direction, pos, packets, drop_first_encrypted=False):
        self.d, self.pos, self.packets = direction, pos, packets
        self.drop = drop_first_encrypted
        self.n = {'cs': 0, 'sc': 0}
        self.enc = {'cs': False, 'sc': False}
        self.fired = False
        self.dropped = False
        self.rec = None
        # what the receiver of the forged packets emits once it has taken the
        # first of them in: pos - 2 genuine packets precede it (the version
        # line is write 1), so it is the receiver's (pos - 1)-th packet
        self.taken = 0
        self.after = None

    def attach(self, rec, ct, st):
        from asyncssh import _verif
        self.rec = rec
        orig = rec.sink

        def sink(name, f):
            orig(name, f)
            if name == 'pkt_out' and f['pkttype'] == 21:
                self.enc['cs' if f['conn'].is_client() else 'sc'] = True
            conn = f.get('conn')
            if conn is None or self.pos < 2:
                return
            receiver = conn.is_client() == (self.d == 'sc')
            if name == 'pkt_in' and receiver:
                self.taken += 1
                if self.fired and self.taken == self.pos - 1 and \
                        self.after is None:
                    self.after = []
            elif name == 'pkt_out' and receiver and self.after is not None:
                self.after.append(f['pkttype'])
        _verif.set_sink(sink)

    def changed(self, d):
        return self.fired

    @staticmethod
    def frame(t, body):
        payload = bytes([t]) + body
        padlen = -(5 + len(payload)) % 8
        if padlen < 4:
            padlen += 8
        pkt = bytes([padlen]) + payload + bytes(padlen)
        return len(pkt).to_bytes(4, 'big') + pkt

    def filter(self, transport, idx, data):
        d = 'cs' if transport.name == 'c' else 'sc'
        self.rec.events.append(('w', d, data))
        if d != self.d:
            return [data]
        if self.enc[d]:
            if self.drop and self.fired and not self.dropped:
                self.dropped = True
                return []
            return [data]
        self.n[d] += 1
        if self.n[d] == self.pos and not self.fired:
            self.fired = True
            return [self.frame(t, b) for t, b in self.packets] + [data]
        return [data]


if __name__ == '__main__':
    run_check('C06', main)
