"""X07 (extra module) - ChanGate: what a ROGUE peer's channel-level messages
do in every state of a channel (asyncssh/channel.py message handlers,
connection.py channel lookup).

1. TLC evaluates specs/Channel/ChanGate.tla: the decision table
   (role, channel-number kind, receive state, send state, reading, buffered,
   request outstanding, message) -> accept (with callbacks, packets, state
   after) | protocol_error | ignored | unimpl, every row an initial state,
   against HonestAccepted (RFC 4254 section 5), NothingPastEof,
   NoReplyUnsolicited, UnknownChannelIsError, DeadChannelIsError,
   WindowEnforced, ReplyIffWanted, NoDataAfterLocalClose, ErrorHasNoEffect,
   DroppedDataCredited, ClosesCleanly (the peer's CLOSE afterwards ends the channel in order);
   nine wrong variants of the rules that TLC must reject; the table is
   emitted row by row.
2. specs/Channel/ChanGateLC.tla instantiates Lifecycle.tla next to the
   table: for every honest row that Lifecycle has a message for, Lifecycle's
   own Deliver (and its deferred callbacks) must end where the table says.
3. Every row is materialised (harness/drivers/changate.py): a real server
   channel with a raw client, a real client channel with a raw server,
   driven into the state class through the public API and honest messages,
   then the message, then resume_reading(), then the peer's CLOSE; monitors
   on what the session heard, what the endpoint
   emitted, how the connection ended, loop exceptions, CPU-time watchdog.
4. Self-test: deliberately mutated handlers (monkeypatched copies of the
   real functions) must be caught by the same run.
"""

import json
import os
import random
import re

from harness import tlc
from harness.framework import run_check, VERIF

SPEC = os.path.join(VERIF, 'specs', 'Channel')
LIFE = os.path.join(VERIF, 'specs', 'Lifecycle')
# The rule for a second shell/exec/subsystem request on a started channel:
# 'as_coded' (observation F10: handed to the application again) is what the
# tree does; after fixes/x07_second_start_request.patch set 'refused'
# (RFC 4254 6.5).  With 'refused' on an unpatched tree the rows
# {msg: REQ_START, clause: StartOnce} are reported as violations.
SECOND_START = os.environ.get('X07_SECOND_START', 'as_coded')
BASE = dict(DataAfterEof='FALSE', AdjustAfterEof='TRUE', UnknownChan='"error"',
            ReplyUnsolicited='FALSE', DropAfterClose='TRUE',
            ReplyWhileClosing='TRUE', CheckWindow='TRUE',
            CreditWhileClosing='TRUE',
            SecondStart=f'"{SECOND_START}"')
INVS = ['HonestAccepted', 'NothingPastEof', 'NoReplyUnsolicited',
        'UnknownChannelIsError', 'DeadChannelIsError', 'WindowEnforced',
        'ReplyIffWanted', 'NoDataAfterLocalClose', 'ErrorHasNoEffect',
        'ClosesCleanly', 'DroppedDataCredited']
# wrong rules TLC must reject: (name, constants, invariant that catches it)
SENS = [
    ('data_after_eof', dict(DataAfterEof='TRUE'), 'NothingPastEof'),
    ('adjust_open_only', dict(AdjustAfterEof='FALSE'), 'HonestAccepted'),
    ('unknown_ignored', dict(UnknownChan='"ignore"'), 'UnknownChannelIsError'),
    ('reply_unsolicited', dict(ReplyUnsolicited='TRUE'), 'NoReplyUnsolicited'),
    ('error_after_close', dict(DropAfterClose='FALSE'), 'HonestAccepted'),
    ('no_reply_closing', dict(ReplyWhileClosing='FALSE'), 'ReplyIffWanted'),
    ('no_window', dict(CheckWindow='FALSE'), 'WindowEnforced'),
    ('no_credit_closing', dict(CreditWhileClosing='FALSE'),
     'DroppedDataCredited'),
    # the rule of the code itself (observation F10): a second exec is started
    ('second_start', dict(SecondStart='"as_coded"'), 'StartOnce'),
]
# every branch of the transcribed handlers must decide at least one row
BRANCHES = {'adj_flush', 'adj_idle', 'buffered', 'close_done', 'close_parked',
            'confirmed', 'delivered', 'eof_delivered', 'eof_parked',
            'open_failed', 'reply_fail', 'reply_ok', 'req_known',
            'req_unknown', 'start', 'start_again', 'dropped_closed',
            'dropped_credited', 'empty',
            'adj_not_open', 'close_not_open', 'closing', 'data_not_open',
            'decode', 'eof_not_open', 'ext_type', 'no_such_channel',
            'not_opening', 'opening', 'req_name', 'req_not_open', 'truncated',
            'unsolicited', 'window', 'unknown_type'}
JVM = {'_JAVA_OPTIONS': '-XX:TieredStopAtLevel=1 -XX:ParallelGCThreads=2 '
                        '-XX:CICompilerCount=1'}


def write_cfg(name, consts, invs, spec='Spec'):
    d = dict(BASE)
    d.update(consts)
    lines = ['CONSTANTS'] + [f'  {k} = {v}' for k, v in d.items()]
    lines += [f'SPECIFICATION {spec}', 'CHECK_DEADLOCK FALSE']
    lines += [f'INVARIANT {i}' for i in invs]
    with open(os.path.join(SPEC, name), 'w') as f:
        f.write('\n'.join(lines) + '\n')
    return name


def mc(ctx, name, consts, invs, expect=None, module='ChanGate', spec='Spec',
       env=None, coverage=False, heap='2g'):
    tag = f'x07_{name}_{os.getpid()}'
    cfg = write_cfg(f'_{tag}.cfg', consts, invs, spec)
    try:
        res = tlc.run(SPEC, module, cfg, tag, workers=2, timeout=600,
                      java_heap=heap, env=dict(JVM, **(env or {})),
                      coverage=coverage)
    finally:
        tlc.cleanup(tag)
        os.remove(os.path.join(SPEC, cfg))
    if ctx is None:
        return f'{module} {name} {consts}', res, expect
    ctx.require_tlc_ok(f'{module} {name} {consts}', res,
                       expect_violation=expect)
    return res


def table(ctx):
    tag = f'x07_tab_{os.getpid()}'
    cfg = write_cfg(f'_{tag}.cfg', {}, INVS + ['EmitRow'])
    try:
        rows, res = tlc.bfs_scripts(SPEC, 'ChanGate', cfg, tag)
    finally:
        tlc.cleanup(tag)
        os.remove(os.path.join(SPEC, cfg))
    ctx.require_tlc_ok('ChanGate design check + table emission', res)
    return rows


def state_of(row):
    if row['chan'] != 'known':
        return row['chan']
    return '/'.join([row['rs'], row['ss'], row['rd'],
                     'buf' if row['buf'] else '-',
                     'req' if row['req'] else '-',
                     'keep' if row['keep'] else 'nokeep'])


def report(ctx, row, r, seed, counters):
    sig0 = {'module': 'ChanGate', 'role': row['role'],
            'state': state_of(row), 'msg': row['msg']}
    seen = set()
    for clause, text in r['violations']:
        if clause in seen:
            continue
        seen.add(clause)
        counters[clause] = counters.get(clause, 0) + 1
        ctx.violation(dict(sig0, clause=clause),
                      f'{clause}: {row["role"]} channel [{state_of(row)}] '
                      f'<- {row["msg"]}: {text}',
                      replay={'row': row, 'seed': seed})
    for d in r['divergences']:
        ctx.divergence(f'ChanGate {row["role"]} [{state_of(row)}] <- '
                       f'{row["msg"]}: {d}')


def self_test(ctx, drv, rows, rnd):
    """each mutant (a monkeypatched copy of a real handler) must be caught
    by the monitors on a slice of the rows"""
    by_msg = {}
    for row, pred in rows:
        by_msg.setdefault(row['msg'], []).append((row, pred))
    caught = {}
    for name, msgs, clauses in drv.MUTANTS:
        undo = drv.apply_mutant(name)
        try:
            hits = set()
            n = 0
            for m in msgs:
                cand = list(by_msg[m])
                rnd.shuffle(cand)
                # rows where the wrong rule can show
                cand.sort(key=lambda rp: not drv.mutant_relevant(name, rp[0]))
                for row, pred in cand[:12]:
                    r = drv.run_row(row, pred, ctx.seed)
                    n += 1
                    hits |= {c for c, _ in r['violations']}
        finally:
            undo()
        caught[name] = sorted(hits)
        ctx.require(hits & set(clauses),
                    f'self-test: mutant {name} was not caught by '
                    f'{clauses} on {n} rows (saw {sorted(hits)})')
    ctx.coverage['mutants_caught'] = caught


def main(ctx):
    from harness.drivers import changate as drv
    quick = ctx.tier == 'quick'
    rnd = random.Random(ctx.seed * 7919 + 7)
    os.makedirs(tlc.WORK, exist_ok=True)
    counters = {}

    if ctx.replay_path:
        with open(ctx.replay_path) as f:
            rp = json.load(f)['replay']
        rows = {json.dumps(r, sort_keys=True): p for r, p in table(ctx)}
        row = rp['row']
        pred = rows[json.dumps(row, sort_keys=True)]
        r = drv.run_row(row, pred, rp['seed'])
        print('replayed:', row, json.dumps(r['obs'], default=str)[:1500],
              r['violations'], r['divergences'], r['skipped'])
        ctx.count(('replay', ctx.replay_path))
        report(ctx, row, r, rp['seed'], counters)
        return

    # ---- 1. the table: design check, emission, sensitivity ----
    rows = table(ctx)
    ctx.require(len(rows) > 2000, f'table has only {len(rows)} rows')
    whys = {o['o']['why'] for _, o in rows}
    branches = BRANCHES if SECOND_START == 'as_coded' else \
        BRANCHES - {'start_again'} | {'start_refused'}
    ctx.require(whys == branches,
                f'branches of the handlers not all exercised by the rows: '
                f'missing {sorted(branches - whys)}, unknown '
                f'{sorted(whys - branches)}')
    # the other TLC runs go on in the background while the rows are replayed
    import concurrent.futures
    ex = concurrent.futures.ThreadPoolExecutor(max_workers=3 if quick else 4)
    lib = {'_JAVA_OPTIONS': JVM['_JAVA_OPTIONS'] + f' -DTLA-Library={LIFE}'}
    LC = dict(module='ChanGateLC', spec='SpecLC', env=lib)
    jobs = []

    def bg(*a, **kw):
        jobs.append(ex.submit(mc, None, *a, **kw))
        return jobs[-1]

    # ---- 2. agreement with Lifecycle.tla on the honest subset ----
    # (-coverage costs TLC several GB on this module: thorough tier only; the
    # quick tier relies on the state count and on the witness below, whose
    # violation needs all three actions: set-up, Deliver, RunReady)
    f_lc = bg('lifecycle', {}, ['AgreesWithLifecycle'], coverage=not quick,
              heap='2g' if quick else '6g', **LC)
    bg('lifecycle_wit', {}, ['Witness'], expect='Witness', **LC)
    bg('lifecycle_sens', dict(AdjustAfterEof='FALSE'),
       ['AgreesWithLifecycle'], expect='AgreesWithLifecycle', **LC)
    # pre-F32 rule (no credit while close_pending): Lifecycle disagrees
    bg('lifecycle_nocredit', dict(CreditWhileClosing='FALSE'),
       ['AgreesWithLifecycle'], expect='AgreesWithLifecycle', **LC)
    for name, consts, inv in SENS:
        bg('s_' + name, consts, [inv], expect=inv)
    bg('start_once', dict(SecondStart='"refused"'), INVS + ['StartOnce'])

    # ---- 3. every row against the real code ----
    seeds = [ctx.seed] if quick else [ctx.seed * 100 + k for k in range(10)]
    n = 0
    classes = {}
    skipped = []
    for sd in seeds:
        order = list(rows)
        rnd.shuffle(order)
        for row, pred in order:
            r = drv.run_row(row, pred, sd)
            if r['skipped']:
                skipped.append((row, r['skipped']))
                continue
            n += 1
            o = pred['o']
            ctx.count((row['role'], state_of(row), row['msg']),
                      nontrivial=o['cls'] != 'ignored')
            k = (row['role'], row['chan'], o['cls'])
            classes[k] = classes.get(k, 0) + 1
            if n % 397 == 5:
                ctx.sample({'role': row['role'], 'state': state_of(row),
                            'msg': row['msg'], 'table': o['cls'] + '/' +
                            o['why'], 'cb': r['obs']['cb'],
                            'out': r['obs']['out'],
                            'later': r['obs'].get('later')})
            report(ctx, row, r, sd, counters)
    ctx.traces_validated(n)
    if skipped and ctx.violations:
        # a tree that breaks the property may also leave the paths the set-up
        # relies on: the violations are the verdict
        ctx.notes.append(f'{len(skipped)} rows could not be set up, first: '
                         f'{skipped[:2]}')
    else:
        ctx.require(not skipped, f'{len(skipped)} rows could not be set up, '
                    f'first: {skipped[:2]}')
    ctx.coverage['rows'] = len(rows)
    ctx.coverage['rows_by_class'] = {'/'.join(k): v for k, v in
                                     sorted(classes.items())}
    ctx.coverage['honest_rows'] = sum(1 for _, p in rows if p['honest'])
    for j in jobs:
        title, res, expect = j.result()
        ctx.require_tlc_ok(title, res, expect_violation=expect)
    ex.shutdown()
    res = f_lc.result()[1]
    if not quick:
        cov = [(int(a), int(b)) for a, b in re.findall(
            r'^<NextLC line [^>]*\)>: (\d+):(\d+)', res.output, re.M)]
        ctx.require(len(cov) == 3 and all(a > 0 for a, _ in cov),
                    f'ChanGateLC: not every action was taken: {cov}')
    ctx.require(res.distinct >= 3 * 260, f'ChanGateLC: {res.distinct} states')
    # ---- 4. self-test ----
    if not ctx.violations:
        self_test(ctx, drv, rows, rnd)
    ctx.notes.append(
        'tolerances of the code recorded in the table, not alarmed: DATA '
        'larger than the advertised maximum packet size is accepted while it '
        'fits the window; a WINDOW_ADJUST that takes the send window beyond '
        '2^32-1 is accepted; channel requests are still handed to the '
        'session after the application closed the channel (no reply once '
        'the own CLOSE is out); eof_received() is still delivered after '
        'close()')
    ctx.notes.append(
        'observation F10 again (outside the properties as stated): a second '
        'exec/shell/subsystem request on a started channel is handed to the '
        'application again, session_started() runs again and '
        'resume_reading() overrides the application\'s pause_reading(); '
        'TLC rejects that rule under StartOnce (run s_second_start); '
        'candidate patch fixes/x07_second_start_request.patch')
    ctx.assumptions += [
        'one message per row, sent when the endpoint is at rest (except '
        '"closing": CLOSE and the message in one read)',
        'receive window 16, maximum packet size 8, peer window 0; parked '
        'data = one 1-byte chunk, unsent data = two 1-byte writes',
        'state classes are reached through the public API (write, write_eof, '
        'pause_reading, close, abort, create_session) and honest peer '
        'messages; "reused" forces the number allocator '
        '(conn._next_recv_chan), numbers otherwise only repeat after 2^32 '
        'opens; "opening" on a server holds session_requested() on a future',
        'a request outstanding is only reachable while create_session() '
        'waits for the reply to its exec request (client, reading not '
        'started)',
        'channels are opened with encoding=None (no decoder errors)',
    ]


if __name__ == '__main__':
    run_check('X07', main)
