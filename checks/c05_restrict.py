"""C05, clause "the restrictions attached to the accepted credential are the
ones enforced afterwards" (every authorized_keys option set x every
certificate option set).  Called from checks/c05.py as `run(ctx, quick)`.

1. TLC checks specs/Auth/Restrict.tla - the decision functions Accepted /
   Allowed / OpenAllowed / Started transcribed from connection.py, channel.py,
   auth_keys.py, public_key.py - over the whole table (every no-* subset x
   every certificate extension subset incl. the empty one and "no
   certificate", flag-word sequences with restrict / permit words, forced
   commands, permitopen, from= / source-address / principals / validity / CA
   trust): KeyIsCeiling, CertIsCeiling, EmptyCertGrantsNothing,
   NoCertNoCertRestriction, Unrestricted, RejectedGetsNothing, Monotone,
   RestrictThenPermit, ForcedCommandWins, PermitOpenEnforced, FromEnforced,
   CertConditionsEnforced, PlainKeyNotViaCALine.  Four deliberately wrong
   variants of the rule must be rejected.  The same run emits the table.
2. Every row is materialised against the real server (real keys, real
   certificates, real authorized_keys text, real client) and each operation is
   attempted; what the server application / the client saw is compared with
   the specification:
     code admits / allows / starts what the credential's restrictions forbid
         -> VIOLATION (the property monitor)
     any other disagreement -> model divergence.
"""

import os
from concurrent.futures import ThreadPoolExecutor

from harness import tlc
from harness.framework import VERIF

SPEC = os.path.join(VERIF, 'specs', 'Auth')
INVS = ['KeyIsCeiling', 'CertIsCeiling', 'EmptyCertGrantsNothing',
        'NoCertNoCertRestriction', 'Unrestricted', 'RejectedGetsNothing',
        'Monotone', 'RestrictThenPermit', 'ForcedCommandWins',
        'PermitOpenEnforced', 'FromEnforced', 'CertConditionsEnforced',
        'PlainKeyNotViaCALine']
ALL = '{"perm", "seq", "cmd", "open", "match", "mix"}'
WORKERS = 4

# the one place where asyncssh is known not to follow sshd(8): see
# fixes/C05r_authorized_keys_restrict.patch
RESTRICT_FINDING = {'module': 'Restrict',
                    'finding': 'authorized_keys-restrict-keyword-ignored'}


def write_cfg(name, consts, invariants):
    d = dict(Tier='"quick"', Sections=ALL, RestrictRule='TRUE',
             EmptyCertIsNoCert='FALSE', KeyCommandFirst='FALSE',
             EitherGrants='FALSE')
    d.update(consts)
    lines = ['CONSTANTS'] + [f'  {k} = {v}' for k, v in d.items()]
    lines += ['SPECIFICATION Spec', 'CHECK_DEADLOCK FALSE']
    lines += [f'INVARIANT {i}' for i in invariants]
    with open(os.path.join(SPEC, name), 'w') as f:
        f.write('\n'.join(lines) + '\n')
    return name


def tlc_job(tag, consts, invariants, workers=WORKERS):
    """Start-to-finish TLC run (thread-safe: own cfg, own metadir)."""
    cfg = write_cfg(f'_{tag}.cfg', consts, invariants)
    try:
        return tlc.run(SPEC, 'Restrict', cfg, tag, timeout=900,
                       workers=workers)
    finally:
        os.remove(os.path.join(SPEC, cfg))
        tlc.cleanup(tag)


def table(ctx, tier):
    """One exhaustive run: every invariant over every row + the table."""
    consts = dict(Tier=f'"{tier}"')
    res = tlc_job('C05r_tab', consts, INVS + ['EmitRow'], workers=1)
    ctx.require_tlc_ok(f'Restrict table + invariants {consts}', res)
    rows = []
    for line in res.output.splitlines():
        if not line.startswith('"<<\\"ROW'):
            continue
        v = tlc.parse_value(tlc.parse_value(line))
        rows.append((v[1], v[2]))
    return rows


def sensitivity(quick):
    """(name, constants, invariant that must be violated)"""
    small = '{"perm", "cmd"}'
    runs = [
        ('C05r_sens1', dict(EmptyCertIsNoCert='TRUE', Sections=small),
         'EmptyCertGrantsNothing'),
        ('C05r_sens2', dict(KeyCommandFirst='TRUE', Sections='{"cmd"}'),
         'ForcedCommandWins'),
        ('C05r_sens3', dict(RestrictRule='FALSE', Sections='{"seq"}'),
         'RestrictThenPermit'),
    ]
    if not quick:
        runs += [
            ('C05r_sens4', dict(EitherGrants='TRUE', Sections=small),
             'CertIsCeiling'),
            ('C05r_sens5', dict(RestrictRule='FALSE', Sections='{"seq"}'),
             'KeyIsCeiling'),
        ]
    return runs


def _set(v):
    return v['$set'] if isinstance(v, dict) and '$set' in v else list(v)


def run(ctx, quick):
    from harness.drivers import restrict as R
    tier = 'quick' if quick else 'thorough'

    # ---- 1. the rule as a decision table ----
    rows = table(ctx, tier)
    ctx.require(len(rows) > (500 if quick else 1500),
                f'Restrict table has only {len(rows)} rows')
    # deliberately wrong variants of the rule must be rejected; these small
    # runs proceed while the rows are replayed
    pool = ThreadPoolExecutor(max_workers=3)
    jobs = [(tag, consts, inv,
             pool.submit(tlc_job, tag, consts, [inv], 1))
            for tag, consts, inv in sensitivity(quick)]

    # ---- 2. every row against the real server ----
    try:
        n = 0
        for cred, verdict in rows:
            n += 1
            judge(ctx, R, cred, verdict, n)
        ctx.traces_validated(n)
        ctx.coverage['restrict_rows'] = n
    finally:
        R.cleanup()
        pool.shutdown(wait=True)
    for tag, consts, inv, fut in jobs:
        ctx.require_tlc_ok(f'Restrict {tag} {consts} (wrong rule, expected '
                           f'to violate {inv})', fut.result(),
                           expect_violation=inv)
    ctx.assumptions += [
        'Restrict: permissions are observed at the point where the server '
        'hands the request to the application (pty_requested, '
        'connection_requested, server_requested, unix_*_requested callbacks; '
        'agent / X11: listener created and SUCCESS sent)',
        'Restrict: server-side switches allow_pty / agent_forwarding / '
        'x11_forwarding are on; host patterns are matched against the '
        'client address only (no reverse DNS); security-key '
        'no-touch-required is outside the table',
    ]
    ctx.notes.append(
        'Restrict: modelled as coded and not alarmed: a certificate without '
        'principals is valid for every user; when both force-command and '
        'command= are present the certificate\'s runs (sshd refuses the '
        'login unless they are equal); the client\'s env request replaces '
        'the entry\'s environment= value')


def judge(ctx, R, cred, verdict, n):
    case, kw = R.to_case(cred)
    obs = R.run_case(case, **kw)
    sec = cred['sec']
    desc = R.describe(case)
    key = (sec, desc, str(kw.get('client_env')))
    ctx.count(key, nontrivial=True)
    replay = {'kind': 'restrict', 'case': case, 'kw': kw,
              'spec_verdict': verdict, 'observed': obs}
    base = {'module': 'Restrict', 'section': sec,
            'cred': R.cred_class(case)}
    if n % 131 == 1:
        ctx.sample({'row': desc, 'spec': {'accepted': verdict['acc'],
                                          'ops': sorted(_set(verdict['ops']))},
                    'observed': {'accepted': obs['accepted'],
                                 'ops': sorted(o for o, a in
                                               obs['ops'].items() if a)}})
    if obs['errors'] or obs['loop_exceptions']:
        ctx.divergence(f'{desc}: harness trouble {obs["errors"]} '
                       f'{obs["loop_exceptions"]}')
        return
    # -- acceptance
    if obs['accepted'] != obs['server_accepted']:
        ctx.divergence(f'{desc}: client admitted={obs["accepted"]} but '
                       f'auth_completed={obs["server_accepted"]}')
    if obs['accepted'] and not verdict['acc']:
        ctx.violation(dict(base, clause='AcceptanceCondition',
                           why=verdict['why']),
                      f'credential admitted although its {verdict["why"]} '
                      f'condition fails: {desc}', replay=replay)
        return
    if not obs['accepted']:
        if verdict['acc']:
            ctx.divergence(f'{desc}: model accepts, code refuses')
        return
    if obs['granted'] != case['user']:
        ctx.divergence(f'{desc}: granted user {obs["granted"]}')
    # -- permissions
    want = set(_set(verdict['ops']))
    coded = set(_set(verdict['opsCoded']))
    for opname, allowed in sorted(obs['ops'].items()):
        op = opname.replace('-api', '')      # pty through the public API
        if allowed and op not in want:
            if op in coded:
                ctx.violation(RESTRICT_FINDING,
                              f'authorized_keys "restrict" / permit words '
                              f'are not enforced: {op} allowed for {desc}',
                              replay=replay)
            else:
                ctx.violation(dict(base, clause='PermissionEnforced', op=op),
                              f'{op} allowed although the credential\'s '
                              f'restrictions forbid it: {desc}',
                              replay=replay)
        elif not allowed and op in want:
            if op in coded:
                # (not in coded: the restrict-word finding seen from the
                # other side, e.g. "no-pty,pty": refusing is no breach)
                ctx.divergence(f'{desc}: model allows {op}, code refuses')
    # -- permitopen
    dwant = {f'{d["h"]}:{d["p"]}' for d in _set(verdict['dests'])}
    dcoded = {f'{d["h"]}:{d["p"]}' for d in _set(verdict['destsCoded'])}
    for d, (allowed, code) in sorted(obs['dests'].items()):
        if allowed and d not in dwant:
            if d in dcoded:
                ctx.violation(RESTRICT_FINDING,
                              f'authorized_keys "restrict" / permit words '
                              f'are not enforced: direct-tcpip to {d} '
                              f'allowed for {desc}', replay=replay)
            else:
                ctx.violation(dict(base, clause='PermitOpenEnforced'),
                              f'direct-tcpip to {d} allowed although the '
                              f'credential forbids it: {desc}',
                              replay=replay)
        elif not allowed and d in dwant and d in dcoded:
            ctx.divergence(f'{desc}: model allows open to {d}, code refuses')
    # -- forced command
    for rk, ra, sk, sa in _set(verdict['started']):
        req = R.req_name(rk, ra)
        if req not in obs['started']:
            continue
        got = obs['started'][req]
        exp = [sk, R.cmd_text(sa) if sk == 'exec' else
               (None if sk == 'shell' else sa)]
        if got['start'] == exp and got['n'] == 1:
            continue
        forced = (sk, sa) != (rk, ra)
        if forced and got['start'] is not None:
            ctx.violation(dict(base, clause='ForcedCommandEnforced',
                               request=rk),
                          f'session started {got["start"]} although the '
                          f'credential forces {exp}: {desc}', replay=replay)
        else:
            ctx.divergence(f'{desc}: request {req}: model {exp}, code '
                           f'{got}')
    # -- environment (conformance only)
    if kw.get('requests') and sec in ('cmd', 'mix'):
        exp_env = R.env_text(verdict['env'])
        for req, got in obs['started'].items():
            if got['env'] is not None and got['env'].get('N') != exp_env:
                ctx.divergence(f'{desc}: environment N: model {exp_env!r}, '
                               f'code {got["env"].get("N")!r}')
