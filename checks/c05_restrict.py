"""C05, clause "the restrictions attached to the accepted credential are the
ones enforced afterwards" (every authorized_keys option set x every
certificate option set).  Called from checks/c05.py as `run(ctx, quick)`.

1. TLC checks specs/Auth/Restrict.tla - the decision functions Accepted /
   Allowed / OpenAllowed / Started transcribed from connection.py, channel.py,
   auth_keys.py, public_key.py - over the whole table (every no-* subset x
   every certificate extension subset incl. the empty one and "no
   certificate", flag-word sequences with restrict / permit words, forced
   commands, permitopen, from= / source-address / principals / validity / CA
   trust): KeyIsCeiling, CertIsCeiling, EmptyCertGrantsNothing,
   NoCertNoCertRestriction, Unrestricted, RejectedGetsNothing, Monotone,
   RestrictThenPermit, ForcedCommandWins, PermitOpenEnforced, FromEnforced,
   CertConditionsEnforced, PlainKeyNotViaCALine; security keys (section
   "sk": sk-ed25519 / sk-ecdsa as plain line, certificate from a
   cert-authority line, callback-accepted; no-touch-required /
   verify-required on the line x no-touch-required extension x signature
   flags user-presence / user-verification x application id): TouchEnforced,
   VerifyEnforced, SkSignatureBound, SkWordsOnlyRestrict.  Deliberately wrong
   variants of the rule (EmptyCertIsNoCert, KeyCommandFirst, EitherGrants,
   RestrictRule / VerifyRule = FALSE, EitherWaivesTouch, CallbackWaivesTouch)
   must be rejected.  The same run emits the table.
2. Every row is materialised against the real server (real keys, real
   certificates, real authorized_keys text, real client) and each operation is
   attempted; what the server application / the client saw is compared with
   the specification:
     code admits / allows / starts what the credential's restrictions forbid
         -> VIOLATION (the property monitor)
     any other disagreement -> model divergence.
3. History independence (specs/Auth/RestrictSeq.tla): rows are a server
   set-up (per-user authorized keys installed by begin_auth + site-wide
   validate_public_key / validate_ca_key callbacks) and a sequence of 2-3
   authentication requests on ONE connection, each with its own user name
   and credential (publickey query / signed / bad signature, password right /
   wrong).  TLC checks NoCarryOver, VerdictHistoryIndependent, NoLoosening,
   ForcedCommandOfAccepted for the connection model that clears both option
   sets per request; the model of asyncssh as coded must keep the verdict and
   never widen anything; the wrong variant "keep" (options survive on the
   validate_ca_key path) must be rejected.  A raw client sends each emitted
   sequence to the real server, then turns into an ordinary client and probes
   every operation: every reply, the admitted user and every restriction
   must be those of the deciding request ALONE (the single-request table).
     a request admitted that is not valid on its own, an operation allowed /
     a command started that the admitted credential forbids -> VIOLATION
     a restriction ADDED by an earlier request, as the coded model predicts
         -> counted (coverage.restrict_seq_failclosed_carryover), no alarm
     any other disagreement -> model divergence.
"""

import os
from concurrent.futures import ThreadPoolExecutor

from harness import tlc
from harness.framework import VERIF

SPEC = os.path.join(VERIF, 'specs', 'Auth')
INVS = ['KeyIsCeiling', 'CertIsCeiling', 'EmptyCertGrantsNothing',
        'NoCertNoCertRestriction', 'Unrestricted', 'RejectedGetsNothing',
        'Monotone', 'RestrictThenPermit', 'ForcedCommandWins',
        'PermitOpenEnforced', 'FromEnforced', 'CertConditionsEnforced',
        'PlainKeyNotViaCALine', 'TouchEnforced', 'VerifyEnforced',
        'SkSignatureBound', 'SkWordsOnlyRestrict']
ALL = '{"perm", "seq", "cmd", "open", "match", "mix", "sk"}'
WORKERS = 4

# the one place where asyncssh is known not to follow sshd(8): see
# fixes/C05r_authorized_keys_restrict.patch
RESTRICT_FINDING = {'module': 'Restrict',
                    'finding': 'authorized_keys-restrict-keyword-ignored'}


# sshd(8) verify-required (signature must assert FIDO user verification) is
# parsed as an unknown flag and ignored:
# fixes/C05r_authorized_keys_verify_required.patch
VERIFY_FINDING = {'module': 'Restrict',
                  'finding': 'authorized_keys-verify-required-ignored'}


def write_cfg(name, consts, invariants, module='Restrict'):
    d = dict(Tier='"quick"', Sections=ALL, RestrictRule='TRUE',
             EmptyCertIsNoCert='FALSE', KeyCommandFirst='FALSE',
             EitherGrants='FALSE', VerifyRule='TRUE',
             EitherWaivesTouch='FALSE', CallbackWaivesTouch='FALSE')
    if module == 'RestrictSeq':
        d.update(Sections='{}', Carry='"reset"', SeqTier='"quick"')
    d.update(consts)
    lines = ['CONSTANTS'] + [f'  {k} = {v}' for k, v in d.items()]
    lines += ['SPECIFICATION ' + ('HSpec' if module == 'RestrictSeq'
                                  else 'Spec'), 'CHECK_DEADLOCK FALSE']
    lines += [f'INVARIANT {i}' for i in invariants]
    with open(os.path.join(SPEC, name), 'w') as f:
        f.write('\n'.join(lines) + '\n')
    return name


def tlc_job(tag, consts, invariants, workers=WORKERS, module='Restrict'):
    """Start-to-finish TLC run (own cfg, own metadir: safe with threads and
    with another ./check C05 running at the same time)."""
    tag = f'{tag}_{os.getpid()}'
    cfg = write_cfg(f'_{tag}.cfg', consts, invariants, module)
    try:
        return tlc.run(SPEC, module, cfg, tag, timeout=1800,
                       workers=workers)
    finally:
        os.remove(os.path.join(SPEC, cfg))
        tlc.cleanup(tag)


def table(ctx, tier):
    """One exhaustive run: every invariant over every row + the table."""
    consts = dict(Tier=f'"{tier}"')
    res = tlc_job('C05r_tab', consts, INVS + ['EmitRow'], workers=1)
    ctx.require_tlc_ok(f'Restrict table + invariants {consts}', res)
    rows = []
    for line in res.output.splitlines():
        if not line.startswith('"<<\\"ROW'):
            continue
        v = tlc.parse_value(tlc.parse_value(line))
        rows.append((v[1], v[2]))
    return rows


def sensitivity(quick):
    """(name, constants, invariant that must be violated)"""
    small = '{"perm", "cmd"}'
    runs = [
        ('C05r_sens1', dict(EmptyCertIsNoCert='TRUE', Sections=small),
         'EmptyCertGrantsNothing'),
        ('C05r_sens2', dict(KeyCommandFirst='TRUE', Sections='{"cmd"}'),
         'ForcedCommandWins'),
        ('C05r_sens3', dict(RestrictRule='FALSE', Sections='{"seq"}'),
         'RestrictThenPermit'),
        ('C05r_sens6', dict(EitherWaivesTouch='TRUE', Sections='{"sk"}'),
         'TouchEnforced'),
        ('C05r_sens7', dict(VerifyRule='FALSE', Sections='{"sk"}'),
         'VerifyEnforced'),
    ]
    if not quick:
        runs += [
            ('C05r_sens4', dict(EitherGrants='TRUE', Sections=small),
             'CertIsCeiling'),
            ('C05r_sens5', dict(RestrictRule='FALSE', Sections='{"seq"}'),
             'KeyIsCeiling'),
            ('C05r_sens8', dict(CallbackWaivesTouch='TRUE', Sections='{"sk"}'),
             'TouchEnforced'),
        ]
    return runs


HIST_INVS = ['NoCarryOver', 'VerdictHistoryIndependent', 'NoLoosening',
             'ForcedCommandOfAccepted']


def hist_job(tier):
    """RestrictSeq: the history-independence rule over request sequences
    (model with both option sets cleared per request) + the rows."""
    return tlc_job('C05r_hist', dict(SeqTier=f'"{tier}"'),
                   HIST_INVS + ['EmitHist'], workers=1, module='RestrictSeq')


def hist_rows(res):
    pool, rows = None, []
    for line in res.output.splitlines():
        if line.startswith('"<<\\"POOL'):
            v = tlc.parse_value(tlc.parse_value(line))
            pool = (v[1], v[2])
        elif line.startswith('"<<\\"HROW'):
            v = tlc.parse_value(tlc.parse_value(line))
            rows.append((v[1], v[2]))
    return pool, rows


def hist_sensitivity(quick):
    """(tag, constants, invariants, invariant that must be violated or None)
    for RestrictSeq."""
    q = dict(SeqTier='"quick"')
    return [
        # the wrong variant: options kept on the validate_ca_key path
        ('C05r_hsens1', dict(q, Carry='"keep"'),
         ['VerdictHistoryIndependent'], 'VerdictHistoryIndependent'),
        # asyncssh as coded: never lets anybody in / widens anything ...
        ('C05r_hcoded', dict(q, Carry='"coded"'),
         ['VerdictHistoryIndependent', 'NoLoosening'], None),
        # ... but does carry options over (fail-closed, and finding
        # STALE_FORCE_FINDING)
        ('C05r_hsens2', dict(q, Carry='"coded"'),
         ['NoCarryOver'], 'NoCarryOver'),
    ] + ([] if quick else [
        ('C05r_hsens3', dict(q, Carry='"coded"'),
         ['ForcedCommandOfAccepted'], 'ForcedCommandOfAccepted'),
    ])


def _set(v):
    return v['$set'] if isinstance(v, dict) and '$set' in v else list(v)


def run(ctx, quick):
    from harness.drivers import restrict as R
    tier = 'quick' if quick else 'thorough'

    # ---- 1. the rules as decision tables ----
    # the sequence table (RestrictSeq) is computed while the single-request
    # rows are replayed
    pool = ThreadPoolExecutor(max_workers=4)
    hist = pool.submit(hist_job, tier)
    rows = table(ctx, tier)
    ctx.require(len(rows) > (500 if quick else 1500),
                f'Restrict table has only {len(rows)} rows')
    # deliberately wrong variants of the rules must be rejected; these small
    # runs proceed while the rows are replayed
    jobs = [(f'Restrict {tag} {consts} (wrong rule, expected to violate '
             f'{inv})', inv, pool.submit(tlc_job, tag, consts, [inv], 1))
            for tag, consts, inv in sensitivity(quick)]
    jobs += [(f'RestrictSeq {tag} {consts} ' +
              (f'(expected to violate {exp})' if exp else f'{invs}'), exp,
              pool.submit(tlc_job, tag, consts, invs, 2, 'RestrictSeq'))
             for tag, consts, invs, exp in hist_sensitivity(quick)]

    # ---- 2. every row against the real server ----
    try:
        n = 0
        for cred, verdict in rows:
            n += 1
            judge(ctx, R, cred, verdict, n)
        ctx.coverage['restrict_rows'] = n
        # ---- 3. request sequences on one connection (raw client) ----
        res = hist.result()
        ctx.require_tlc_ok(f'RestrictSeq table + invariants {tier}', res)
        hpool, hrows = hist_rows(res)
        ctx.require(hpool is not None and
                    len(hrows) > (300 if quick else 1500),
                    f'RestrictSeq emitted {len(hrows)} rows')
        tolerated = {}
        for h, verdict in hrows:
            n += 1
            judge_hist(ctx, R, h, verdict, hpool, n, tolerated)
        ctx.traces_validated(n)
        ctx.coverage['restrict_seq_rows'] = len(hrows)
        ctx.coverage['restrict_seq_failclosed_carryover'] = tolerated
    finally:
        R.cleanup()
        pool.shutdown(wait=True)
    for name, exp, fut in jobs:
        ctx.require_tlc_ok(name, fut.result(), expect_violation=exp)
    ctx.assumptions += [
        'Restrict: permissions are observed at the point where the server '
        'hands the request to the application (pty_requested, '
        'connection_requested, server_requested, unix_*_requested callbacks; '
        'agent / X11: listener created and SUCCESS sent)',
        'Restrict: server-side switches allow_pty / agent_forwarding / '
        'x11_forwarding are on; host patterns are matched against the '
        'client address only (no reverse DNS); security-key '
        'no-touch-required is outside the table',
    ]
    ctx.notes.append(
        'RestrictSeq: asyncssh never clears _key_options / _cert_options '
        'between authentication requests; where that only ADDS restrictions '
        'of a credential that was examined earlier (no-* words, missing '
        'certificate permits, permitopen, a forced command where the '
        'admitted credential has none, environment=) it is counted in '
        'coverage.restrict_seq_failclosed_carryover and not alarmed')
    ctx.notes.append(
        'Restrict: modelled as coded and not alarmed: a certificate without '
        'principals is valid for every user; when both force-command and '
        'command= are present the certificate\'s runs (sshd refuses the '
        'login unless they are equal); the client\'s env request replaces '
        'the entry\'s environment= value')


def judge(ctx, R, cred, verdict, n):
    case, kw = R.to_case(cred)
    obs = R.run_case(case, **kw)
    sec = cred['sec']
    desc = R.describe(case)
    key = (sec, desc, str(kw.get('client_env')))
    ctx.count(key, nontrivial=True)
    replay = {'kind': 'restrict', 'case': case, 'kw': kw,
              'spec_verdict': verdict, 'observed': obs}
    base = {'module': 'Restrict', 'section': sec,
            'cred': R.cred_class(case)}
    if n % 131 == 1:
        ctx.sample({'row': desc, 'spec': {'accepted': verdict['acc'],
                                          'ops': sorted(_set(verdict['ops']))},
                    'observed': {'accepted': obs['accepted'],
                                 'ops': sorted(o for o, a in
                                               obs['ops'].items() if a)}})
    if obs['errors'] or obs['loop_exceptions']:
        ctx.divergence(f'{desc}: harness trouble {obs["errors"]} '
                       f'{obs["loop_exceptions"]}')
        return
    # -- acceptance
    if obs['accepted'] != obs['server_accepted']:
        ctx.divergence(f'{desc}: client admitted={obs["accepted"]} but '
                       f'auth_completed={obs["server_accepted"]}')
    if obs['accepted'] and not verdict['acc'] and verdict['accCoded']:
        ctx.violation(VERIFY_FINDING,
                      f'authorized_keys "verify-required" is not enforced: '
                      f'signature without the user-verification bit '
                      f'admitted: {desc}', replay=replay)
        return
    if obs['accepted'] and not verdict['acc']:
        ctx.violation(dict(base, clause='AcceptanceCondition',
                           why=verdict['why']),
                      f'credential admitted although its {verdict["why"]} '
                      f'condition fails: {desc}', replay=replay)
        return
    if not obs['accepted']:
        if verdict['acc']:
            ctx.divergence(f'{desc}: model accepts, code refuses')
        return
    if obs['granted'] != case['user']:
        ctx.divergence(f'{desc}: granted user {obs["granted"]}')
    # -- permissions
    want = set(_set(verdict['ops']))
    coded = set(_set(verdict['opsCoded']))
    for opname, allowed in sorted(obs['ops'].items()):
        op = opname.replace('-api', '')      # pty through the public API
        if allowed and op not in want:
            if op in coded:
                ctx.violation(RESTRICT_FINDING,
                              f'authorized_keys "restrict" / permit words '
                              f'are not enforced: {op} allowed for {desc}',
                              replay=replay)
            else:
                ctx.violation(dict(base, clause='PermissionEnforced', op=op),
                              f'{op} allowed although the credential\'s '
                              f'restrictions forbid it: {desc}',
                              replay=replay)
        elif not allowed and op in want:
            if op in coded:
                # (not in coded: the restrict-word finding seen from the
                # other side, e.g. "no-pty,pty": refusing is no breach)
                ctx.divergence(f'{desc}: model allows {op}, code refuses')
    # -- permitopen
    dwant = {f'{d["h"]}:{d["p"]}' for d in _set(verdict['dests'])}
    dcoded = {f'{d["h"]}:{d["p"]}' for d in _set(verdict['destsCoded'])}
    for d, (allowed, code) in sorted(obs['dests'].items()):
        if allowed and d not in dwant:
            if d in dcoded:
                ctx.violation(RESTRICT_FINDING,
                              f'authorized_keys "restrict" / permit words '
                              f'are not enforced: direct-tcpip to {d} '
                              f'allowed for {desc}', replay=replay)
            else:
                ctx.violation(dict(base, clause='PermitOpenEnforced'),
                              f'direct-tcpip to {d} allowed although the '
                              f'credential forbids it: {desc}',
                              replay=replay)
        elif not allowed and d in dwant and d in dcoded:
            ctx.divergence(f'{desc}: model allows open to {d}, code refuses')
    # -- forced command
    for rk, ra, sk, sa in _set(verdict['started']):
        req = R.req_name(rk, ra)
        if req not in obs['started']:
            continue
        got = obs['started'][req]
        exp = [sk, R.cmd_text(sa) if sk == 'exec' else
               (None if sk == 'shell' else sa)]
        if got['start'] == exp and got['n'] == 1:
            continue
        forced = (sk, sa) != (rk, ra)
        if forced and got['start'] is not None:
            ctx.violation(dict(base, clause='ForcedCommandEnforced',
                               request=rk),
                          f'session started {got["start"]} although the '
                          f'credential forces {exp}: {desc}', replay=replay)
        else:
            ctx.divergence(f'{desc}: request {req}: model {exp}, code '
                           f'{got}')
    # -- environment (conformance only)
    if kw.get('requests') and sec in ('cmd', 'mix'):
        exp_env = R.env_text(verdict['env'])
        for req, got in obs['started'].items():
            if got['env'] is not None and got['env'].get('N') != exp_env:
                ctx.divergence(f'{desc}: environment N: model {exp_env!r}, '
                               f'code {got["env"].get("N")!r}')


# a certificate examined earlier on the connection (query / bad signature)
# leaves its force-command behind; it then replaces command= of the key that
# is admitted: fixes/C05r_reset_credential_options.patch
STALE_FORCE_FINDING = {'module': 'RestrictSeq',
                       'finding': 'stale-certificate-force-command'}


def judge_hist(ctx, R, h, verdict, hpool, n, tolerated):
    case, kw = R.to_hist_case(h, hpool)
    obs = R.run_case(case, **kw)
    desc = R.describe_hist(case)
    ctx.count(('hist', desc), nontrivial=True)
    alone, coded = verdict['alone'], verdict['coded']
    replay = {'kind': 'restrict-seq', 'case': case, 'kw': kw,
              'spec_verdict': verdict, 'observed': obs}
    base = {'module': 'RestrictSeq', 'class': verdict['class'],
            'steps': [s['kind'] for s in case['steps']]}
    if n % 173 == 1:
        ctx.sample({'row': desc, 'spec': {'replies': alone['replies'],
                                          'user': alone['user']},
                    'observed': {'replies': obs.get('replies'),
                                 'user': obs['granted']}})

    def tolerate(what):
        tolerated[what] = tolerated.get(what, 0) + 1

    if obs['errors'] or obs['loop_exceptions']:
        ctx.divergence(f'{desc}: harness trouble {obs["errors"]} '
                       f'{obs["loop_exceptions"]}')
        return
    # -- who gets in
    for i, (got, exp) in enumerate(zip(obs['replies'], alone['replies'])):
        if got == exp:
            continue
        st = case['steps'][i]
        if got == 'success':
            ctx.violation(dict(base, clause='NoCarryOver-admission',
                               step=st['kind'], cred=st['name']),
                          f'request {i + 1} {st["kind"]}({st["user"]}, '
                          f'{st["name"]}) admitted although this credential '
                          f'is not valid for {st["user"]} on its own: {desc}',
                          replay=replay)
            return
        ctx.divergence(f'{desc}: reply {i + 1}: model {exp}, code {got}')
        return
    if obs['accepted'] != alone['acc'] or \
            obs['server_accepted'] != alone['acc']:
        ctx.divergence(f'{desc}: admitted: model {alone["acc"]}, client '
                       f'{obs["accepted"]}, server {obs["server_accepted"]}')
        return
    if not alone['acc']:
        return
    if obs['granted'] != alone['user']:
        ctx.violation(dict(base, clause='NoCarryOver-user'),
                      f'admitted as {obs["granted"]} by a request for '
                      f'{alone["user"]}: {desc}', replay=replay)
        return
    # -- restrictions in force
    want, cwant = set(_set(alone['ops'])), set(_set(coded['ops']))
    for op, allowed in sorted(obs['ops'].items()):
        if allowed and op not in want:
            ctx.violation(dict(base, clause='PermissionEnforced', op=op),
                          f'{op} allowed although the admitted credential\'s '
                          f'restrictions forbid it: {desc}', replay=replay)
        elif not allowed and op in want:
            if op not in cwant:
                tolerate('permission')
            else:
                ctx.divergence(f'{desc}: model allows {op}, code refuses')
    fmt = lambda ds: {f'{d["h"]}:{d["p"]}' for d in _set(ds)}
    dwant, dcoded = fmt(alone['dests']), fmt(coded['dests'])
    for d, (allowed, _code) in sorted(obs['dests'].items()):
        if allowed and d not in dwant:
            ctx.violation(dict(base, clause='PermitOpenEnforced'),
                          f'direct-tcpip to {d} allowed although the '
                          f'admitted credential forbids it: {desc}',
                          replay=replay)
        elif not allowed and d in dwant:
            if d not in dcoded:
                tolerate('permitopen')
            else:
                ctx.divergence(f'{desc}: model allows open to {d}, code '
                               f'refuses')
    cstarted = {(t[0], t[1]): (t[2], t[3]) for t in _set(coded['started'])}
    for rk, ra, sk, sa in _set(alone['started']):
        req = R.req_name(rk, ra)
        got = obs['started'].get(req)
        if got is None:
            continue
        text = lambda k_, a_: [k_, R.cmd_text(a_) if k_ == 'exec' else
                               (None if k_ == 'shell' else a_)]
        exp = text(sk, sa)
        if got['start'] == exp and got['n'] == 1:
            continue
        as_coded = got['start'] == text(*cstarted.get((rk, ra), (rk, ra)))
        if (sk, sa) != (rk, ra) and got['start'] is not None:
            ctx.violation(
                STALE_FORCE_FINDING if as_coded else
                dict(base, clause='ForcedCommandEnforced', request=rk),
                f'session started {got["start"]} although the admitted '
                f'credential forces {exp}: {desc}', replay=replay)
        elif as_coded:
            tolerate('forced-command')
        else:
            ctx.divergence(f'{desc}: request {req}: model {exp}, code {got}')
    exp_env, coded_env = R.env_text(alone['env']), R.env_text(coded['env'])
    for req, got in obs['started'].items():
        if got['env'] is None or got['env'].get('N') == exp_env:
            continue
        if got['env'].get('N') == coded_env:
            tolerate('environment')
        else:
            ctx.divergence(f'{desc}: environment N: model {exp_env!r}, code '
                           f'{got["env"].get("N")!r}')
        break
