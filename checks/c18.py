"""C18 - config files resolve like OpenSSH, and never expand unsafe input.

1. TLC enumerates abstract configuration programs (specs/Config: Host/Match
   blocks with negation and several criteria, canonical/final passes,
   first-value-wins scalars, accumulating lists, Include file and glob,
   spelling variants, percent/env tokens; server side: AuthorizedKeysFile with
   %u and hostile user names) as initial states and checks FirstWins,
   Accumulates, IncludeInPlace, IncludeRestores, NoUnsafeExpansion on every
   one; sensitivity runs (lists first-wins, '!' ignored, '!' sticky, a first
   "none" treated as unset, Include leaking its match state) must violate;
   witnesses show that second passes happen.  Besides free programs there
   are generated Host/Match lines (every pair of criteria in every negation
   placement) and value-class programs: the same option twice, every ordered
   pair of its value classes (ordinary, "none" in several spellings, quoted
   empty, the default, boolean spellings, numbers, +/-/^ lists, list values)
   in two matching blocks, across Include, in two files given as a list, and
   in an options object chained on another one (also with a final pass).
2. Every case printed by TLC is pretty-printed to real files under
   /verif/.work and loaded with SSHClientConfig.load (first pass and the
   second pass as Options.update makes it), a sample also through
   SSHClientConnectionOptions(config=...) following connection._connect(),
   SSHServerConfig.load and SSHServerConnectionOptions(reload=True) with an
   audit hook recording the files opened.  Resolved values are compared with
   the specification's.
3. Second opinion: `ssh -G -F file host` on the client subset ssh can answer
   offline (advisory: it can veto a violation, never raise one), and a
   ProxyCommand echo run by real ssh for token expansion.
"""

import concurrent.futures as cf
import os
import re
import shutil
import subprocess
import tempfile
import time

from harness import tlc
from harness.framework import run_check, VERIF

SPEC = os.path.join(VERIF, 'specs', 'Config')
JVM_ENV = {'JDK_JAVA_OPTIONS': '-XX:ParallelGCThreads=2 -XX:CICompilerCount=2'}

DEF = dict(Mode='"cli"', Emit='FALSE', MaxMain=2, MaxInc=0, MainSel=[1, 25],
           IncSel=[], TgtSel=[1, 2], SampleMod=1, SampleRem=0,
           ListFirstWins='FALSE', NegNoop='FALSE', SpliceLeaks='FALSE',
           NegSticky='FALSE', NoneUnset='FALSE', ValSel=[], ShapeSel=[1],
           GenSel=[], PreSel=[0], CanonSel=[0], ExecAlways='FALSE',
           ExpSel=[], ExpandOrder='"single"', MaxLex=3, SpellSel=[],
           RawFirstWordGate='FALSE',
           HashCutsWord='FALSE',
           FinalShortCut='FALSE')

CLI_ALL = list(range(1, 46))
INVS = {'cli': ['FirstWins', 'Accumulates', 'IncludeInPlace',
                'IncludeRestores', 'SecondPassOrderFree', 'ExecGuarded',
                'NoRescan', 'SpellingInvariant'],
        'srv': ['NoUnsafeExpansion', 'NoRescan'],
        'lex': ['HashIsAWordCharacter', 'QuotesMustBalance']}
DEFECTS = {1: 'second_pass_restarts', 2: 'expansion_per_file',
           4: 'include_glob_unsorted', 8: 'chained_options_expand_twice',
           16: 'token_value_env_rescan'}
# The pinned tree expands tokens first and then looks for ${VAR} in the result,
# so a token VALUE (user name, host name) containing ${VAR} is expanded again;
# ssh makes one pass.  Recorded as an observation (notes), not judged, until it
# is listed or repaired: set to True to judge it.
JUDGE_RESCAN = True


def write_cfg(name, invs, **kw):
    d = dict(DEF)
    d.update(kw)
    lines = ['CONSTANTS']
    for k, v in d.items():
        if isinstance(v, (list, tuple, set)):
            v = '{' + ', '.join(str(x) for x in sorted(v)) + '}'
        lines.append(f'  {k} = {v}')
    lines += ['SPECIFICATION Spec', 'CHECK_DEADLOCK FALSE']
    lines += [f'INVARIANT {i}' for i in invs]
    with open(os.path.join(SPEC, name), 'w') as f:
        f.write('\n'.join(lines) + '\n')
    return name


def run_tlc(name, invs, timeout=1500, **kw):
    # unique per process: several runs of this check may be active at once
    cfg = write_cfg(f'_c18_{os.getpid()}_{name}.cfg', invs, **kw)
    tag = f'c18_{os.getpid()}_{name}'
    try:
        res = tlc.run(SPEC, 'Config', cfg, tag, workers=1, timeout=timeout,
                      java_heap='2g', env=JVM_ENV)
        if res.error and not res.violation and not res.timed_out:
            res = tlc.run(SPEC, 'Config', cfg, tag, workers=1,
                          timeout=timeout, java_heap='2g', env=JVM_ENV)
        return res
    finally:
        tlc.cleanup(tag)
        try:
            os.remove(os.path.join(SPEC, cfg))
        except OSError:
            pass


def plan(ctx):
    q = ctx.tier == 'quick'
    r = ctx.seed

    def smp(mod):
        return dict(SampleMod=mod, SampleRem=r % mod)
    runs = [
        ('all2', 'cli', dict(MaxMain=2, MainSel=CLI_ALL,
                             TgtSel=[1, 2, 3, 4, 5, 6], **smp(2 if q else 1))),
        ('host3', 'cli', dict(MaxMain=3, TgtSel=[1, 2, 3, 4],
                              MainSel=[1, 3, 4, 5, 6, 25, 26, 45, 27, 32, 36],
                              **smp(2 if q else 1))),
        ('match3', 'cli', dict(MaxMain=3, TgtSel=[1, 2, 3, 4],
                               MainSel=[8, 11, 12, 13, 14, 15, 16, 23, 24, 25,
                                        27, 28], **smp(2 if q else 1))),
        ('rewrite4', 'cli', dict(MaxMain=4, TgtSel=[1, 2],
                                 MainSel=[8, 9, 10, 25, 29, 30, 33, 42],
                                 **smp(3 if q else 1))),
        ('final4', 'cli', dict(MaxMain=4, TgtSel=[1, 3, 5],
                               MainSel=[3, 17, 19, 20, 21, 25, 26, 27, 29, 36],
                               **smp(8 if q else 1))),
        ('inc3', 'cli', dict(MaxMain=3, MaxInc=2, TgtSel=[1, 2],
                             MainSel=[2, 3, 25, 27, 29, 33, 43, 44],
                             IncSel=[1, 3, 25, 29, 32], **smp(24 if q else 2))),
        ('tag3', 'cli', dict(MaxMain=3, TgtSel=[1, 2],
                             MainSel=[2, 3, 22, 25, 41])),
        # generated Host / Match lines: all pairs (and some triples) of
        # criteria in every negation placement x targets giving every truth
        # combination; alone, after "Tag t1", after "Hostname ra"
        ('gencli', 'cli', dict(GenSel=[1, 2, 3], PreSel=[0, 29, 41],
                               TgtSel=[1, 2, 3, 4], **smp(2 if q else 1))),
        # position of final / canonical / all / exec among the criteria of a
        # Match line x host name canonicalisation configured in the file
        # (yes / always, domains, max dots, fallback) or requested by the
        # caller: both passes run in the library's own connect()
        ('genfin', 'cli', dict(GenSel=[6, 7], PreSel=[0],
                               CanonSel=[0, 1, 2, 3, 4, 5, 6],
                               TgtSel=[1, 3, 5, 7], **smp(12 if q else 1))),
        # expansion: every expanding option x templates of literal / %token /
        # %% / ${VAR} pieces x token values and environment values that
        # contain %, %%, %h, ${X}, $ themselves
        ('expcli', 'cli', dict(ExpSel=[0, 1, 2, 3, 4], TgtSel=[1, 8, 9, 10])),
        ('expsrv', 'srv', dict(ExpSel=[0], TgtSel=[1, 10, 15, 23, 9, 19])),
        # the lexical layer: keyword + every argument text over {blank, tab,
        # =, x, #, ", ', backslash} for a single-valued, a list, a
        # rest-of-line option and Host; leading blanks, CRLF, trailing blanks
        ('lex', 'lex', dict(MaxLex=5, **smp(8 if q else 1))),
        # spelling of EVERY directive, block-opening ones included (K v, K=v,
        # K = v, K= v, K =v, tab, blanks, case, quoted) x the context the line
        # stands in (top, after a matching / non-matching block, after an
        # Include) x leading / trailing blanks, CR LF, comment and empty
        # lines, last line without newline
        ('spell', 'cli', dict(SpellSel=[1, 2, 3, 4], TgtSel=[1, 2],
                              **smp(2 if q else 1))),
        ('gensrv', 'srv', dict(GenSel=[4], PreSel=[0, 52],
                               TgtSel=[1, 2, 3, 9, 12])),
        # value classes: the same option twice (every ordered pair of: ordinary
        # value, "none" in several spellings, quoted empty, the default,
        # booleans in every spelling, numbers, +/-/^ lists, list values) in two
        # matching blocks / across Include / two files / chained options
        ('valcli', 'cli', dict(ValSel=list(range(1, 26)),
                               ShapeSel=[1, 2, 3, 4, 5, 6],
                               TgtSel=[1] if q else [1, 4])),
        ('valsrv', 'srv', dict(ValSel=list(range(26, 34)),
                               ShapeSel=[1, 2, 3, 4], TgtSel=[1, 2, 9])),
        ('srv3', 'srv', dict(MaxMain=3, MaxInc=1,
                             MainSel=[7, 43, 46, 47, 48, 49, 50, 51, 52, 53],
                             IncSel=[46, 48, 50, 51], **smp(12 if q else 1))),
    ]
    if not q:
        runs += [
            ('all3', 'cli', dict(MaxMain=3, MainSel=CLI_ALL, TgtSel=[1, 2, 3, 4],
                                 **smp(6))),
            ('finalinc', 'cli', dict(MaxMain=4, MaxInc=1, TgtSel=[1, 5],
                                     MainSel=[3, 19, 20, 25, 33, 43, 44, 29],
                                     IncSel=[19, 25, 27, 29], **smp(4))),
        ]
    return runs


SENSITIVITY = [
    ('lists', 'cli', dict(MaxMain=3, MainSel=[3, 32, 35, 36, 37],
                          ListFirstWins='TRUE'), 'Accumulates'),
    ('negation', 'cli', dict(MaxMain=2, MainSel=[12, 14, 16, 23, 25, 27],
                             TgtSel=[1, 3], NegNoop='TRUE'), 'FirstWins'),
    ('sticky', 'cli', dict(GenSel=[1], PreSel=[0], TgtSel=[1, 2, 3, 4],
                           NegSticky='TRUE'), 'FirstWins'),
    ('noneunset', 'cli', dict(ValSel=[1, 2, 19], ShapeSel=[1], TgtSel=[1],
                              NoneUnset='TRUE'), 'FirstWins'),
    ('finalshortcut', 'cli', dict(GenSel=[6], PreSel=[0], TgtSel=[1, 3],
                                  FinalShortCut='TRUE'),
     'SecondPassOrderFree'),
    ('execalways', 'cli', dict(GenSel=[6], PreSel=[0], TgtSel=[1, 3],
                               ExecAlways='TRUE'), 'ExecGuarded'),
    ('envtok', 'cli', dict(ExpSel=[0, 1], TgtSel=[1, 9],
                           ExpandOrder='"envtok"'), 'NoRescan'),
    ('tokenv', 'cli', dict(ExpSel=[0, 2], TgtSel=[1, 8],
                           ExpandOrder='"tokenv"'), 'NoRescan'),
    ('envtok_srv', 'srv', dict(ExpSel=[0], TgtSel=[1, 10],
                               ExpandOrder='"envtok"'), 'NoRescan'),
    ('hashcuts', 'lex', dict(MaxLex=3, HashCutsWord='TRUE'),
     'HashIsAWordCharacter'),
    ('rawgate', 'cli', dict(SpellSel=[3, 4], TgtSel=[1, 2],
                            RawFirstWordGate='TRUE'), 'SpellingInvariant'),
    ('splice', 'cli', dict(MaxMain=3, MaxInc=2, MainSel=[43, 25, 26],
                           IncSel=[2, 25, 5], SpliceLeaks='TRUE'),
     'IncludeRestores'),
    ('wit_second', 'cli', dict(MaxMain=2, MainSel=[19, 25]),
     'NeverSecondPass'),
    ('wit_alt', 'cli', dict(MaxMain=3, MainSel=[19, 20, 25, 26]),
     'NeverAltDiffers'),
]

# token expansion as real ssh performs it (ProxyCommand echo)
# (name, main file, include file, what ssh and the rule give, what expansion at
# the end of every file would give)
ECHO_CASES = [
    ('plain', ['ProxyCommand sh -c "echo %h/%p/%r/%n/%% > @OUT@"',
               'Hostname real', 'User bob', 'Port 2200'], None,
     'real/2200/bob/hosta/%', None),
    ('include before the values are known',
     ['ProxyCommand sh -c "echo %h/%%h/%p/%r > @OUT@"', 'Include @INC@',
      'Hostname real', 'User bob', 'Port 2200'], '# nothing\n',
     'real/%h/2200/bob', 'hosta/real/22/@LU@'),
    ('values set inside the include',
     ['ProxyCommand sh -c "echo %h/%p/%r > @OUT@"', 'Include @INC@',
      'Port 2200'], 'Hostname inner\nUser carol\n', 'inner/2200/carol',
     'inner/22/carol'),
]


def bits(n):
    return [DEFECTS[b] for b in (1, 2, 4, 8, 16) if n & b]


class Replayer:
    def __init__(self, ctx, cd, menu, root):
        self.ctx = ctx
        self.cd = cd
        self.menu = menu
        self.world = cd.World(root)
        self.n = 0
        self.defect_hits = {}
        self.suppressed = 0
        self.second = []
        self.second_val = []
        self.lex_second = []
        self.rescan_seen = 0
        self.rescan_example = ''
        self.connector = cd.Connector()
        self.resolved = 0
        self.glob_rev = self.world.glob_reversed

    def violation(self, sig, what, replay):
        if len(self.ctx.violations) >= 40:
            self.suppressed += 1
            return
        self.ctx.violation(sig, what, replay=replay)

    def defect(self, names, what, replay):
        """One report per named departure (also when it only shows in
        combination with another one); repeats are counted."""
        for key in names:
            self.defect_hits[key] = self.defect_hits.get(key, 0) + 1
            if self.defect_hits[key] == 1:
                self.ctx.violation({'module': 'Config', 'defect': key}, what,
                                   replay=replay)

    def classify(self, obs, alts, prog, is_exp=0):
        """Name of the known departure(s) that explain(s) `obs`."""
        cd = self.cd
        best = None
        for fb, pred in alts:
            if fb & 4 and not self.glob_rev():
                continue
            if cd.pred_final(pred, is_exp) == obs:
                # fewest departures; for chained options prefer the chain one
                key = (bin(fb).count('1'), 0 if fb & 8 else 1)
                if best is None or key < (bin(best).count('1'),
                                          0 if best & 8 else 1):
                    best = fb
        return best

    def cli(self, rec):
        _, main, a, b, ti, p1, pr, alts1, alts, x, is_exp, ms = rec
        cd, menu, world = self.cd, self.menu, self.world
        self.n += 1
        variant = self.n * 7 + self.ctx.seed
        world.write(menu, main, a, b, x, ms, variant)
        target = menu.targets[ti - 1]
        prog = (main, a, b)
        names = menu.names(prog)
        first = cd.obs_final(cd.cli_first(world, target), is_exp)
        exp1 = cd.pred_final(p1, is_exp)
        exp = cd.pred_final(pr, is_exp)
        two_pass = p1 != pr or target[2] == 'canon'
        self.ctx.count(('cli', str(main), str(a), str(b), ti),
                       nontrivial=bool(two_pass or alts or
                                       len(main) > 1))
        replay = {'kind': 'cli', 'files': world.texts(), 'target': target,
                  'expected_first_pass': exp1, 'expected': exp}
        if isinstance(first, tuple):
            self.violation({'module': 'Config', 'files': world.texts(),
                            'target': list(target), 'exception': first[1]},
                           f'loading {world.texts()} for {target} raised '
                           f'{first[1]}: {first[2]}', replay)
            return
        checks = [('first pass', first, exp1, alts1)]
        whole = None
        if x == 'chain':
            # deriving an options object must not change its parent
            changed = cd.chain_parent_changed(world, target)
            if changed:
                self.defect(
                    ['chained_options_share_lists'],
                    f'{world.texts()} for {target}: building the second '
                    f'options object changed what the first one resolves '
                    f'to: {changed[0]} -> {changed[1]}', replay)
        q = self.ctx.tier == 'quick'
        if (self.n % (12 if q else 6) == 0 or
                ((two_pass or alts) and (x or not q or self.n % 2 == 0))) \
                and not names & {'ProxyJump', 'ProxyCommand'}:
            # the whole resolution, by the library's own connect() code
            whole = cd.obs_final(self.connector.resolve(world, target),
                                 is_exp)
            checks.append(('resolution', whole, exp, alts))
            self.resolved += 1
        if self.n % 3000 == 1:
            self.ctx.sample({'files': world.texts(), 'target': target,
                             'predicted': exp, 'observed first pass': first,
                             'observed by connect()': whole})
        for what, obs, want, al in checks:
            if obs == want:
                continue
            fb = self.classify(obs, al, prog, is_exp) \
                if isinstance(obs, list) else None
            if fb and fb & 16 and not JUDGE_RESCAN:
                self.rescan_seen += 1
                if self.rescan_seen == 1:
                    self.rescan_example = (
                        f'{world.texts()} for {target}: one pass (ssh) gives '
                        f'{want[3] or want[9]}, asyncssh '
                        f'{obs if len(obs) < 10 else obs[3] or obs[9]}')
                fb &= ~16
                if not fb:
                    continue
            if fb:
                self.defect(bits(fb),
                            f'{what} of {world.texts()} for {target}: ssh '
                            f'rule gives {want}, asyncssh gives {obs} '
                            f'(explained by: {", ".join(bits(fb))})', replay)
                continue
            if cd.ssh_applicable(menu, prog, target, is_exp) and \
                    what != 'first pass':
                so = cd.ssh_G(world, target, 'veto')
                if isinstance(so, list) and not cd.ssh_agrees(
                        so, want, want[5] != ['-'], names):
                    self.ctx.divergence(
                        f'cli: specification and ssh -G disagree on '
                        f'{world.texts()} {target}: {want} vs {so}')
                    continue
            self.violation(
                {'module': 'Config', 'files': world.texts(),
                 'target': list(target), 'what': what},
                f'{what} of {world.texts()} for {target}: ssh rule gives '
                f'{want}, asyncssh gives {obs}', replay)
            break
        else:
            if cd.ssh_applicable(menu, prog, target, is_exp):
                (self.second_val if x or names & set(cd.TYPED)
                 or is_exp or ms else self.second).append(
                     (main, a, b, ti, exp, x, ms, variant))

    def srv(self, rec):
        _, main, a, b, ui, unsafe, pr, alts, rawakf, x, typed = rec
        cd, menu, world = self.cd, self.menu, self.world
        self.n += 1
        world.write(menu, main, a, b, x)
        user = menu.srv_users[ui - 1]
        obs, obs_typed = cd.srv_load(world, user)
        want = [cd.val(x, world) for x in pr] or ['-']
        if any('@ERR@' in w for w in want):
            want = ['config-error']
        if obs[0] == 'exc' and obs[1] == 'ConfigParseError':
            obs = ['config-error']
        self.ctx.count(('srv', str(main), str(a), ui), nontrivial=True)
        replay = {'kind': 'srv', 'files': world.texts(), 'user': user,
                  'expected': want}
        if self.n % 3000 == 1:
            self.ctx.sample({'server config': world.texts(), 'user': user,
                             'predicted': want, 'observed': obs})
        # ---- the property, on what was observed ----
        templates = [cd.val(x, world) for x in rawakf]
        raw = [t for t in templates if '%u' in t.replace('%%', '')]
        substituted = obs not in (['reject'], ['-'], ['config-error'],
                                  ['@EMPTY@']) and obs[0] != 'exc'
        if unsafe and substituted and raw and obs != templates:
            self.violation(
                {'module': 'Config', 'unsafe_user': user},
                f'server config {world.texts()}: the client-chosen user name '
                f'{user!r} can change the meaning of a path but was '
                f'substituted: AuthorizedKeysFile = {obs}', replay)
            return
        if substituted and not all(cd.inside(world.base, v) for v in obs):
            self.violation(
                {'module': 'Config', 'unsafe_user': user, 'escapes': True},
                f'server config {world.texts()}: user {user!r} makes '
                f'AuthorizedKeysFile leave {world.base}: {obs}', replay)
            return
        # reload path: which files were really opened
        if self.n % 4 == 0 or unsafe:
            out, seen = cd.srv_reload(world, user)
            bad = [p for p in seen if not cd.inside(world.base, p)]
            if bad or (unsafe and raw and out == ['ok'] and seen):
                self.violation(
                    {'module': 'Config', 'unsafe_user': user, 'opened': True},
                    f'server config {world.texts()}: authenticating user '
                    f'{user!r} opened {bad or seen}', replay)
                return
        # ---- conformance with the model ----
        want_typed = cd.pred_typed(typed)
        if obs_typed is not None and not unsafe and obs_typed != want_typed:
            self.violation(
                {'module': 'Config', 'files': world.texts(), 'user': user,
                 'what': 'server option values'},
                f'server config {world.texts()} user {user!r}: first '
                f'obtained values are {want_typed}, asyncssh gives '
                f'{obs_typed}', replay)
        if obs != want:
            fb = None
            for f2, pred in alts:
                p2 = [cd.val(x, world) for x in pred] or ['-']
                if any('@ERR@' in w for w in p2):
                    p2 = ['config-error']
                if p2 == obs and not (f2 & 4 and not self.glob_rev()):
                    if fb is None or bin(f2).count('1') < bin(fb).count('1'):
                        fb = f2
            if fb:
                self.defect(bits(fb),
                            f'server config {world.texts()} user {user!r}: '
                            f'rule gives {want}, asyncssh gives {obs} '
                            f'(explained by: {", ".join(bits(fb))})', replay)
            elif not unsafe:
                self.violation(
                    {'module': 'Config', 'files': world.texts(),
                     'user': user},
                    f'server config {world.texts()} user {user!r}: the '
                    f'lines whose Match conditions hold (with %u replaced '
                    f'once, literally) give AuthorizedKeysFile = {want}, '
                    f'asyncssh gives {obs}', replay)
            else:
                self.ctx.divergence(f'srv: {world.texts()} user {user!r}: '
                                    f'model {want}, code {obs}')

    def lex(self, rec):
        """One line = keyword + argument text: how it is cut into words."""
        _, kind, chars, status, values = rec
        cd, world = self.cd, self.world
        self.n += 1
        text = cd.lex_text(kind, chars, self.n)
        words = [cd.S(v) for v in values]
        self.ctx.count(('lex', kind, cd.S(chars)), nontrivial=status == 'ok')
        if kind == 'host':
            wants = [('err',) if status == 'err' else
                     # an ignored line leaves the Port line unconditional
                     ('ok', status == 'ign' or t in words)
                     for t in cd.LEX_TARGETS]
            obs = [cd.lex_load(world, kind, text, t) for t in cd.LEX_TARGETS]
        else:
            val = None if status == 'ign' else \
                (words if kind == 'list' else words[0] if words else None)
            wants = [('err',) if status == 'err' else ('ok', val)]
            obs = [cd.lex_load(world, kind, text)]
        if self.n % 3000 == 1:
            self.ctx.sample({'line': text, 'predicted': wants,
                             'observed': obs})
        if obs != wants:
            self.violation(
                {'module': 'Config', 'line': text},
                f'config line {text!r}: words as the lexical rules cut them '
                f'give {wants}, asyncssh gives {obs}',
                {'kind': 'lex', 'optkind': kind, 'text': text,
                 'expected': wants})
        elif self.n % 11 == 0:
            self.lex_second.append((kind, text, wants, cd.S(chars)))

    def dispatch(self, rec):
        getattr(self, rec[0])(rec)


def second_opinion(ctx, cd, menu, cases, root, limit, label):
    step = max(1, len(cases) // limit)
    todo = cases[::step][:limit]
    agree = differ = failed = 0
    unanswered = []

    def one(i):
        main, a, b, ti, exp, x, ms, variant = todo[i]
        w = cd.World(os.path.join(root, f'so{i % 8}_{i}'))
        try:
            w.write(menu, main, a, b, x, ms, variant)
            return (cd.ssh_G(w, menu.targets[ti - 1], str(i)), exp,
                    w.texts(), menu.targets[ti - 1],
                    menu.names((main, a, b)))
        finally:
            shutil.rmtree(w.root, ignore_errors=True)
    with cf.ThreadPoolExecutor(max_workers=6) as ex:
        for so, exp, texts, target, names in ex.map(one, range(len(todo))):
            if not isinstance(so, list):
                failed += 1
                if len(unanswered) < 4:
                    unanswered.append(f'{texts.get("config")}: {so}')
                continue
            if cd.ssh_agrees(so, exp, exp[5] != ['-'], names):
                agree += 1
            else:
                differ += 1
                ctx.divergence(f'second opinion: ssh -G gives {so}, the '
                               f'specification {exp}: {texts} {target}')
    if unanswered:
        ctx.notes.append(f'ssh -G gave no answer ({label}), e.g.: ' +
                         ' | '.join(unanswered)[:900])
    ctx.notes.append(f'ssh -G second opinion ({label}): {agree} agree, {differ} differ, '
                     f'{failed} not answered (of {len(todo)} sampled cases)')


# lines written out by hand: (line(s), option looked at, what ssh and the rule
# give, target).  Three-way: only rule == ssh != asyncssh is a violation.
LEX_HAND = [
    ('IdentityFile /k/id_ed25519#work', 'IdentityFile', ['/k/id_ed25519#work']),
    ('SendEnv COLOR#fff TAG_a#b', 'SendEnv', ['COLOR#fff', 'TAG_a#b']),
    ('Host web#1 db\n  HostKeyAlias hit', 'HostKeyAlias@web', None),
    ('Host web#1 db\n  HostKeyAlias hit', 'HostKeyAlias@db', 'hit'),
    ('Host web#1 db\n  HostKeyAlias hit', 'HostKeyAlias@web#1', 'hit'),
    ('HostKeyAlias "a#b"', 'HostKeyAlias', 'a#b'),
    ("HostKeyAlias 'a #b'", 'HostKeyAlias', 'a #b'),
    ('HostKeyAlias=a#', 'HostKeyAlias', 'a#'),
    ('HostKeyAlias\t=\t a#b  ', 'HostKeyAlias', 'a#b'),
    ('RemoteCommand echo a#b # c', 'RemoteCommand', 'echo a#b # c'),
    ('IdentityFile /k/' + 'x' * 20000 + '#y', 'IdentityFile',
     ['/k/' + 'x' * 20000 + '#y']),
]
# where the pinned tree deliberately differs from ssh (observations only):
# a word that BEGINS with '#' after the arguments is a comment for ssh and an
# argument ("extra data") for asyncssh
LEX_OBSERVE = [
    ('HostKeyAlias a # comment', 'HostKeyAlias'),
    ('SendEnv A # B', 'SendEnv'),
    ('Port 22 #x', 'Port'),
    ('Host x # y\n  HostKeyAlias hit', 'HostKeyAlias'),
    ('HostKeyAlias a\\ b', 'HostKeyAlias'),
]


def lex_hand_cases(ctx, cd, rep, root):
    from asyncssh.config import SSHClientConfig
    d = os.path.join(root, 'lexhand')
    os.makedirs(d, exist_ok=True)
    cfg = os.path.join(d, 'cfg')

    def both(text, opt):
        opt, _, target = opt.partition('@')
        target = target or 'db'
        with open(cfg, 'w') as f:
            f.write(text + '\n')
        try:
            c = SSHClientConfig.load(None, [cfg], False, False, False,
                                     cd.LOCAL_USER, (), target, ())
            got = c.get(opt)
        except Exception as exc:        # pylint: disable=broad-except
            got = f'{type(exc).__name__}'
        so = None
        try:
            p = subprocess.run(['ssh', '-G', '-F', cfg, target],
                               stdout=subprocess.PIPE, stderr=subprocess.PIPE,
                               timeout=20)
            if p.returncode == 0:
                vals = [l.partition(' ')[2] for l in
                        p.stdout.decode().splitlines()
                        if l.startswith(opt.lower() + ' ')]
                vals = [v for v in vals if not v.startswith('~/.ssh/id_')]
                so = vals if opt in ('IdentityFile', 'SendEnv') else \
                    (vals[0] if vals else None)
                if opt == 'Port' and so is not None:
                    so = int(so)
            else:
                so = 'error'
        except (OSError, subprocess.TimeoutExpired):
            pass
        return got, so
    for text, opt, want in LEX_HAND:
        got, so = both(text, opt)
        ctx.count(('lexhand', text[:60], opt))
        shown = text if len(text) < 200 else text[:60] + '...(20 kB)'
        if so is not None and so != want:
            ctx.divergence(f'lex hand case {shown!r} {opt}: ssh -G gives '
                           f'{str(so)[:80]!r}, the rule {str(want)[:80]!r}')
        elif got != want:
            rep.violation({'module': 'Config', 'line': shown, 'option': opt},
                          f'config line {shown!r}: ssh and the rule give '
                          f'{opt} = {str(want)[:80]!r}, asyncssh gives '
                          f'{str(got)[:80]!r}',
                          {'kind': 'lexhand', 'text': shown})
    obs = []
    for text, opt in LEX_OBSERVE:
        got, so = both(text, opt)
        ctx.count(('lexobserve', text, opt))
        if got != so:
            obs.append(f'{text!r}: ssh {so!r}, asyncssh {got!r}')
    if obs:
        ctx.notes.append('OBSERVATION (pinned tree differs from ssh on purpose,'
                         ' not judged): ' + '; '.join(obs))
    shutil.rmtree(d, ignore_errors=True)


def lex_second_opinion(ctx, cd, cases, root, limit):
    """ssh -G on a sample of the lexical cases.  The model follows the pinned
    tree (shlex); where ssh cuts a line differently that is an observation."""
    step = max(1, len(cases) // limit)
    todo = cases[::step][:limit]
    agree = 0
    differ = {}

    def one(i):
        kind, text, wants, arg = todo[i]
        w = cd.World(os.path.join(root, f'lx{i % 8}_{i}'))
        try:
            return [cd.lex_ssh(w, kind, text, t) for t in
                    (cd.LEX_TARGETS if kind == 'host' else ('x',))], \
                wants, arg
        finally:
            shutil.rmtree(w.root, ignore_errors=True)
    with cf.ThreadPoolExecutor(max_workers=6) as ex:
        for so, wants, arg in ex.map(one, range(len(todo))):
            if any(x is None for x in so):
                continue
            if [tuple(x) for x in so] == [tuple(x) for x in wants]:
                agree += 1
            else:
                why = ('# begins a word' if re.search(r'(^|[ \t=])#', arg)
                       else 'backslash' if '\\' in arg
                       else 'quotes' if '"' in arg or "'" in arg
                       else '= / empty value' if '=' in arg or not arg.strip()
                       else 'other')
                differ[why] = differ.get(why, 0) + 1
    ctx.notes.append(f'ssh -G on {len(todo)} lexical cases: {agree} cut the '
                     f'line like the pinned tree; differences by feature '
                     f'(observations, the model follows the pinned tree): '
                     f'{differ}')


def echo_cases(ctx, cd, rep, root):
    """Token expansion as real ssh does it, three-way."""
    from asyncssh.config import SSHClientConfig
    for name, lines, inc, want, perfile in ECHO_CASES:
        d = os.path.join(root, 'echo')
        os.makedirs(d, exist_ok=True)
        out, incp, cfg = (os.path.join(d, x) for x in ('out', 'inc', 'cfg'))
        if inc is not None:
            with open(incp, 'w') as f:
                f.write(inc)
        text = '\n'.join(lines).replace('@OUT@', out).replace('@INC@', incp)
        with open(cfg, 'w') as f:
            f.write(text + '\n')
        if os.path.exists(out):
            os.remove(out)
        try:
            subprocess.run(['ssh', '-F', cfg, '-o', 'BatchMode=yes', 'hosta'],
                           stdin=subprocess.DEVNULL, stdout=subprocess.PIPE,
                           stderr=subprocess.PIPE, timeout=20)
            with open(out) as f:
                ssh_says = f.read().strip()
        except (OSError, subprocess.TimeoutExpired):
            ssh_says = None
        try:
            c = SSHClientConfig.load(None, [cfg], False, False, False,
                                     cd.LOCAL_USER, (), 'hosta', ())
            pc = c.get('ProxyCommand') or ''
            got = pc.split('echo ', 1)[1].split(' >', 1)[0]
        except Exception as exc:        # pylint: disable=broad-except
            got = f'{type(exc).__name__}: {exc}'
        ctx.count(('echo', name))
        if ssh_says is not None and ssh_says != want:
            ctx.divergence(f'echo case {name!r}: ssh expands to {ssh_says!r},'
                           f' the rule says {want!r}')
        elif got != want:
            what = (f'ProxyCommand tokens, case {name!r} '
                    f'({text.splitlines()}): ssh and the rule expand to '
                    f'{want!r}, asyncssh to {got!r}')
            replay = {'kind': 'echo', 'config': text, 'include': inc,
                      'expected': want}
            if perfile and got == perfile.replace('@LU@', cd.LOCAL_USER):
                rep.defect(['expansion_per_file'], what, replay)
            else:
                rep.violation({'module': 'Config', 'echo_case': name,
                               'got': got}, what, replay)
        shutil.rmtree(d, ignore_errors=True)


def glob_order_case(ctx, cd, rep, root):
    """Include glob with several files: ssh reads them in sorted order."""
    from asyncssh.config import SSHClientConfig
    from pathlib import Path
    d = os.path.join(root, 'globorder')
    os.makedirs(os.path.join(d, 'g'), exist_ok=True)
    names = ['z9', 'b', 'a', 'm', 'c', 'k1', 'q7', 'e']
    for n in names:
        with open(os.path.join(d, 'g', n + '.conf'), 'w') as f:
            f.write(f'User u_{n}\nSendEnv V_{n}\n')
    cfg = os.path.join(d, 'cfg')
    with open(cfg, 'w') as f:
        f.write(f'Include {d}/g/*.conf\n')
    fs_order = [p.stem for p in Path(d, 'g').glob('*.conf')]
    want = ['u_a', ['V_' + n for n in sorted(names)]]
    try:
        c = SSHClientConfig.load(None, [cfg], False, False, False,
                                 cd.LOCAL_USER, (), 'hosta', ())
        got = [c.get('User'), c.get('SendEnv')]
    except Exception as exc:            # pylint: disable=broad-except
        got = [type(exc).__name__, str(exc)]
    so = None
    try:
        p = subprocess.run(['ssh', '-G', '-F', cfg, 'hosta'],
                           stdout=subprocess.PIPE, stderr=subprocess.PIPE,
                           timeout=20)
        lines = p.stdout.decode().splitlines()
        so = [[l.split()[1] for l in lines if l.startswith('user ')][0],
              [l.split()[1] for l in lines if l.startswith('sendenv ')]]
    except (OSError, subprocess.TimeoutExpired, IndexError):
        pass
    ctx.count(('globorder',))
    if so is not None and so != want:
        ctx.divergence(f'glob order: ssh -G gives {so}, the rule {want}')
    elif got != want:
        what = (f'Include {d}/g/*.conf with files {sorted(names)}: ssh '
                f'reads them sorted ({want}); asyncssh (directory order '
                f'{fs_order}) resolved {got}')
        replay = {'kind': 'globorder', 'names': names, 'expected': want}
        if got == ['u_' + fs_order[0], ['V_' + n for n in fs_order]]:
            rep.defect(['include_glob_unsorted'], what, replay)
        else:
            rep.violation({'module': 'Config', 'case': 'globorder',
                           'got': got}, what, replay)
    shutil.rmtree(d, ignore_errors=True)


def replay_one(ctx, cd, path, root):
    """./check C18 --replay FILE: write the recorded files again (under a new
    scratch root) and resolve them once more."""
    import json
    import re
    with open(path) as f:
        doc = json.load(f)
    rp, sig = doc['replay'], doc['signature']
    ctx.count(('replay', path))
    ctx.traces_validated(1)
    ctx.level = 'exploration'
    if rp['kind'] not in ('cli', 'srv'):
        # hand-written cases: run them all again
        rep = Replayer(ctx, cd, None, os.path.join(root, 'w'))
        echo_cases(ctx, cd, rep, root)
        glob_order_case(ctx, cd, rep, root)
        return
    w = cd.World(os.path.join(root, 'w'))
    blob = json.dumps(rp)
    m = re.search(r'(/[^"\\ ]*?/c18_files_[^/"\\ ]+/w)/', blob)
    if m:
        rp = json.loads(blob.replace(m.group(1), w.root))
    files = rp['files']
    names = {'config': w.main, 'incA / g/a.conf': w.inc_a,
             'g/b.conf': os.path.join(w.globdir, 'b.conf')}
    for name, p in names.items():
        w._put(p, '\n'.join(files.get(name, [])) + '\n')
    w._put(os.path.join(w.globdir, 'a.conf'),
           '\n'.join(files.get('incA / g/a.conf', [])) + '\n')
    if rp['kind'] == 'cli':
        target = tuple(rp['target'])
        first = cd.cli_first(w, target)
        conn = cd.Connector()
        whole = conn.resolve(w, target)
        conn.close()
        got = [cd.norm(first), cd.norm(whole)]
        good = got == [rp['expected_first_pass'], rp['expected']]
    else:
        got = cd.srv_load(w, rp['user'])
        if got[0] == 'exc' and got[1] == 'ConfigParseError':
            got = ['config-error']
        good = got == rp['expected']
    print(f'replay {path}: observed {got}')
    if not good:
        ctx.violation(sig, doc['what'] + f' [replayed: {got}]', replay=rp)


def main(ctx):
    from harness.drivers import config as cd
    import asyncssh
    ctx.notes.append(f'asyncssh from {os.path.dirname(asyncssh.__file__)}')
    os.makedirs(tlc.WORK, exist_ok=True)
    root = tempfile.mkdtemp(prefix='c18_files_', dir=tlc.WORK)
    saved = {k: os.environ.get(k) for k in ('LOGNAME', 'CFGV')}
    try:
        cd.setup_env()
        if getattr(ctx, 'replay_path', None):
            replay_one(ctx, cd, ctx.replay_path, root)
        else:
            _main(ctx, cd, root)
    finally:
        shutil.rmtree(root, ignore_errors=True)
        for k, v in saved.items():
            if v is None:
                os.environ.pop(k, None)
            else:
                os.environ[k] = v


def _main(ctx, cd, root):
    quick = ctx.tier == 'quick'
    runs = plan(ctx)
    results = {}
    with cf.ThreadPoolExecutor(max_workers=7) as ex:
        futs = {}
        for name, mode, consts in runs:
            futs[ex.submit(run_tlc, name, INVS[mode] + ['EmitCase'],
                           Mode=f'"{mode}"', Emit='TRUE', **consts)] = name
        sens = {}
        for name, mode, consts, prop in SENSITIVITY:
            sens[ex.submit(run_tlc, name, [prop], Mode=f'"{mode}"',
                           **consts)] = (name, prop)
        for f in cf.as_completed(list(futs) + list(sens)):
            if f in futs:
                results[futs[f]] = f.result()
            else:
                name, prop = sens[f]
                ctx.require_tlc_ok(f'Config {name} (wrong rule / witness: '
                                   f'must violate {prop})', f.result(),
                                   expect_violation=prop)
    t_tlc = time.time() - ctx.t0
    menu = rep = None
    total = 0
    timing = []
    for name, mode, consts in runs:
        res = results[name]
        ctx.require_tlc_ok(f'Config {name} {mode} {consts}', res)
        recs = cd.records(res.output)
        ctx.require(recs and recs[0][0] == 'menu',
                    f'{name}: menu line missing in TLC output')
        if menu is None:
            menu = cd.Menu(recs[0])
            rep = Replayer(ctx, cd, menu, os.path.join(root, 'w'))
            # hand-written cases first: their reports are the clearest
            echo_cases(ctx, cd, rep, root)
            glob_order_case(ctx, cd, rep, root)
            lex_hand_cases(ctx, cd, rep, root)
        cases = [r for r in recs[1:] if r and r[0] == mode]
        ctx.require(len(cases) == res.distinct,
                    f'{name}: parsed {len(cases)} case lines, TLC reports '
                    f'{res.distinct} states')
        # same program, different targets: write the files once
        cases.sort(key=lambda r: (r[1], r[2], r[3]))
        t_run = time.time()
        for rec in cases:
            rep.dispatch(rec)
        timing.append(f'{name}:{len(cases)}:{time.time() - t_run:.1f}s')
        total += len(cases)
        res.output = ''
    ctx.traces_validated(total)

    second_opinion(ctx, cd, menu, rep.second, root, 600 if quick else 5000,
                   'programs')
    second_opinion(ctx, cd, menu, rep.second_val, root,
                   300 if quick else 3000, 'value-class programs')

    rep.connector.close()
    lex_second_opinion(ctx, cd, rep.lex_second, root, 150 if quick else 2500)
    ctx.notes.append(f'{rep.resolved} cases also resolved through '
                     f'asyncssh.connect() (canonicalisation and second pass '
                     f'by the library)')
    ctx.notes.append('replay per run (name:cases:seconds): ' + ' '.join(timing))
    ctx.notes.append(f'phases: TLC {t_tlc:.1f}s, replay + second opinion '
                     f'{time.time() - ctx.t0 - t_tlc:.1f}s')
    if rep.rescan_seen:
        ctx.notes.append(
            f'OBSERVATION (not judged, JUDGE_RESCAN=False): {rep.rescan_seen} '
            f'cases where a token value containing ${{VAR}} is expanded a '
            f'second time (tokens first, then ${{}} over the result); e.g. '
            f'{rep.rescan_example}')
    if rep.defect_hits:
        ctx.notes.append(f'cases explained by a named departure from the '
                         f'ssh rule: {rep.defect_hits}')
    if rep.suppressed:
        ctx.notes.append(f'{rep.suppressed} further violations not written '
                         f'out (cap 40)')
    ctx.assumptions += [
        'canonicalisation is also configured in the file (CanonicalizeHostname '
        'yes/always/no, CanonicalDomains, CanonicalizeMaxDots, '
        'CanonicalizeFallbackLocal) and then performed by connect() itself '
        'with a resolver that knows <name>.c only; '
        'CanonicalizePermittedCNAMEs is not modelled (the resolver returns '
        'no CNAME)',
        'what a Match line records while it is walked: "final" asks for the '
        'final pass wherever it stands and whatever the other criteria say '
        '(checked against ssh -G through the number of times a Match exec '
        'command runs); a Match exec command runs only if the criteria '
        'before it hold (ssh -G runs the same commands); Match localnetwork '
        'is not generated (ifaddr is not installed)',
        'relation to the known finding second_pass_restarts: whether a '
        'second pass happens and with which canonical/final flags is the '
        'same under the rule and under that departure, so a case is only '
        'attributed to it when the restart itself explains the values',
        'canonicalisation: connect(canonicalize_hostname=True, '
        'canonical_domains=["c"]) with a resolver that knows every name; only '
        'programs without Hostname / originalhost / %n are used there (ssh '
        'and asyncssh name the hosts differently in that pass; not judged); '
        'no second opinion (ssh -G cannot canonicalise offline)',
        '"Match canonical" follows ssh_config(5) (true only after '
        'canonicalisation); real ssh also makes it true in a final pass, so '
        'programs using both are not sent to ssh -G',
        'Tag / Match tagged: no second opinion (OpenSSH 9.2 predates them)',
        'list options are compared up to repetition (ssh drops repeated '
        'IdentityFile entries and repeats SendEnv in its second pass)',
        'an Include inside a non-matching block that itself contains "Match '
        'final" is not generated (ssh still requests a final pass then)',
        'value classes: "User none" is not generated (ssh takes it as the '
        'user name "none", asyncssh as "unset"); a quoted empty value only '
        'for ProxyJump (ssh rejects it elsewhere); numbers with time units '
        'only in RekeyLimit: asyncssh rejects "ConnectTimeout 1m" / '
        '"ServerAliveInterval 1m" with ConfigParseError where ssh reads 60 '
        '(loud, recorded, not judged)',
        'ssh keeps RekeyLimit size/time and ForwardAgent flag/socket as two '
        'first-value-wins fields each (a later line can fill the field the '
        'first line left open); the rule here is first obtained LINE wins, '
        'as asyncssh does; those mixed pairs are not compared with ssh -G',
        'spelling: every directive, block-opening ones included, is written '
        'as K v / K=v / K = v / K= v / K =v / tab / several blanks / lower / '
        'upper case / quoted words, in every context (top of file, after a '
        'matching block, after a non-matching block, after an Include), with '
        'leading and trailing blanks, CR LF, comment and empty lines in '
        'between and a last line without newline; the model reads the '
        'abstract program (SpellingInvariant), ssh -G reads the same file; '
        'trailing "# comment" forms are not in the judged set (see the '
        'lexical observations)',
        'lexical layer: the model is the pinned tree (line.strip(), POSIX '
        'shlex without comments, then the = spellings; RemoteCommand / '
        'ProxyCommand take the rest of the line verbatim); ssh cuts some '
        'lines differently on purpose-built differences of asyncssh: a word '
        'BEGINNING with # after the arguments is a comment for ssh and extra '
        'data for asyncssh, backslash and quote corner cases - these are '
        'counted per feature in the notes (observations), not judged; a # '
        'inside a word is a word character for both (hand cases, three-way)',
        'expansion rule: one left-to-right pass (ssh percent_dollar_expand; '
        'ssh -G prints IdentityAgent / ForwardAgent already expanded, which is '
        'used as is); RemoteCommand / ProxyCommand are compared with the rule '
        'only (ssh expands no ${} in them)',
        'chained options objects (options=base, config=B) must resolve like '
        'the files of base followed by B, and must leave base unchanged',
        'server side: the unsafe-name rule is the one documented in '
        'SSHServerConfig._set_tokens; the verdict only requires that an '
        'unsafe name is not substituted and that no resulting path leaves '
        'the configured directory (POSIX and Windows reading)',
    ]


if __name__ == '__main__':
    run_check('C18', main)
