"""X03 (extra module) - I/O redirection of SSHProcess (asyncssh/process.py).

1. TLC checks specs/Process/Process.tla exhaustively at small constants: an
   emitter E, a process B whose inbound streams are redirected to targets
   (asyncio StreamWriter with a blockable drain, file, DEVNULL, STDOUT merge,
   the stdin of a second process, back to PIPE), a process C whose outbound
   streams are redirected from sources (StreamReader, file, DEVNULL, a stream
   of B), a consumer K, the four wires delivered a prefix at a time; late
   and repeated redirection, send_eof / recv_eof, collect_output(), wait(),
   close() on either side, drain().  Invariants: ExactlyOnce, TargetRuns,
   NoBad, NoWriteAfterEof, EofRule, EofComplete, NoStuck, Bounded,
   ExitAfterOutput, WaitersResolve.  Sensitivity runs TLC must reject: five
   deliberately wrong rules and the eight rules of the pinned tree that are
   genuine defects (Fix* = FALSE).
2. The same exhaustive runs print one shortest behaviour per terminal state;
   simulation runs add long behaviours with the real queue water marks
   (16 / 8).  Every behaviour is replayed into real SSHClientProcess /
   SSHServerProcess objects (harness/drivers/process.py); after every step
   the projected state is compared with the specification's (divergence)
   and the property monitors judge what the driver-owned ends saw
   (violation).
3. Self-test: three monkeypatched mutants of process.py must be caught.
"""

import concurrent.futures
import hashlib
import json
import os
import random
import time

from harness import tlc
from harness.framework import run_check, MachineryError, VERIF

SPEC = os.path.join(VERIF, 'specs', 'Process')
INVS = ['ExactlyOnce', 'TargetRuns', 'NoBad', 'NoWriteAfterEof', 'EofRule',
        'EofComplete', 'NoStuck', 'Bounded', 'ExitAfterOutput',
        'WaitersResolve', 'TransientEmpty']
JVM = {'_JAVA_OPTIONS': '-XX:TieredStopAtLevel=1 -XX:ParallelGCThreads=2 '
                        '-XX:CICompilerCount=1'}

BASE = dict(
    HasB='TRUE', HasC='FALSE', InDT='{"x"}', OutDT='{"x"}', MaxN=3, W1=2, W2=2,
    CH=2, CL=1, QH=2, QL=2, TKinds='{"stream", "file", "null", "none"}',
    SKinds='{"stream", "file", "null", "none"}', RESet='{TRUE, FALSE}',
    SESet='{TRUE, FALSE}', FileLens='{0, 2}', Allows='{0, 9}', MaxRedirB=2,
    MaxRedirC=2, MaxAllowOps=2, MaxCollect=1, WithWait='TRUE', WithExit='TRUE',
    WithBClose='FALSE', WithKClose='FALSE', WithCClose='FALSE',
    WithDrain='FALSE', StaleFeed='FALSE', OneAtATime='FALSE',
    FixCW='TRUE', FixCR='TRUE', FixRC='TRUE', FixSF='TRUE', FixLE='TRUE',
    FixDC='TRUE', FixRO='TRUE', FixLO='TRUE',
    DropOnRedirect='FALSE', EofAlways='FALSE', ResumeNoFlush='FALSE',
    NoPause='FALSE', ExitEarly='FALSE', MinEmit=0, PrintAt=0)

# defect of the pinned tree a behaviour runs into (the specification has the
# repaired rule and flags the situation), most specific first
DEFECTS = ['close_paused_writer', 'stale_reader', 'double_feed',
           'resume_while_paused', 'link_order', 'drain_close', 'late_eof']
# monitor clauses a defect situation can account for (a crash of the
# connection takes everything after it along)
CRASH = {'no-crash', 'nothing-lost', 'nothing-stuck', 'eof-complete',
         'waiters-resolve',
         'exit-after-output', 'exit-report'}
EXPLAINS = {
    'close_paused_writer': CRASH | {'eof-rule', 'no-write-after-eof'},
    'stale_reader': CRASH | {'eof-rule', 'backpressure', 'in-order-once'},
    'double_feed': CRASH,
    'resume_while_paused': CRASH | {'backpressure'},
    'link_order': {'in-order-once', 'nothing-lost'},
    'drain_close': {'waiters-resolve'},
    'late_eof': {'eof-rule'},
}


def attribute(trigs, clause):
    """the defect situation of the behaviour that accounts for the clause"""
    return next((d for d in DEFECTS if d in trigs and clause in EXPLAINS[d]),
                'none')


def S(**kw):
    d = dict(BASE)
    d.update(kw)
    return d


def pyconsts(c):
    def cv(v):
        if v in ('TRUE', 'FALSE'):
            return v == 'TRUE'
        if isinstance(v, str) and v.startswith('{'):
            return [x.strip().strip('"') for x in v.strip('{}').split(',')
                    if x.strip()]
        return v
    return {k: cv(v) for k, v in c.items()}


def write_cfg(name, consts, invariants, view):
    lines = ['CONSTANTS'] + [f'  {k} = {v}' for k, v in consts.items()]
    lines += ['SPECIFICATION Spec', 'CHECK_DEADLOCK FALSE']
    if view:
        lines.append('VIEW view')
    lines += [f'INVARIANT {i}' for i in invariants]
    with open(os.path.join(SPEC, name), 'w') as f:
        f.write('\n'.join(lines) + '\n')
    return name


def parse_cases(output):
    out = []
    for l in output.splitlines():
        if l.startswith('"<<\\"CASE'):
            s = l[1:-1].replace('\\"', '"').replace('\\\\', '\\')
            s = s.replace('<<', '[').replace('>>', ']')
            s = s.replace('TRUE', 'true').replace('FALSE', 'false')
            out.append(json.loads(s)[1])
    return out


class Job:
    def __init__(self, name, consts, invariants=None, expect=None, cases=False,
                 sim=None, depth=None, workers=2, heap='3g', role='client',
                 jvm=None):
        self.name = name
        self.consts = consts
        self.invariants = INVS if invariants is None else invariants
        self.expect = expect
        self.cases = cases
        self.sim = sim
        self.depth = depth
        self.workers = workers
        self.heap = heap
        self.role = role
        self.jvm = jvm
        self.res = None
        self.case_list = []

    def run(self, seed):
        pid = os.getpid()
        consts = dict(self.consts)
        if self.cases and consts['PrintAt'] == 0:
            consts['PrintAt'] = 99
        cfg = write_cfg(f'_x03_{self.name}_{pid}.cfg', consts,
                        self.invariants + (['PrintCase'] if self.cases else []),
                        view=not self.sim)
        tag = f'X03_{self.name}_{pid}'
        kw = {}
        if self.sim:
            kw = dict(simulate=f'num={self.sim}', depth=self.depth,
                      seed=seed * 131 + 17, deadlock=False)
        try:
            self.res = tlc.run(SPEC, 'Process', cfg, tag, workers=self.workers,
                               timeout=1500, java_heap=self.heap, env=self.jvm, **kw)
        finally:
            tlc.cleanup(tag)
            try:
                os.remove(os.path.join(SPEC, cfg))
            except OSError:
                pass
        if self.cases:
            self.case_list = parse_cases(self.res.output)
            self.pyconsts = pyconsts(consts)
        # keep the memory small: the cases are parsed
        self.res.output = self.res.output[-6000:]
        return self


def jobs_for(tier):
    q = tier == 'quick'
    J = []
    JO = dict(HasB='TRUE', HasC='TRUE', MaxAllowOps=0, MaxCollect=0,
              WithExit='FALSE', WithWait='FALSE', W1=1, W2=1, CH=1, CL=0)
    # ---- exhaustive design checks that also print the cases ----
    J.append(Job('cB1', S(MaxN=3, TKinds='{"stream", "file", "none"}',
                          MaxCollect=0 if q else 1,
                          RESet='{TRUE}' if q else '{TRUE, FALSE}',
                          WithExit='FALSE' if q else 'TRUE'),
                 cases=True, workers=3 if q else 4))
    J.append(Job('cB2', S(InDT='{"x", "y"}', MaxN=1 if q else 2, MaxRedirB=2,
                          TKinds='{"stream", "merge", "file"}' if q else
                          '{"stream", "merge", "null", "file"}',
                          RESet='{TRUE}', MaxAllowOps=1, MaxCollect=0,
                          W1=1 if q else 2, QH=1 if q else 2, QL=1 if q else 2,
                          WithWait='TRUE', WithExit='FALSE'),
                 cases=True, workers=3 if q else 6, heap='3g' if q else '6g'))
    J.append(Job('cB3', S(MaxN=2, TKinds='{"stream", "file"}', MaxRedirB=1,
                          WithBClose='TRUE', RESet='{TRUE}',
                          MaxCollect=0 if q else 1,
                          MaxAllowOps=1 if q else 2,
                          Allows='{0, 9}' if q else '{0, 1, 9}',
                          WithExit='FALSE' if q else 'TRUE'),
                 cases=True, workers=2))
    J.append(Job('cC1', S(HasB='FALSE', HasC='TRUE', MaxN=2 if q else 3,
                          FileLens='{0, 5}' if q else '{0, 2, 5}',
                          WithDrain='TRUE', WithKClose='TRUE', WithCClose='TRUE',
                          StaleFeed='TRUE'),
                 cases=True, workers=3 if q else 4))
    J.append(Job('sB1', S(MaxN=3, MaxCollect=0, WithWait='FALSE',
                          WithExit='FALSE',
                          RESet='{FALSE}' if q else '{TRUE, FALSE}',
                          TKinds='{"stream", "file", "null", "none"}'),
                 cases=True, workers=3, role='server'))
    J.append(Job('sC1', S(HasB='FALSE', HasC='TRUE', OutDT='{"x", "y"}',
                          MaxN=2, SKinds='{"stream", "file"}' if q else
                          '{"stream", "file", "none"}',
                          FileLens='{8}' if q else '{0, 2, 8}',
                          WithDrain='FALSE' if q else 'TRUE',
                          WithKClose='TRUE', MaxRedirC=2,
                          SESet='{FALSE}' if q else '{TRUE, FALSE}'),
                 cases=True, workers=3 if q else 4, role='server'))
    J.append(Job('jA', S(**dict(JO, MaxN=3, TKinds='{"proc", "none"}',
                                SKinds='{"none"}', MaxRedirC=0)),
                 cases=True, workers=2))
    J.append(Job('jD', S(**dict(JO, MaxN=2, TKinds='{"proc", "stream"}',
                                SKinds='{"none"}', MaxRedirC=0, RESet='{TRUE}',
                                SESet='{TRUE}', MaxAllowOps=2, WithWait='TRUE',
                                MaxCollect=1, W1=2)),
                 cases=True, workers=2))
    J.append(Job('jE', S(**dict(JO, MaxN=2, TKinds='{"proc"}',
                                SKinds='{"stream"}' if q else
                                '{"stream", "file"}', MaxRedirB=1,
                                MaxRedirC=1, RESet='{TRUE}',
                                SESet='{TRUE}' if q else '{TRUE, FALSE}',
                                FileLens='{2}', WithKClose='TRUE',
                                OneAtATime='TRUE')),
                 cases=True, workers=3 if q else 4))
    if not q:
        J.append(Job('jB', S(**dict(JO, InDT='{"x", "y"}', MaxN=2,
                                    TKinds='{"proc", "merge"}',
                                    SKinds='{"none"}', MaxRedirC=0,
                                    RESet='{TRUE}', SESet='{TRUE}')),
                     cases=True, workers=3))
        J.append(Job('jS', S(**dict(JO, MaxN=3, TKinds='{"proc", "none"}',
                                    SKinds='{"none"}', MaxRedirC=0,
                                    OutDT='{"x", "y"}', RESet='{TRUE}',
                                    SESet='{TRUE, FALSE}')),
                     cases=True, workers=3, role='server'))
        J.append(Job('jC', S(**dict(JO, InDT='{"x", "y"}', MaxN=2,
                                    TKinds='{"proc"}', SKinds='{"stream"}',
                                    MaxRedirB=2, MaxRedirC=1, RESet='{FALSE}',
                                    SESet='{FALSE}', OneAtATime='TRUE')),
                     cases=True, workers=6, heap='6g'))
        J.append(Job('cB4', S(MaxN=3, MaxRedirB=2, MaxAllowOps=3,
                              Allows='{0, 1, 9}'),
                     cases=True, workers=6, heap='6g'))
    # ---- simulation: long behaviours, the real queue water marks ----
    n = 40 if q else 1500
    J.append(Job('simB', S(MaxN=24, W1=4, QH=16, QL=8, MinEmit=20,
                           TKinds='{"stream", "file", "none"}', MaxRedirB=2,
                           MaxAllowOps=4, Allows='{0, 2, 9}', PrintAt=48),
                 cases=True, sim=n, depth=52, workers=1))
    J.append(Job('simC', S(HasB='FALSE', HasC='TRUE', OutDT='{"x", "y"}',
                           MaxN=6, W2=3, CH=3, CL=1, FileLens='{0, 3, 9}',
                           MaxRedirC=3, SESet='{FALSE}', WithDrain='TRUE',
                           WithKClose='TRUE', SKinds='{"stream", "file", "none"}',
                           PrintAt=30),
                 cases=True, sim=n, depth=34, workers=1, role='server'))
    if not q:
        J.append(Job('simB2', S(InDT='{"x", "y"}', MaxN=6, W1=3, QH=3, QL=2,
                                MinEmit=8, MaxRedirB=3, MaxAllowOps=4,
                                TKinds='{"stream", "file", "merge", "null", "none"}',
                                Allows='{0, 1, 9}', MaxCollect=2, PrintAt=40),
                     cases=True, sim=n, depth=44, workers=1))
        J.append(Job('simJ', S(HasC='TRUE', InDT='{"x", "y"}', MaxN=5, W1=2,
                               W2=2, CH=2, CL=1, MinEmit=6, MaxRedirB=3,
                               MaxRedirC=1,
                               TKinds='{"proc", "stream", "merge", "none"}',
                               SKinds='{"stream", "none"}', MaxAllowOps=2,
                               MaxCollect=1, PrintAt=40),
                     cases=True, sim=n, depth=44, workers=1))
    # ---- sensitivity: wrong rules / the rules of the pinned tree ----
    sb = dict(MaxN=3, MaxRedirB=2, MaxAllowOps=2, WithExit='FALSE',
              TKinds='{"stream", "file"}')
    sc = dict(HasB='FALSE', HasC='TRUE', OutDT='{"x", "y"}', MaxN=3,
              SKinds='{"stream", "file"}', StaleFeed='TRUE', WithDrain='TRUE',
              WithKClose='TRUE')
    sj = dict(JO, MaxN=2, TKinds='{"proc"}', SKinds='{"none"}', MaxRedirC=0)
    sens = [
        ('pinned_clear_writer', dict(sb, FixCW='FALSE'), 'NoWriteAfterEof'),
        ('pinned_closed_resume',
         dict(sb, FixCR='FALSE', TKinds='{"stream"}', RESet='{TRUE}',
              MaxCollect=0, WithWait='FALSE'), 'NoBad'),
        ('pinned_reader_close', dict(sc, FixRC='FALSE'), 'NoBad'),
        ('pinned_double_feed', dict(sc, FixSF='FALSE'), 'NoBad'),
        ('pinned_drain_close', dict(sc, FixDC='FALSE'), 'WaitersResolve'),
        ('pinned_resume_order',
         dict(sc, FixRO='FALSE', SKinds='{"file"}', FileLens='{8}',
              SESet='{FALSE}', WithDrain='FALSE', WithKClose='FALSE'), 'NoBad'),
        ('pinned_late_eof', dict(sj, FixLE='FALSE', RESet='{FALSE}'), 'NoBad'),
        ('pinned_link_order',
         dict(JO, FixLO='FALSE', InDT='{"x", "y"}', MaxN=2, TKinds='{"proc"}',
              SKinds='{"none"}', MaxRedirB=2, MaxRedirC=0, RESet='{FALSE}',
              SESet='{FALSE}', OneAtATime='TRUE', CH=0, W1=2, MinEmit=9),
         'ExactlyOnce'),
        ('drop_on_redirect', dict(sb, DropOnRedirect='TRUE'), 'ExactlyOnce'),
        ('eof_always', dict(sc, EofAlways='TRUE'), 'EofRule'),
        ('resume_no_flush', dict(sb, ResumeNoFlush='TRUE'), 'NoStuck'),
        ('no_pause', dict(sb, NoPause='TRUE', MaxN=5, W1=1, QH=1, QL=1,
                          MaxRedirB=1, MaxCollect=0, WithWait='FALSE'),
         'Bounded'),
        ('exit_early', dict(sb, ExitEarly='TRUE'), 'ExitAfterOutput')]
    for name, kw, inv in sens:
        J.append(Job('sens_' + name, S(**kw),
                     [inv] if name == 'pinned_link_order' else None,
                     expect=inv, workers=2, jvm=JVM))
    # ---- vacuity witnesses ----
    wits = [('paused_writer', sb, 'NeverPausedWriter'),
            ('write_paused', sc, 'NeverWritePaused'),
            ('piped', sj, 'NeverPiped')]
    if not q:
        wits += [('parked', sb, 'NeverParked'),
                 ('wait_done', dict(sb, WithExit='TRUE'), 'NeverWaitDone'),
                 ('drain_ret', sc, 'NeverDrainRet')]
    for name, kw, inv in wits:
        J.append(Job('wit_' + name, S(**kw), [inv], expect=inv, workers=2,
                     jvm=JVM))
    return J


# Regression schedules (labels only: judged by the monitors): the minimal
# history of every defect situation found on the pinned tree.
_B = dict(HasB=True, HasC=False, InDT=['x'], OutDT=['x'], W1=2, W2=2, CH=2,
          CL=1, QH=2, QL=2)
_C = dict(_B, HasB=False, HasC=True)
_J = dict(_B, HasC=True, InDT=['x', 'y'], W1=2, W2=1, CH=0, CL=0)
REGRESSIONS = [
    ('close_paused_writer', 'client', _B,
     [['emit', 'x'], ['emit', 'x'],
      ['redirb', 'x', 'stream', False, 'x', True, 'w'], ['allow', 1, 0],
      ['deliver', 'EB', 2], ['deliver', 'BE', 1], ['emit', 'x'],
      ['emitclose'], ['deliver', 'EB', 2], ['deliver', 'BE', 1],
      ['redirb', 'x', 'file', False, 'x', True, 'w']]),
    ('close_paused_writer', 'client', _B,
     [['emit', 'x'], ['emit', 'x'],
      ['redirb', 'x', 'stream', False, 'x', True, 'w'], ['allow', 1, 0],
      ['deliver', 'EB', 2], ['emitclose'],
      ['redirb', 'x', 'stream', False, 'x', True, 'w'], ['deliver', 'EB', 1],
      ['deliver', 'BE', 2], ['allow', 1, 9]]),
    ('stale_reader', 'client', _C,
     [['redirc', 'x', 'stream', False, 0], ['redirc', 'x', 'stream', True, 0],
      ['feedeof', 1], ['feed', 2]]),
    ('stale_reader', 'client', _C,
     [['redirc', 'x', 'stream', True, 0], ['feed', 1],
      ['redirc', 'x', 'file', False, 2], ['feedeof', 1]]),
    ('double_feed', 'server', dict(_C, OutDT=['x', 'y']),
     [['redirc', 'y', 'stream', False, 0], ['redirc', 'x', 'stream', False, 0]]
     + [['feed', 2]] * 5 + [['deliver', 'CK', 2], ['deliver', 'KC', 1],
                            ['feed', 1], ['feed', 2]]),
    ('drain_close', 'client', _C,
     [['redirc', 'x', 'stream', False, 0], ['drain', 'x'], ['kclose'],
      ['deliver', 'KC', 1]]),
    ('late_eof', 'client', dict(_J, CH=2, CL=1, W2=2),
     [['emit', 'x'], ['emiteof'], ['deliver', 'EB', 2],
      ['redirb', 'x', 'proc', False, 'x', True, 'w']]),
    ('link_order', 'client', _J,
     [['emit', 'x'], ['emit', 'y'], ['deliver', 'EB', 1], ['deliver', 'EB', 1],
      ['deliver', 'BE', 1], ['emit', 'x'], ['emit', 'y'], ['deliver', 'EB', 1],
      ['deliver', 'EB', 1], ['redirb', 'x', 'proc', False, 'x', False, 'w'],
      ['redirb', 'y', 'proc', False, 'x', False, 'r']]),
]


def trigs_of(case):
    from harness.drivers import process as drv
    if not case or case[-1][1] is None:
        return []
    return [t for t, v in zip(drv.TRIGS, case[-1][1][6]) if v]


def select(cases, cap, seed):
    """stratified by (defect situations, kinds of labels), longer first"""
    if len(cases) <= cap:
        return list(cases)
    rnd = random.Random(seed)
    classes = {}
    for c in cases:
        key = (tuple(trigs_of(c)), tuple(sorted({e[0][0] for e in c})))
        classes.setdefault(key, []).append(c)
    keys = sorted(classes, key=repr)
    for k in keys:
        rnd.shuffle(classes[k])
        classes[k].sort(key=lambda c: -len(c))
        half = classes[k][:len(classes[k]) // 2]
        rest = classes[k][len(classes[k]) // 2:]
        rnd.shuffle(rest)
        classes[k] = half + rest
    out = []
    i = 0
    while len(out) < cap:
        progressed = False
        for k in keys:
            if i < len(classes[k]) and len(out) < cap:
                out.append(classes[k][i])
                progressed = True
        if not progressed:
            break
        i += 1
    return out


def case_key(name, case):
    return name + ':' + hashlib.sha1(
        json.dumps([e[0] for e in case]).encode()).hexdigest()[:16]


class Replayer:
    def __init__(self, ctx, drv):
        self.ctx = ctx
        self.drv = drv
        self.world = drv.World(tlc.WORK)
        self.n = 0
        self.by_job = {}
        self.labels = {}
        self.unmodelled = {}
        self.counters = {}
        self.trig_seen = {}

    def close(self):
        self.world.close()

    def one(self, name, case, consts, role, idx, report=True, trigs=None):
        ctx, drv = self.ctx, self.drv
        text = bool(idx % 2)
        try:
            res = drv.replay(self.world, case, consts, role=role, text=text)
        except Exception as exc:            # pylint: disable=broad-except
            self.world.close()
            self.world = drv.World(tlc.WORK)
            if report:
                ctx.divergence(f'{name}: replay aborted with {exc!r} on '
                               f'{[e[0] for e in case]}')
            return None
        if not report:
            return res
        self.n += 1
        self.by_job[name] = self.by_job.get(name, 0) + 1
        for l in res['labels']:
            self.labels[l[0]] = self.labels.get(l[0], 0) + 1
        ctx.count(case_key(name, case), nontrivial=len(case) >= 4)
        trigs = trigs or res['trig'] or trigs_of(case)
        for t in trigs:
            self.trig_seen[t] = self.trig_seen.get(t, 0) + 1
        defect = next((d for d in DEFECTS if d in trigs), 'none')
        half = ('B' if consts['HasB'] else '') + ('C' if consts['HasC'] else '')
        if self.n % 499 == 3:
            ctx.sample({'job': name, 'role': role, 'text': text,
                        'labels': res['labels'][:30], 'defect': defect})
        rp = {'kind': 'case', 'job': name, 'case': case, 'consts': consts,
              'role': role, 'text': text, 'trigs': trigs}
        for clause, detail in res['violations']:
            cause = attribute(trigs, clause)
            key = (clause, cause, role, half)
            self.counters[key] = self.counters.get(key, 0) + 1
            if self.counters[key] > 2:
                continue
            sig = {'module': 'Process', 'clause': clause, 'defect': cause,
                   'role': role, 'half': half, 'n': self.counters[key]}
            if cause == 'none':
                sig['labels'] = [' '.join(map(str, l)) for l in res['labels']]
            ctx.violation(sig, f'{clause} [{name}/{role}] {detail}; defect '
                               f'situation: {cause} (met: {trigs}); labels '
                               f'{res["labels"]}', replay=rp)
        if res['divergences']:
            if defect != 'none':
                # the specification has the repaired rule: where a reported
                # defect of the pinned tree is in play the code cannot follow
                # it step by step; the monitors still judge these cases
                self.unmodelled[defect] = self.unmodelled.get(defect, 0) + 1
                if os.environ.get('X03_DEBUG'):
                    print('UNMODELLED', name, role, defect, res['divergences'][0],
                          res['labels'])
            else:
                ctx.divergence(f'{name}/{role}: {res["divergences"][0]} '
                               f'labels={res["labels"]}')
        return res


# ---- self-test: mutants of process.py that the replay must catch ------------

def mutants():
    from asyncssh import process as ap

    def drop_buffered(orig):
        def feed_recv_buf(self, datatype, writer):
            buf = self._recv_buf[datatype]
            if buf and not isinstance(buf[0], Exception):
                self._recv_buf_len -= len(buf[0])
                del buf[0]
            return orig(self, datatype, writer)
        return feed_recv_buf

    def eof_not_forwarded(orig):
        def eof_received(self):
            return ap.SSHStreamSession.eof_received(self)
        return eof_received

    def no_backpressure(orig):
        def pause_feeding(self, datatype):
            return None
        return pause_feeding
    return [('feed_recv_buf drops the first buffered chunk', ap.SSHProcess,
             'feed_recv_buf', drop_buffered, ('cB1', 'cB2')),
            ('EOF of the channel not forwarded to the writers', ap.SSHProcess,
             'eof_received', eof_not_forwarded, ('jA', 'jD')),
            ('pause_feeding does nothing (no back pressure)', ap.SSHProcess,
             'pause_feeding', no_backpressure, ('cB1', 'cB3', 'simB'))]


def selftest(ctx, rp, jobs):
    """each mutant must produce a violation or a divergence on the cases of
    the named jobs (replayed without reporting)"""
    caught = []
    for what, cls, attr, make, names in mutants():
        orig = getattr(cls, attr)
        setattr(cls, attr, make(orig))
        hit = None
        tried = 0
        try:
            for name in names:
                job = jobs.get(name)
                if job is None or not job.case_list:
                    continue
                for i, case in enumerate(select(job.case_list, 400, 5)):
                    if trigs_of(case):
                        continue
                    tried += 1
                    res = rp.one(name, case, job.pyconsts, job.role, i,
                                 report=False)
                    if res is None or res['violations'] or res['divergences']:
                        hit = 'aborted' if res is None else \
                            ('violation ' + res['violations'][0][0]) \
                            if res['violations'] else 'divergence'
                        break
                if hit:
                    break
        finally:
            setattr(cls, attr, orig)
        ctx.require(hit is not None,
                    f'self-test: mutant "{what}" was not caught on {tried} '
                    f'cases')
        caught.append(f'{what}: {hit} after {tried} cases')
    return caught


def do_replay_file(ctx, drv, path):
    with open(path) as f:
        rec = json.load(f)
    rp = rec['replay']
    world = drv.World(tlc.WORK)
    if rp['kind'] == 'probe':
        try:
            out = drv.probe(world, rp['probe'], rp['role'], W1=rp['W1'])
        finally:
            world.close()
        print('probe:', out)
        for clause, detail, defect in out:
            ctx.violation({'module': 'Process', 'clause': clause,
                           'defect': defect, 'role': rp['role'],
                           'half': 'probe', 'probe': rp['probe']}, detail,
                          replay=rp)
        ctx.count('replay')
        return
    try:
        res = drv.replay(world, rp['case'], rp['consts'], role=rp['role'],
                         text=rp['text'])
    finally:
        world.close()
    print('labels:', res['labels'])
    print('divergences:', res['divergences'])
    print('violations:', res['violations'])
    trigs = rp.get('trigs') or res['trig'] or trigs_of(rp['case'])
    half = ('B' if rp['consts']['HasB'] else '') + \
        ('C' if rp['consts']['HasC'] else '')
    for clause, detail in res['violations']:
        ctx.violation({'module': 'Process', 'clause': clause,
                       'defect': attribute(trigs, clause),
                       'role': rp['role'], 'half': half, 'n': 1}, detail,
                      replay=rp)
    ctx.count('replay')


def main(ctx):
    from harness.drivers import process as drv
    import asyncssh
    quick = ctx.tier == 'quick'
    ctx.notes.append(f'asyncssh under test: {os.path.dirname(asyncssh.__file__)}')
    os.makedirs(tlc.WORK, exist_ok=True)
    if ctx.replay_path:
        do_replay_file(ctx, drv, ctx.replay_path)
        return

    jobs = jobs_for(ctx.tier)
    byname = {j.name: j for j in jobs}
    pool = concurrent.futures.ThreadPoolExecutor(max_workers=6 if quick else 5)
    futs = {j.name: pool.submit(j.run, ctx.seed) for j in jobs}
    rp = Replayer(ctx, drv)
    total = 0
    cap = 420 if quick else 6000
    try:
        # ---- regression schedules ----
        for i, (defect, role, consts, labels) in enumerate(REGRESSIONS):
            for text in (0, 1):
                rp.one('regress', [[l, None] for l in labels], consts, role,
                       text, trigs=[defect])
                total += 1
        for j in jobs:
            if not j.cases:
                continue
            futs[j.name].result()
            res = j.res
            if res.error and j.sim and 'Error:' not in res.output and \
                    not res.violation:
                res.error = None        # simulation ends by exhausting num
                res.ok = True
            ctx.require_tlc_ok(f'Process {j.name} (design check + cases) '
                               f'{j.consts}', res)
            ctx.require(len(j.case_list) > (20 if not j.sim else 5),
                        f'{j.name}: only {len(j.case_list)} cases\n' +
                        res.output[-1500:])
            seen = set()
            cases = []
            for c in j.case_list:
                k = json.dumps([e[0] for e in c])
                if k not in seen:
                    seen.add(k)
                    cases.append(c)
            j.case_list = cases
            sel = select(cases, cap if not j.sim else 10 ** 6, ctx.seed)
            for i, case in enumerate(sel):
                rp.one(j.name, case, j.pyconsts, j.role, i)
            total += len(sel)
            ctx.notes.append(f'{j.name} ({j.role}): {len(cases)} behaviours '
                             f'generated, {len(sel)} replayed')
        # ---- back pressure probes (fast producer, consumer not reading) ----
        nprobe = 0
        for pname in drv.PROBES:
            for role in ('client', 'server'):
                for w1 in (1, 2):
                    for clause, detail, defect in drv.probe(
                            rp.world, pname, role, W1=w1):
                        ctx.violation(
                            {'module': 'Process', 'clause': clause,
                             'defect': defect, 'role': role, 'half': 'probe',
                             'probe': pname},
                            f'{clause} [probe {pname}/{role}/W1={w1}] {detail}',
                            replay={'kind': 'probe', 'probe': pname,
                                    'role': role, 'W1': w1})
                    nprobe += 1
                    ctx.count(f'probe:{pname}:{role}:{w1}')
        total += nprobe
        ctx.notes.append(f'{nprobe} back pressure probes run')
        caught = selftest(ctx, rp, byname)
        ctx.notes.append('self-test mutants caught: ' + '; '.join(caught))
    finally:
        rp.close()
    ctx.traces_validated(total)
    ctx.notes.append(f'replay phase ended at {time.time() - ctx.t0:.1f}s; '
                     f'labels replayed: {dict(sorted(rp.labels.items()))}')
    ctx.notes.append(f'defect situations met: {dict(sorted(rp.trig_seen.items()))}')
    for defect, n in sorted(rp.unmodelled.items()):
        ctx.notes.append(f'{n} behaviours touching the reported defect '
                         f'{defect} run differently from the (repaired) model '
                         f'step by step; judged by the monitors only, not '
                         f'counted as divergences')

    # ---- sensitivity and witnesses ----
    for j in jobs:
        if j.cases:
            continue
        futs[j.name].result()
        ctx.require_tlc_ok(f'Process {j.name} {j.consts}', j.res,
                           expect_violation=j.expect)
    pool.shutdown()
    if not ctx.violations:
        # every kind of step reached the implementation (TLC's -coverage
        # cannot be used: it runs out of memory on the recursive operators)
        need = {'emit', 'emiteof', 'emitexit', 'emitclose', 'deliver',
                'redirb', 'redirc', 'feed', 'feedeof', 'allow', 'collect',
                'wait', 'bclose', 'kclose', 'cclose', 'drain'}
        missing = need - set(rp.labels)
        ctx.require(not missing, f'labels never replayed: {sorted(missing)}')
        ctx.require(total >= (2500 if quick else 20000),
                    f'only {total} behaviours replayed')
    ctx.assumptions += [
        'one chunk = 4 bytes = one unit of every window, water mark and '
        'buffer limit; chunks are never split or merged (bufsize = 4)',
        'the emitter is polite (writes only into an open window) and may '
        'place EOF, exit status / signal and CLOSE anywhere; the consumer '
        'takes what arrives; slowness = late delivery of a wire',
        'each half (inbound redirection, outbound redirection) is a process '
        'of its own; a process using both at once is not explored',
        'the queue water marks of the asynchronous writers (module constants '
        '16 / 8) are set to the model\'s QH / QL for the exhaustive cases; '
        'the simulation job simB uses 16 / 8',
        'the application does not ask for EOF forwarding on one outbound '
        'stream while another one of the same channel is still fed, and '
        'does not close() a process another one is piping into',
        'a CLOSE of the consumer is delivered in a segment of its own',
        'pipes (_PipeReader / _PipeWriter), sockets, async files and '
        'connection loss (as opposed to CLOSE) are not explored',
    ]


if __name__ == '__main__':
    run_check('X03', main)
