"""X05 (extra module) - SASLprep of user names and passwords (asyncssh/
saslprep.py and the places authentication applies it).

1. TLC evaluates specs/Auth/SaslPrep.tla on every string of up to MaxLen
   character classes (16 classes): the RFC 4013 pipeline written over
   classes, with NoProhibitedOut, BidiOut, Idempotent and ShyInvisible as
   invariants, and three wrong variants (bidi rule applied to the input,
   normalisation skipped, prohibited check before mapping) that TLC must
   tell apart from the rule.
2. Every row (class string -> error, or the output as tokens that say where
   each output character comes from) is rendered with concrete
   representatives (checked against the standard library's stringprep tables,
   not against asyncssh) and compared with the real saslprep(); a slice of
   the rows also goes through the three places authentication applies it:
   the user name of a USERAUTH_REQUEST and the password of a password
   request as a raw client sends them to a real server (what begin_auth /
   validate_password are given, or the connection is refused with
   IllegalUserName / ProtocolError), and the client's own user name option.
"""

import os
import random

from harness import tlc
from harness.framework import run_check, MachineryError, VERIF

SPEC = os.path.join(VERIF, 'specs', 'Auth')
INVS = ['NoProhibitedOut', 'BidiOut', 'Idempotent', 'ShyInvisible']


def run(ctx, name, maxlen, variant='rfc', invs=(), emit=False, expect=None):
    tag = f'x05_{name}_{os.getpid()}'
    cfg = f'_{tag}.cfg'
    with open(os.path.join(SPEC, cfg), 'w') as f:
        f.write(f'CONSTANTS\n  MaxLen = {maxlen}\n  Variant = "{variant}"\n'
                'SPECIFICATION Spec\nCHECK_DEADLOCK FALSE\n' +
                ''.join(f'INVARIANT {i}\n' for i in invs) +
                ('INVARIANT Emit\n' if emit else ''))
    try:
        if emit:
            rows, res = tlc.bfs_scripts(SPEC, 'SaslPrep', cfg, tag)
        else:
            rows, res = None, tlc.run(SPEC, 'SaslPrep', cfg, tag, workers=8,
                                      timeout=1200)
    finally:
        tlc.cleanup(tag)
        os.remove(os.path.join(SPEC, cfg))
    ctx.require_tlc_ok(f'SaslPrep {name} MaxLen={maxlen} {variant}', res,
                       expect_violation=expect)
    return rows


def main(ctx):
    from harness.drivers import saslprep as S
    quick = ctx.tier == 'quick'
    rnd = random.Random(ctx.seed)
    bad = S.self_check()
    if bad:
        raise MachineryError(f'representative table is wrong: {bad}')
    n = 3 if quick else 4
    # ---- 1. design check ----
    run(ctx, 'mc', n, invs=INVS)
    for v in ('bidi_on_input', 'no_nfkc', 'map_after'):
        run(ctx, 'sens_' + v, 3, variant=v, invs=['AgreesWithRfc'],
            expect='AgreesWithRfc')
    run(ctx, 'rfc_self', 3, invs=['AgreesWithRfc'])
    # ---- 2. the function ----
    rows = run(ctx, 'rows', n, emit=True)
    want = sum(16 ** k for k in range(n + 1))
    ctx.require(len(rows) == want, f'rows: {len(rows)} != {want}')
    slice_ = []
    for case, res in rows:
        case = list(case)
        for salt in ((0, 1) if len(case) <= 2 or not quick else (len(case),)):
            text, reps = S.concrete(case, salt + ctx.seed)
            got = S.run_function(text)
            ctx.count(('fn', text), nontrivial=len(case) > 0)
            sig = {'module': 'SaslPrep', 'classes': case}
            rep = {'kind': 'fn', 'text': [hex(ord(c)) for c in text]}
            if got[0] == 'crash':
                ctx.violation(dict(sig, crash=True),
                              f'saslprep({text!a}) raised {got[1]} (classes '
                              f'{case})', replay=rep)
            elif res[0] == 'err':
                if got[0] != 'err':
                    ctx.violation(sig, f'saslprep({text!a}) returned '
                                  f'{got[1]!a}; RFC 4013 refuses it '
                                  f'({res[1]}; classes {case})', replay=rep)
            else:
                exp = S.render(res[1], reps)
                if got != ('ok', exp):
                    ctx.violation(sig, f'saslprep({text!a}) gave {got!a}; '
                                  f'RFC 4013 gives {exp!a} (classes {case})',
                                  replay=rep)
            if salt in (0, len(case)) and (len(case) <= 2 or
                                           rnd.random() < (0.02 if quick else 0.01)):
                slice_.append((case, res, text, reps))
    # ---- 3. where authentication applies it ----
    for case, res, text, reps in slice_:
        exp = S.render(res[1], reps) if res[0] == 'ok' else None
        sig = {'module': 'SaslPrep', 'classes': case}
        # client's own user name option
        c = S.client_option(text) if text else ('ok', None)
        ctx.count(('client', text))
        if text and ((res[0] == 'err') != (c[0] == 'err') or c[0] == 'crash'
                     or (res[0] == 'ok' and c[1] != exp)):
            ctx.violation(dict(sig, site='client-username'),
                          f'client option username={text!a}: {c!a}, RFC 4013: '
                          f'{("error " + res[1]) if res[0] == "err" else repr(exp)}',
                          replay={'kind': 'client', 'text': [hex(ord(ch)) for ch in text]})
        if '\x00' in text:
            continue
        # server: as user name, as password
        for site in ('username', 'password'):
            u, p = (text, 'pw') if site == 'username' else ('user', text)
            if site == 'username' and not text:
                continue
            seen = S.server_sees(u, p)
            ctx.count(('server', site, text), nontrivial=True)
            rep = {'kind': 'server', 'site': site,
                   'text': [hex(ord(ch)) for ch in text]}
            if seen['loop_exceptions']:
                ctx.violation(dict(sig, site=site, loop=True),
                              f'{site} {text!a}: exception reached the event '
                              f'loop: {seen["loop_exceptions"][0]}', replay=rep)
                continue
            if res[0] == 'err':
                leaked = [x for x in seen['begin_auth'] if site == 'username'] \
                    + [x for x in seen['passwords'] if site == 'password']
                if leaked or seen['lost'] not in ('IllegalUserName',
                                                  'ProtocolError'):
                    ctx.violation(dict(sig, site=site),
                                  f'{site} {text!a} is refused by RFC 4013 '
                                  f'({res[1]}) but the server application was '
                                  f'given {leaked!a} (connection ended with '
                                  f'{seen["lost"]}, replies {seen["replies"]})',
                                  replay=rep)
            else:
                got = seen['begin_auth'] if site == 'username' else \
                    [pw for _, pw in seen['passwords']]
                if site == 'username' and exp == '':
                    # the connection starts out with user name '' so the
                    # first request naming '' does not "begin" a user:
                    # begin_auth() is not called (observation); the prepared
                    # name is what validate_password() is given
                    got = [u for u, _ in seen['passwords']]
                    ctx.coverage['empty_username_skips_begin_auth'] = \
                        not seen['begin_auth']
                if got != [exp]:
                    ctx.violation(dict(sig, site=site),
                                  f'{site} {text!a}: the server application '
                                  f'was given {got!a}, RFC 4013 gives '
                                  f'{exp!a}', replay=rep)
    ctx.traces_validated(len(rows))
    ctx.coverage['auth_slice'] = len(slice_)
    ctx.assumptions += [
        'character classes are represented by 1-4 code points each (checked '
        'against the stringprep / unicodedata tables of the standard '
        'library); one combining mark (U+0301) and its compositions',
    ]


if __name__ == '__main__':
    run_check('X05', main)
