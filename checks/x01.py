"""X01 (extra module) - the SCP protocol of asyncssh (asyncssh/scp.py).

1. TLC checks specs/Scp/Scp.tla (source, sink and remote-to-remote copier as
   processes over token streams; code or free peers; refusals on either side;
   connection loss) exhaustively at small constants against TreeReproduced,
   RefusalsReported, NoDesync, ForwardedRight and, under weak fairness,
   Terminates.  Sensitivity runs (wrong rules TLC must reject): no response
   awaited after file data, warning treated as fatal, E not sent for an empty
   directory, sink does not consume the status after the data, warnings not
   passed to the error_handler, copier forwards the final response to the
   wrong side - and the two rules of the pinned tree that are genuine defects
   (attributes set after the final reply; stale buffer when a read fails).
2. (a) Every terminal state of the code<->code model is a case (tree shape x
   flags x target kind x refusal): replayed through asyncssh.scp() against
   real servers (upload, download, remote-to-remote), trees compared byte
   for byte, modes and times with -p, reported errors with the model.
   (b) Behaviours with a FREE peer are replayed with a hand-written peer
   against the real scp handler of the server and against asyncssh.scp().
"""

import concurrent.futures
import json
import os
import random

from harness import tlc
from harness.framework import run_check, MachineryError, VERIF

SPEC = os.path.join(VERIF, 'specs', 'Scp')
INVS = ['TreeReproduced', 'RefusalsReported', 'NoDesync', 'ForwardedRight',
        'FatalRaised']
ALLREF = '{"sopen", "sread", "kcreate", "kwrite", "kstat"}'

BASE = dict(MaxNodes=2, Sizes='{0, 1, 2}', Topo='"direct"', SrcRole='"code"',
            SnkRole='"code"', SrcServer='FALSE', SnkServer='TRUE',
            RecSet='{TRUE, FALSE}', PresSet='{TRUE, FALSE}',
            DirFlagSet='{TRUE, FALSE}', HandlerSet='{TRUE, FALSE}',
            DstKinds='{"dir", "none", "file"}', RefKinds=ALLREF, MaxRefuse=1,
            AllowCut='"no"', MaxRec=0, MaxName=0, TopMax=2, KeepLog='TRUE',
            WaitAfterData='TRUE', WarnIsFatal='FALSE', FatalIsWarn='FALSE',
            SendEmptyE='TRUE',
            SinkReadsStatus='TRUE', RecordErrors='TRUE',
            StatBeforeReply='TRUE', ZeroFillFirst='TRUE',
            CopierRightSide='TRUE')

# short runs: the C1 compiler alone and few GC threads cost a fraction of the CPU
JVM = {'_JAVA_OPTIONS': '-XX:TieredStopAtLevel=1 -XX:ParallelGCThreads=2 '
                        '-XX:CICompilerCount=1'}

UP = dict(SrcServer='FALSE', SnkServer='TRUE')
DOWN = dict(SrcServer='TRUE', SnkServer='FALSE')
R2R = dict(Topo='"r2r"', SrcServer='TRUE', SnkServer='TRUE')


def write_cfg(name, consts, invs=(), view=True, spec='Spec', prop=None):
    d = dict(BASE)
    d.update(consts)
    lines = ['CONSTANTS'] + [f'  {k} = {v}' for k, v in d.items()]
    lines.append(f'SPECIFICATION {spec}')
    if view:
        lines.append('VIEW view')
    lines += [f'INVARIANT {i}' for i in invs]
    if prop:
        lines.append(f'PROPERTY {prop}')
    with open(os.path.join(SPEC, name), 'w') as f:
        f.write('\n'.join(lines) + '\n')
    return name


def mc(name, consts, invs=INVS, workers=2, timeout=1500, prop=None):
    cfg = write_cfg(f'_x01_{name}.cfg', consts, invs=invs, view=prop is None,
                    spec='FairSpec' if prop else 'Spec', prop=prop)
    try:
        return tlc.run(SPEC, 'Scp', cfg, f'X01_{name}', workers=workers,
                       timeout=timeout, java_heap='3g', env=JVM)
    finally:
        tlc.cleanup(f'X01_{name}')
        os.remove(os.path.join(SPEC, cfg))


def emit(name, consts, workers=1, timeout=1500):
    """exhaustive run with the invariants AND one printed behaviour per
    terminal state; returns (raw lines, TLCResult)"""
    cfg = write_cfg(f'_x01_{name}.cfg', consts, invs=INVS + ['EmitScript'])
    try:
        res = tlc.run(SPEC, 'Scp', cfg, f'X01_{name}', workers=workers,
                      timeout=timeout, java_heap='3g', env=JVM)
    finally:
        tlc.cleanup(f'X01_{name}')
        os.remove(os.path.join(SPEC, cfg))
    lines = [l for l in res.output.splitlines()
             if l.startswith('"<<\\"SCRIPT')]
    return lines, res


def simulate(name, consts, num, seed, depth=120, timeout=600):
    """random behaviours (one printed per completed run); invariants are
    checked along the way.  returns (raw lines without duplicates, res)"""
    cfg = write_cfg(f'_x01_{name}.cfg', consts, invs=INVS + ['EmitScript'],
                    view=False, spec='SimSpec')
    try:
        res = tlc.run(SPEC, 'Scp', cfg, f'X01_{name}', workers=1,
                      timeout=timeout, java_heap='2g', deadlock=False, env=JVM,
                      simulate=f'num={num}', depth=depth, seed=seed)
    finally:
        tlc.cleanup(f'X01_{name}')
        os.remove(os.path.join(SPEC, cfg))
    if res.error and res.error != 'timeout' and not res.violation:
        # simulation ends by exhausting num: not an error
        if 'Error:' not in res.output:
            res.error = None
            res.ok = res.violation is None
    lines = sorted({l for l in res.output.splitlines()
                    if l.startswith('"<<\\"SCRIPT')})
    return lines, res


def parse_line(line):
    v = tlc.parse_value(tlc.parse_value(line))
    return v[1], v[2]


def refkinds(cfg):
    r = cfg['ref']
    return sorted({x for x in (r if isinstance(r, list) else []) if x != 'none'})


def report(ctx, where, r, replay, counters):
    """verdicts of one replay"""
    cfg = r['cfg']
    kinds = '+'.join(refkinds(cfg)) or 'none'
    # the two reported defects of the pinned tree get a stable signature:
    # attributes set after the final reply (any sink-side setstat failure),
    # stale buffer when a read fails (only a server-side source can be made
    # to fail a read; a local source meets 'Unexpected EOF' instead)
    defect = 'setstat_after_reply' if 'kstat' in kinds else \
        'read_failure_stale_buffer' if 'sread' in kinds and \
        where in ('download', 'r2r', 'srv_source') else 'none'
    for clause, text in r['violations']:
        key = (clause, where, defect if defect != 'none' else kinds)
        counters[key] = counters.get(key, 0) + 1
        if counters[key] > 2:
            continue
        sig = {'module': 'Scp', 'clause': clause, 'where': where,
               'defect': defect, 'refusal': kinds, 'n': counters[key]}
        ctx.violation(sig, f'{clause} [{where}] {text} cfg={compact(cfg)} '
                           f'raised={r.get("raised")} errors={r.get("errors")}',
                      replay=replay)
    if defect != 'none' and r['divergences']:
        # the model has the repaired rule: where a reported defect of the
        # pinned tree is in play the real code cannot follow it step by step;
        # the monitors above still judge these cases
        counters[('unmodelled', defect)] = \
            counters.get(('unmodelled', defect), 0) + 1
        return
    for d in r['divergences']:
        ctx.divergence(f'Scp [{where}] {d} cfg={compact(cfg)} '
                       f'raised={r.get("raised")} errors={r.get("errors")} '
                       f'deco={r["deco"]}')


def compact(cfg):
    t = ''.join(('d' if nd['kd'] == 'd' else f'f{nd["size"]}') +
                f'^{nd["par"]} ' for nd in cfg['tree'])
    fl = ''.join(c for c, k in (('r', 'rec'), ('p', 'pres'), ('d', 'mustdir'),
                                ('h', 'handler')) if cfg[k])
    return f'[{t.strip()}|{fl}|{cfg["dst"]}|{cfg["ref"]}]'


def main(ctx):
    from harness.drivers import scp as drv
    try:
        _main(ctx, drv)
    finally:
        drv.drop_world()        # servers, connections, temp directories


def _main(ctx, drv):
    quick = ctx.tier == 'quick'
    rnd = random.Random(ctx.seed * 7919 + 101)
    os.makedirs(tlc.WORK, exist_ok=True)
    counters = {}

    if ctx.replay_path:
        with open(ctx.replay_path) as f:
            rp = json.load(f)['replay']
        deco = drv.Deco(rp['deco'])
        if rp['kind'] == 'tree':
            r = drv.run_tree_case(rp['mode'], rp['final'], deco)
            where = rp['mode']
        else:
            r = drv.run_script(rp['setup'], rp['log'], rp['final'], deco)
            where = rp['setup']
        print('replayed:', {k: r.get(k) for k in
                            ('raised', 'errors', 'diffs', 'reported', 'wire',
                             'ended', 'skipped', 'violations',
                             'divergences')})
        ctx.count(('replay', ctx.replay_path))
        report(ctx, where, r, rp, counters)
        drv.drop_world()
        return

    W = 2 if quick else 4
    # ---- TLC jobs ------------------------------------------------------------
    N3 = dict(MaxNodes=3, RecSet='{TRUE}', DstKinds='{"dir"}',
              DirFlagSet='{FALSE}', TopMax=1, MaxRefuse=1 if quick else 2)
    emits = [
        # exhaustive design check that also prints one case per terminal state
        ('up2', 'upload', dict(UP)),
        ('down2', 'download', dict(DOWN)),
        ('r2r2', 'r2r', dict(R2R, DstKinds='{"dir", "none"}') if quick
         else dict(R2R)),
        ('up3', 'upload', dict(UP, **N3)),
        ('down3', 'download', dict(DOWN, **N3)),
        ('r2r3', 'r2r', dict(R2R, **N3)),
    ]
    if not quick:
        N3W = dict(MaxNodes=3, MaxRefuse=1, HandlerSet='{TRUE}',
                   DstKinds='{"dir", "none"}')
        emits += [('up3w', 'upload', dict(UP, **N3W)),
                  ('down3w', 'download', dict(DOWN, **N3W)),
                  ('r2r3w', 'r2r', dict(R2R, **N3W))]
    FS = dict(SnkRole='"free"', DstKinds='{"dir"}', DirFlagSet='{FALSE}',
              RefKinds='{"sopen", "sread"}', TopMax=1, MaxNodes=3)
    FR = dict(SrcRole='"free"', MaxNodes=0, MaxName=2, Sizes='{0, 1, 2}',
              MaxRec=6)
    REFK = dict(RefKinds='{"kcreate", "kwrite", "kstat"}', MaxRefuse=1,
                DstKinds='{"dir"}')
    NOREF = dict(RefKinds='{}', MaxRefuse=0)
    CUT, NOCUT = dict(AllowCut='"quiet"'), dict(AllowCut='"no"')
    k = 1 if quick else 8
    sims = [
        # (name, setup, number of random behaviours, constants)
        ('s_clisrc_c', 'cli_source', 1200 * k, dict(FS, **CUT)),
        ('s_clisrc_n', 'cli_source', 1200 * k, dict(FS, **NOCUT)),
        ('s_srvsrc_c', 'srv_source', 1200 * k,
         dict(FS, SrcServer='TRUE', HandlerSet='{FALSE}', **CUT)),
        ('s_srvsrc_n', 'srv_source', 1200 * k,
         dict(FS, SrcServer='TRUE', HandlerSet='{FALSE}', **NOCUT)),
        ('s_clisnk_c', 'cli_sink', 1200 * k,
         dict(FR, SnkServer='FALSE', DirFlagSet='{FALSE}', **NOREF, **CUT)),
        ('s_clisnk_n', 'cli_sink', 1500 * k,
         dict(FR, SnkServer='FALSE', DirFlagSet='{FALSE}', **NOREF, **NOCUT)),
        ('s_srvsnk_c', 'srv_sink', 1500 * k,
         dict(FR, SnkServer='TRUE', HandlerSet='{FALSE}', **REFK, **CUT)),
        ('s_srvsnk_n', 'srv_sink', 1500 * k,
         dict(FR, SnkServer='TRUE', HandlerSet='{FALSE}', **NOREF, **NOCUT)),
    ]
    small = dict(MaxNodes=2, DstKinds='{"dir"}', DirFlagSet='{FALSE}',
                 TopMax=2)
    FRS = dict(SrcRole='"free"', MaxNodes=0, MaxName=2, Sizes='{0, 1}',
               MaxRec=2 if quick else 3, HandlerSet='{FALSE}',
               DirFlagSet='{TRUE, FALSE}' if not quick else '{FALSE}')
    LQ = dict(DstKinds='{"dir"}', PresSet='{TRUE}', RecSet='{TRUE}',
              Sizes='{0, 1}', RefKinds='{"sopen", "kcreate", "kwrite"}') \
        if quick else dict(DstKinds='{"dir", "none"}')
    XQ = dict(PresSet='{TRUE}', RecSet='{TRUE}') if quick else {}
    checks = [
        # (name, expected violation or None, constants, property)
        ('x_fsnk_cli', None, dict(FS, MaxNodes=2, TopMax=2, **CUT), None),
        ('x_fsnk_srv', None, dict(FS, MaxNodes=2, TopMax=2, SrcServer='TRUE',
                                  HandlerSet='{FALSE}', **CUT), None),
        ('x_fsrc_srv', None, dict(FRS, SnkServer='TRUE', **REFK, **CUT, **XQ),
         None),
        ('x_fsrc_cli', None, dict(FRS, SnkServer='FALSE',
                                  HandlerSet='{TRUE, FALSE}', **NOREF, **CUT,
                                  **XQ), None),
        # liveness under weak fairness, connection loss at any point
        ('live_up', None, dict(UP, AllowCut='"any"', DirFlagSet='{FALSE}',
                               TopMax=1, **LQ), 'Terminates'),
        ('live_r2r', None, dict(R2R, AllowCut='"any"', DirFlagSet='{FALSE}',
                                TopMax=1, **LQ), 'Terminates'),
        ('live_fsnk', None, dict(FS, MaxNodes=2, AllowCut='"any"',
                                 PresSet='{TRUE}' if quick else
                                 '{TRUE, FALSE}'), 'Terminates'),
        ('live_fsrc', None, dict(FRS, SnkServer='TRUE', AllowCut='"any"',
                                 DstKinds='{"dir"}', **NOREF,
                                 PresSet='{TRUE}' if quick else
                                 '{TRUE, FALSE}'), 'Terminates'),
        # sensitivity: wrong rules that TLC must reject
        ('nowait', 'NoDesync', dict(small, WaitAfterData='FALSE'), None),
        ('warnfatal', 'RefusalsReported', dict(small, WarnIsFatal='TRUE'),
         None),
        ('noE', 'TreeReproduced', dict(small, SendEmptyE='FALSE'), None),
        ('fatalwarn', 'FatalRaised',
         dict(FS, MaxNodes=1, FatalIsWarn='TRUE', RefKinds='{}', MaxRefuse=0),
         None),
        ('nostat', 'NoDesync', dict(small, SinkReadsStatus='FALSE'), None),
        ('norecord', 'RefusalsReported', dict(small, RecordErrors='FALSE'),
         None),
        ('wrongside', 'ForwardedRight',
         dict(small, CopierRightSide='FALSE', **R2R), None),
        # the pinned tree's own rules (reported defects): rejected as well
        ('pinned_setstat', 'NoDesync', dict(small, StatBeforeReply='FALSE'),
         None),
        ('pinned_readfail', 'RefusalsReported',
         dict(small, ZeroFillFirst='FALSE', **DOWN), None),
        # vacuity witnesses
        ('wit_nested', 'NeverNested',
         dict(small, MaxNodes=3, MaxRefuse=0, invs=['NeverNested']), None),
        ('wit_abort', 'NeverAbort', dict(small, invs=['NeverAbort']), None),
        ('wit_handled', 'NeverHandled', dict(small, invs=['NeverHandled']),
         None),
    ]

    def one_check(item):
        name, _exp, kw, prop = item
        kw = dict(kw)
        invs = kw.pop('invs', INVS)
        if prop:
            return mc(name, dict(kw, KeepLog='FALSE'), invs=[], workers=W,
                      prop=prop)
        return mc(name, kw, invs=invs, workers=W)

    def one_sim(item):
        i, (name, _setup, num, kw) = item
        return simulate(name, kw, num, ctx.seed * 1000 + 31 + i)

    ex = concurrent.futures.ThreadPoolExecutor(max_workers=6)
    f_emit = [ex.submit(emit, n, kw, 2 if quick else 1)
              for n, _m, kw in emits]
    f_sim = [ex.submit(one_sim, it) for it in enumerate(sims)]
    f_chk = [ex.submit(one_check, it) for it in checks]

    # ---- (a) tree cases (replayed while the other TLC runs go on) ------------
    budget_a = {'quick': 110, 'thorough': 1500}[ctx.tier]
    total = 0
    outcomes = {}
    skipped = 0
    for (name, mode, kw), fut in zip(emits, f_emit):
        lines, res = fut.result()
        ctx.require_tlc_ok(f'Scp {name} (design check + cases) {kw}', res)
        ctx.require(len(lines) > 50, f'{name}: only {len(lines)} cases')
        lines.sort()
        rnd.shuffle(lines)
        done = 0
        per_kind = {}
        for line in lines:
            if done >= budget_a:
                break
            _log, final = parse_line(line)
            cfg = final['cfg']
            if not drv.materialisable(mode, cfg):
                continue
            kinds = '+'.join(refkinds(cfg)) or 'none'
            # keep the mix balanced: at most 40% of the budget without refusal
            if kinds == 'none' and per_kind.get('none', 0) >= 0.4 * budget_a:
                continue
            server_src = mode != 'upload'
            big = server_src and ('sread' in kinds or rnd.random() < 0.03)
            unit = drv.SRV_BLOCK if big else rnd.choice([2, 5, 16, 64])
            if not server_src and 'sread' in kinds:
                unit = drv.LOCAL_BIG    # beyond the read-ahead of a local file
            deco = drv.Deco.pick(rnd, cfg, mode, unit, len(cfg['tree']))
            r = drv.run_tree_case(mode, final, deco)
            if r['skipped']:
                skipped += 1
                continue
            done += 1
            total += 1
            per_kind[kinds] = per_kind.get(kinds, 0) + 1
            key = (mode, json.dumps(cfg, sort_keys=True))
            ctx.count(key, nontrivial=len(cfg['tree']) > 1 or kinds != 'none')
            oc = (mode, 'raised' if r.get('raised') else
                  'reported' if r.get('errors') else 'clean')
            outcomes[oc] = outcomes.get(oc, 0) + 1
            if total % 211 == 7:
                ctx.sample({'mode': mode, 'cfg': compact(cfg),
                            'raised': r.get('raised'),
                            'errors': r.get('errors'),
                            'refused': r.get('refused')})
            report(ctx, mode, r, {'kind': 'tree', 'mode': mode,
                                  'final': final, 'deco': deco.d}, counters)
    # ---- (b) scripts -------------------------------------------------------
    budget_b = {'quick': 90, 'thorough': 1200}[ctx.tier]
    nscripts = 0
    ends = {}
    for (name, setup, _num, kw), fut in zip(sims, f_sim):
        lines, res = fut.result()
        ctx.require(res.violation is None and not res.error,
                    f'Scp simulate {name}: {res.violation} {res.error}\n' +
                    res.output[-2000:])
        ctx.add_tlc(f'Scp simulate {name} {kw}', res)
        ctx.require(len(lines) > 50, f'{name}: only {len(lines)} scripts')
        rnd.shuffle(lines)
        parsed = [parse_line(l) for l in lines[:budget_b * 6]]
        # the longer half first, then a random rest
        parsed.sort(key=lambda p: -len(p[0]))
        head = parsed[:budget_b * 2 // 3]
        tail = parsed[budget_b * 2 // 3:]
        rnd.shuffle(tail)
        done = 0
        for log, final in head + tail:
            if done >= budget_b:
                break
            cfg = final['cfg']
            kinds = refkinds(cfg)
            big = setup == 'srv_source' and 'sread' in kinds
            unit = drv.SRV_BLOCK if big else rnd.choice([2, 5, 16])
            if setup == 'cli_source' and 'sread' in kinds:
                unit = drv.LOCAL_BIG
            deco = drv.Deco.pick(rnd, cfg, setup, unit,
                                 max(len(cfg['tree']), 3))
            r = drv.run_script(setup, log, final, deco)
            if r['skipped']:
                skipped += 1
                continue
            done += 1
            nscripts += 1
            ctx.count((setup, json.dumps(log)), nontrivial=len(log) >= 4)
            ends[(setup, r.get('ended'))] = \
                ends.get((setup, r.get('ended')), 0) + 1
            if nscripts % 173 == 5:
                ctx.sample({'setup': setup, 'cfg': compact(cfg),
                            'log': [f'{w}:{t["t"]}{t["n"]}' for w, c, t
                                    in log][:16],
                            'ended': r.get('ended'),
                            'raised': r.get('raised')})
            report(ctx, setup, r, {'kind': 'script', 'setup': setup,
                                   'log': log, 'final': final,
                                   'deco': deco.d}, counters)
    drv.drop_world()
    for (name, exp, kw, prop), fut in zip(checks, f_chk):
        res = fut.result()
        ctx.require_tlc_ok(f'Scp {name} {prop or ""} {kw}', res,
                           expect_violation=exp)
    ex.shutdown()
    ctx.traces_validated(total + nscripts)
    ctx.notes.append('tree cases: ' + ', '.join(
        f'{m}/{o}={n}' for (m, o), n in sorted(outcomes.items())))
    ctx.notes.append('scripts: ' + ', '.join(
        f'{s}/{e}={n}' for (s, e), n in sorted(ends.items())))
    for (tag, defect), n in sorted((k, v) for k, v in counters.items()
                                   if k[0] == 'unmodelled'):
        ctx.notes.append(f'{n} cases touching the reported defect {defect} '
                         f'end differently from the (repaired) model without '
                         f'breaking a property; not counted as divergences')
    if skipped:
        ctx.notes.append(f'{skipped} cases skipped (refusal or order that '
                         f'cannot be produced in that mode)')
    if ctx.violations:
        return          # the coverage expectations below assume a sane tree
    ctx.require(total >= (500 if quick else 6000),
                f'only {total} tree cases were replayed')
    ctx.require(nscripts >= (500 if quick else 6000),
                f'only {nscripts} scripts were replayed')
    for m in ('upload', 'download', 'r2r'):
        ctx.require(all(outcomes.get((m, o), 0) > 0
                        for o in ('clean', 'reported', 'raised')),
                    f'{m}: not all outcomes seen: {outcomes}')
    ctx.assumptions += [
        'streams are reliable FIFO byte streams until the connection is lost; '
        'a lost connection is seen as end-of-file by every reader',
        'a file is 0..2 blocks (3 nodes at most per tree in the exhaustive '
        'runs); a block is one unit of 2..64 bytes, or 256 KiB when the '
        'server-side block structure matters',
        'refusals: source cannot open / read an item, sink cannot create / '
        'write an item or set its attributes; at most 2 per case',
        'directory listing order is the order of the file system under '
        '/verif/.work (a function of the set of names); the harness names '
        'the entries so that it equals the model\'s walk order',
        'the server side always exits 0 and swallows errors (error_handler='
        'False, server=True): only the caller of asyncssh.scp() is told',
        'after a fatal exception the caller-side source / sink re-sends the '
        'error record once per enclosing directory level; these duplicates '
        'are not modelled and skipped by the scripted peer',
    ]


if __name__ == '__main__':
    run_check('X01', main)
