"""C01 - the encrypted transport is tamper-evident in both directions.

1. TLC exhausts specs/Transport/Tamper.tla: every sequence of up to two
   adversary actions (bit flip in length / body / padding / tag, truncation,
   drop, duplicate, swap, spliced-in replayed / foreign / forged packet, end
   of stream (FIN) in front of a packet, an unauthenticated packet put in
   front of the first KEXINIT - the Terrapin prefix) at
   every position of a packet stream, for the four shapes of the encryption
   layer (E&M, EtM, AES-GCM, chacha20-poly1305): TamperEvident,
   PrefixIntact, UntouchedComplete; the variant that keeps parsing after a
   fatal error must violate TamperEvident for GCM (sensitivity, finding F6).
2. The adversary behaviours are replayed by a packet-boundary MITM on live,
   authenticated sessions carrying application data, in both directions, at
   several phases of the session, for representative (all, in the thorough
   tier) cipher / MAC / compression combinations.  Monitors on observations:
   what the receiving application got is a prefix of what was written;
   everything written before the first altered packet arrived; an altered
   stream never ends in a clean close."""

import os
import random

import asyncssh

from harness import tlc, wire
from harness.framework import run_check, MachineryError, VERIF

SPEC = os.path.join(VERIF, 'specs', 'Transport')
INVS = ['TamperEvident', 'PrefixIntact', 'UntouchedComplete',
        'NoCleanEndWhenAltered']
ALLOWED = (asyncssh.MACError, asyncssh.ProtocolError,
           asyncssh.CompressionError, asyncssh.ConnectionLost,
           asyncssh.KeyExchangeFailed)


def write_cfg(name, consts, invariants=(), properties=(), view=True,
              spec='Spec'):
    d = dict(NPkts=4, Budget=1, Class='"EandM"', ParseAfterError='FALSE',
             EofIsClean='FALSE', Strict='"on"')
    d.update(consts)
    lines = ['CONSTANTS'] + [f'  {k} = {v}' for k, v in d.items()]
    lines += [f'SPECIFICATION {spec}', 'CHECK_DEADLOCK FALSE']
    lines += [f'INVARIANT {i}' for i in invariants]
    lines += [f'PROPERTY {p}' for p in properties]
    if view:
        lines.append('VIEW view')
    with open(os.path.join(SPEC, name), 'w') as f:
        f.write('\n'.join(lines) + '\n')
    return name


def mc(ctx, tag, consts, invariants, expect=None, properties=(), spec='Spec',
       view=True):
    cfg = write_cfg(f'_{tag}.cfg', consts, invariants, properties, view, spec)
    res = tlc.run(SPEC, 'Tamper', cfg, tag, timeout=1800)
    ctx.require_tlc_ok(f'Tamper {tag} {consts}', res, expect_violation=expect)
    tlc.cleanup(tag)
    os.remove(os.path.join(SPEC, cfg))


def adversary_behaviours(ctx, tag, consts):
    """Every distinct adversary schedule of the model (with the model's
    verdict): exhaustive BFS with the schedule history in the VIEW."""
    cfg = write_cfg(f'_{tag}.cfg', consts, invariants=['EmitAdv'], view=False)
    with open(os.path.join(SPEC, cfg), 'a') as f:
        f.write('VIEW viewA\n')
    scripts, res = tlc.bfs_scripts(SPEC, 'Tamper', cfg, tag)
    ctx.require_tlc_ok(f'Tamper {tag} (schedule emission) {consts}', res)
    tlc.cleanup(tag)
    os.remove(os.path.join(SPEC, cfg))
    out = {}
    for adv, verdict in scripts:
        out.setdefault(repr(adv), (adv, verdict[0], verdict[1]))
    return list(out.values())


def to_actions(adv, direction, base):
    acts = []
    for a in adv:
        name, pid = a[0], a[1]
        rid = base + pid - 1
        if name == 'flip':
            acts.append(dict(dir=direction, op='flip', id=rid, region=a[3]))
        elif name == 'splice':
            acts.append(dict(dir=direction, op='splice', id=rid, what=a[3]))
        elif name == 'preins':
            # in front of the first KEXINIT, in both directions (so that a
            # peer that lets it pass does so on both sides)
            acts.append(dict(dir=direction, op='preinsert', id=0))
        else:
            acts.append(dict(dir=direction, op=name, id=rid))
    return acts


def macsize_of(enc, mac):
    c = wire.CIPHERS[enc]
    return 16 if c[0] in ('gcm', 'chacha') else wire.MACS[mac][2]


def phases(T, kw, payloads):
    """Packet ids (per direction, counted from the first encrypted packet)
    at which interesting message types occur in an undisturbed session."""
    r = T.run_session(payloads, client_kw=kw, server_kw=kw,
                      mitm=T.Mitm([]))
    if r['outcome'] != 'ok':
        raise MachineryError(f'baseline session failed: {r["outcome"]} {kw}')
    out = {}
    for side, d in (('c', 'cs'), ('s', 'sc')):
        ids, n, seen21 = {}, 0, False
        for t, _, _, written in r['rec'].app[side]:
            if seen21 and written:
                n += 1
                ids.setdefault(t, []).append(n)
            if t == 21:
                seen21 = True
        bases = [1]
        for t in (50, 52, 90, 91, 94, 96):
            if t in ids:
                bases.append(ids[t][0])
        if 94 in ids and len(ids[94]) > 2:
            bases.append(ids[94][2])
        out[d] = (sorted(set(bases)), n)
    return out


def judge(ctx, T, r, m, d, actions, payloads, what, sig):
    bad = []
    recv_side = 's' if d == 'cs' else 'c'
    sent = b''.join(payloads)
    got = r['srv_rx'] if d == 'cs' else b''.join(r['echoed'])
    if not sent.startswith(got):
        bad.append(f'TamperEvident: the receiving application got '
                   f'{got[-40:]!r}..., not a prefix of what was written')
    # packet level: whatever passed integrity checking and was handed to the
    # dispatcher (pkt_in hook) is the next genuine packet, unaltered
    send_side = 'c' if d == 'cs' else 's'
    emitted = [(t, p) for t, _, p, w in r['rec'].app[send_side] if w]
    accepted = [(t, p) for t, _, p, _ in r['rec'].rx[recv_side]]
    if any(a['op'] == 'preinsert' for a in m.applied) and accepted and \
            accepted[0][0] == 2 and (not emitted or emitted[0][0] != 2):
        # the unauthenticated IGNORE in front of the first KEXINIT: no keys
        # are in effect yet, it is taken as what it is (C01 speaks about the
        # stream once keys are in effect - what matters is what follows)
        accepted = accepted[1:]
    if accepted != emitted[:len(accepted)]:
        k = next(i for i, a in enumerate(accepted)
                 if i >= len(emitted) or a != emitted[i])
        bad.append(f'TamperEvident: packet {k + 1} accepted by the receiver '
                   f'(type {accepted[k][0]}, {len(accepted[k][1])} bytes) is '
                   f'not the packet the sender emitted at that position')
    changed = m.changed(d)
    # data written before the first altered packet must have arrived
    first = min(a['id'] for a in m.applied) if m.applied else None
    if first is not None:
        side = 'c' if d == 'cs' else 's'
        n, seen21, before = 0, False, 0
        for t, _, pl, written in r['rec'].app[side]:
            if seen21 and written:
                n += 1
                if t == 94 and n < first:
                    before += int.from_bytes(pl[5:9], 'big')
            if t == 21:
                seen21 = True
        # in direction sc the echo is only produced for data that arrived
        if d == 'cs' and len(got) < before:
            bad.append(f'PrefixIntact: {before} bytes were written before '
                       f'the first altered packet but only {len(got)} '
                       f'reached the application')
    lost = r['lost'][recv_side]
    if any(a['op'] == 'fin' for a in m.applied):
        # the stream was ended on a packet boundary in front of a packet the
        # sender wrote: the receiver must report an error, never an orderly
        # end (a shortened stream is an altered stream)
        if not lost or lost[0] is None:
            bad.append(f'ErrOnTamper: the stream was cut short (FIN in front '
                       f'of packet {[a["id"] for a in m.applied if a["op"] == "fin"][0]}) '
                       f'and the receiver reported '
                       f'{"an orderly close" if lost else "nothing"} '
                       f'(session outcome {r["outcome"]})')
    if changed and m.applied:
        if r['outcome'] == 'ok' and lost and lost[0] is None:
            bad.append('ErrOnTamper: the byte stream was altered but the '
                       'receiver ended the connection cleanly (alteration '
                       'went unnoticed)')
        for exc in lost:
            if exc is not None and not isinstance(exc, ALLOWED):
                bad.append(f'ErrOnTamper: receiver ended with '
                           f'{type(exc).__name__}: {exc}')
    if r['loop_exceptions']:
        bad.append(f'exception reached the event loop: '
                   f'{r["loop_exceptions"][0]}')
    if bad:
        ctx.violation(sig, f'{what}: ' + '; '.join(bad[:3]),
                      replay={'kind': 'mitm', 'actions': actions, **sig})
    return not bad


def main(ctx):
    from harness.drivers import transport as T
    if ctx.replay_path:
        from checks import replay_mine
        return replay_mine.c01(ctx, judge, macsize_of)
    from asyncssh.encryption import get_encryption_algs
    from asyncssh.mac import get_mac_algs
    quick = ctx.tier == 'quick'
    rnd = random.Random(ctx.seed)
    # ---- 1. design check ----
    for cls in ('"EandM"', '"ETM"', '"GCM"', '"CHACHA"'):
        mc(ctx, 'c01_mc_' + cls.strip('"'), dict(Class=cls, Budget=2,
                                                 NPkts=3 if quick else 4),
           INVS)
    mc(ctx, 'c01_sens', dict(Class='"GCM"', ParseAfterError='TRUE'),
       ['TamperEvident'], expect='TamperEvident')
    mc(ctx, 'c01_sens_eof', dict(Class='"ETM"', EofIsClean='TRUE'),
       ['NoCleanEndWhenAltered'], expect='NoCleanEndWhenAltered')
    mc(ctx, 'c01_sens_strict', dict(Class='"CHACHA"', Budget=2,
                                    Strict='"silently_off"'),
       ['TamperEvident'], expect='TamperEvident')
    mc(ctx, 'c01_w1', dict(Class='"CHACHA"'), ['NeverStall'],
       expect='NeverStall')
    mc(ctx, 'c01_w2', dict(Class='"ETM"'), ['NeverErr'], expect='NeverErr')
    # ---- 2. replay ----
    advs = adversary_behaviours(ctx, 'c01_adv', dict(Budget=2, NPkts=3))
    singles = [a for a in advs if len(a[0]) == 1]
    doubles = [a for a in advs if len(a[0]) == 2]
    ctx.require(len(singles) >= 20, f'too few adversary behaviours '
                f'({len(singles)} single)')
    rnd.shuffle(doubles)
    # a packet in front of the first KEXINIT combined with anything at the
    # first encrypted packets (the Terrapin shape) is always replayed
    # (with strict key exchange the model ends at the insertion; what the
    # adversary would go on to do is taken from the variant without it)
    pre_doubles = [a for a in adversary_behaviours(
        ctx, 'c01_advp', dict(Budget=2, NPkts=3, Strict='"silently_off"'))
        if len(a[0]) == 2 and a[0][0][0] == 'preins']
    ctx.require(len(pre_doubles) >= 10, f'pre-insert schedules: '
                f'{len(pre_doubles)}')
    encs = [e.decode() for e in get_encryption_algs()]
    macs = [m.decode() for m in get_mac_algs()]
    if quick:
        combos = [('aes128-ctr', 'hmac-sha2-256', 'none'),
                  ('aes256-cbc', 'hmac-sha1', 'none'),
                  ('aes128-ctr', 'hmac-sha2-256-etm@openssh.com', 'none'),
                  ('3des-cbc', 'hmac-md5-etm@openssh.com',
                   'zlib@openssh.com'),
                  ('aes128-gcm@openssh.com', macs[0], 'none'),
                  ('aes256-gcm@openssh.com', macs[0], 'zlib@openssh.com'),
                  ('chacha20-poly1305@openssh.com', macs[0], 'none'),
                  ('arcfour256', 'umac-64@openssh.com', 'none'),
                  ('aes192-ctr', 'umac-128-etm@openssh.com', 'zlib')]
    else:
        combos = []
        for enc in encs:
            aead = 'gcm' in enc or 'chacha' in enc
            for mac in (macs[:1] if aead else macs):
                combos.append((enc, mac, 'none'))
            combos.append((enc, macs[2], 'zlib@openssh.com'))
    payloads = [b'line%d\n' % i for i in range(5)]
    total = 0
    for ci, (enc, mac, cmp_) in enumerate(combos):
        kw = dict(encryption_algs=[enc], mac_algs=[mac],
                  compression_algs=[cmp_])
        ph = phases(T, kw, payloads)
        ms = macsize_of(enc, mac)
        per_combo = singles if (quick or ci % 9 == 0) else \
            rnd.sample(singles, min(len(singles), 12))
        extra = doubles[:(10 if quick else 30)] if ci % 3 == 0 else []
        pre = pre_doubles if 'chacha' in enc or not quick else \
            [a for a in pre_doubles if a[0][1][0] in ('drop', 'dup')]
        for adv, m_state, m_deliv in per_combo + extra + \
                [(a[0], 'pre', a[2]) for a in pre]:
            for d in ('cs', 'sc'):
                bases, npk = ph[d]
                if m_state == 'pre':
                    bases = [1]
                elif quick:
                    bases = [bases[(total + i) % len(bases)]
                             for i in range(2)]
                for base in bases:
                    actions = to_actions(adv, d, base)
                    if any(a['id'] > npk for a in actions):
                        continue
                    bit = rnd.randrange(64)
                    for a in actions:
                        a['bit'] = bit
                    m = T.Mitm(actions, macsize=ms)
                    r = T.run_session(payloads, client_kw=kw, server_kw=kw,
                                      mitm=m)
                    total += 1
                    sig = {'module': 'Tamper', 'enc': enc, 'mac': mac,
                           'cmp': cmp_, 'dir': d, 'adv': str(adv)}
                    judge(ctx, T, r, m, d, actions, payloads,
                          f'{enc}/{mac}/{cmp_} {d} base {base} {adv}', sig)
                    ctx.count((enc, mac, cmp_, d, base, str(adv)),
                              nontrivial=m.changed(d))
                    if total % 211 == 1:
                        ctx.sample({'enc': enc, 'mac': mac, 'cmp': cmp_,
                                    'dir': d, 'actions': actions,
                                    'outcome': r['outcome'],
                                    'model_state': m_state})
    # taint "len" materialised as a rewritten length field (not just one
    # flipped bit): tiny, block-boundary and huge values, on the classes
    # whose length travels in the clear and on one of each other class
    len_combos = [('aes128-ctr', 'hmac-sha2-256-etm@openssh.com'),
                  ('aes128-cbc', 'hmac-sha1-etm@openssh.com'),
                  ('aes256-ctr', 'hmac-sha2-512-etm@openssh.com'),
                  ('aes128-ctr', 'umac-64-etm@openssh.com'),
                  ('aes128-gcm@openssh.com', macs[0]),
                  ('aes128-ctr', 'hmac-sha2-256'),
                  ('chacha20-poly1305@openssh.com', macs[0])]
    values = [0, 1, 3, 4, 8, 11, 12, 15, 16, 17, 28, 32, 2 ** 31, 2 ** 32 - 1]
    for ci, (enc, mac) in enumerate(len_combos if not quick
                                    else len_combos[:5]):
        kw = dict(encryption_algs=[enc], mac_algs=[mac],
                  compression_algs=['none'])
        ph = phases(T, kw, payloads)
        ms = macsize_of(enc, mac)
        for d in ('cs', 'sc'):
            bases, npk = ph[d]
            for base in (bases[-2:] if quick else bases):
                for v in (values if not quick else values[(ci + base) % 2::2]):
                    actions = [dict(dir=d, op='flip', id=base, region='len',
                                    setlen=v)]
                    m = T.Mitm(actions, macsize=ms)
                    r = T.run_session(payloads, client_kw=kw, server_kw=kw,
                                      mitm=m)
                    total += 1
                    judge(ctx, T, r, m, d, actions, payloads,
                          f'{enc}/{mac} {d} packet {base} length field '
                          f'rewritten to {v}',
                          {'module': 'Tamper', 'enc': enc, 'mac': mac,
                           'dir': d, 'setlen': v})
                    ctx.count((enc, mac, d, base, 'setlen', v),
                              nontrivial=m.changed(d))
    # the model's replay / removal is not tied to a distance: the packet
    # offered again may be ANY earlier one.  One limb (2^8 packets) of every
    # per-packet counter that protects against it - the SSH sequence number
    # in the MAC and in the chacha20 nonce, the invocation counter of AES-GCM
    # (specs/Transport/Nonce.tla) - is crossed here: a packet of 256 (255,
    # 257) packets ago put in front of the current one, and 256 consecutive
    # packets removed, in sessions of 275 data packets
    far_pl = [b'l%03d\n' % i for i in range(275)]
    far_combos = [('aes128-gcm@openssh.com', macs[0]),
                  ('chacha20-poly1305@openssh.com', macs[0]),
                  ('aes128-ctr', 'hmac-sha2-256'),
                  ('aes256-gcm@openssh.com', macs[0]),
                  ('aes128-ctr', 'hmac-sha2-256-etm@openssh.com'),
                  ('aes128-cbc', 'hmac-sha1'),
                  ('aes256-ctr', 'umac-64@openssh.com')]
    for ci, (enc, mac) in enumerate(far_combos[:3] if quick else far_combos):
        kw = dict(encryption_algs=[enc], mac_algs=[mac],
                  compression_algs=['none'])
        ms = macsize_of(enc, mac)
        for d in ('cs', 'sc'):
            # (removal needs a sender that goes on without being answered:
            # the client's burst of writes; the echo of a burst comes back
            # in fewer, larger packets, so that direction is replayed into
            # with one round trip per line)
            cases = [('back', 256)] + ([('drop', 256)] if d == 'cs' else [])
            if not quick:
                cases += [('back', 255), ('back', 257), ('back', 512)] + \
                    ([('drop', 512)] if d == 'cs' else [])
            for kind, dist in cases:
                if kind == 'back':
                    if dist + 12 > 270:
                        far = far_pl + far_pl
                    else:
                        far = far_pl
                    actions = [dict(dir=d, op='splice', what='back',
                                    back=dist, id=dist + 9)]
                else:
                    far = far_pl if dist < 260 else far_pl + far_pl
                    actions = [dict(dir=d, op='drop', id=i)
                               for i in range(12, 12 + dist)]
                m = T.Mitm(actions, macsize=ms)
                r = T.run_session(far, client_kw=kw, server_kw=kw, mitm=m,
                                  burst=d == 'cs')
                total += 1
                if len(m.applied) != len(actions):
                    raise MachineryError(
                        f'distant {kind} {dist} {enc} {d}: only '
                        f'{len(m.applied)} of {len(actions)} actions applied '
                        f'(outcome {r["outcome"]})')
                judge(ctx, T, r, m, d, actions[:3], far,
                      f'{enc}/{mac} {d}: ' +
                      (f'the packet of {dist} packets ago offered again'
                       if kind == 'back' else
                       f'{dist} consecutive packets removed'),
                      {'module': 'Tamper', 'enc': enc, 'mac': mac, 'dir': d,
                       'distant': kind, 'distance': dist})
                ctx.count((enc, mac, d, 'distant', kind, dist),
                          nontrivial=True)
    # F6 regression: packets removed, the rest arriving in several
    # data_received() calls before the deferred clean-up runs
    for enc in ('aes128-gcm@openssh.com', 'aes256-gcm@openssh.com',
                'aes128-ctr', 'chacha20-poly1305@openssh.com', 'aes128-cbc'):
        for drop in (1, 2):
            for calls in (2, 3, 5):
                got, lost = T.burst_after_drop(enc, drop, calls)
                total += 1
                ctx.count(('burst', enc, drop, calls))
                if got:
                    ctx.violation({'module': 'Tamper', 'clause':
                                   'NoDeliveryAfterAlteration', 'enc': enc},
                                  f'{enc}: {drop} packet(s) removed from the '
                                  f'stream, yet {got!r} reached the '
                                  f'application (rest delivered in {calls} '
                                  f'data_received calls in one iteration)',
                                  replay={'kind': 'burst', 'enc': enc,
                                          'drop': drop, 'calls': calls})
    ctx.traces_validated(total)
    ctx.assumptions += [
        'the adversary works at packet boundaries (each transport.write() of '
        'asyncssh is one SSH packet) plus bit flips / truncation inside a '
        'packet; byte-granular splicing inside packets is covered by the '
        'flip and truncate actions',
        'MITM sessions use selector delivery semantics (one read event per '
        'loop iteration); the F6 regression delivers several data_received '
        'calls within one iteration, as an SSH tunnel does',
    ]


if __name__ == '__main__':
    run_check('C01', main)
