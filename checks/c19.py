"""C19 - stream and process APIs deliver what was sent, split as asked.

1. TLC checks specs/Stream/Stream.tla exhaustively at small constants: the
   model of SSHStreamSession / SSHClientProcess over the channel's
   pause/resume/window machinery against the reference semantics stated on
   the concatenated stream (ChunkIndependent), NothingLost, AllDataThenEOF
   (redirections), ExitImpliesAllOutput (part of the reference for wait());
   specs/Stream/Drain.tla for DrainSound.  Sensitivity runs (TLC must report
   a violation): separator searched only in the newest chunk, CLOSE tearing
   the channel down while data is held, drain() that never waits / never
   raises, and the code as it is (ResumeFix = FALSE: readuntil does not
   resume reading when it stops at a marker -> finding F11).
2. TLC generates the cases: exhaustive case tables (every stream of <= N
   symbols over {a, b, \\n} x every chunking x every read call, reader first
   and data first, the call repeated until EOF; the separators are drawn by
   TLC from every shape class of literal tuples: one unit, word, repeated
   first unit (aa, aab), equal lengths, prefix, suffix, nested, lexicographic
   order equal / opposite to length order, plus the regex a+b with and
   without max_separator_len; cases with a packet boundary strictly inside a
   separator occurrence are always kept when quick samples the tables; the
   pieces returned for one (stream, request) are also compared across all
   replayed chunkings) and simulated behaviours
   (two data types sharing the window, in-band markers on server-side
   readers, exit status / CLOSE orderings with wait(), redirections,
   drain()).  Every case is replayed into the real code over a real channel
   pair on the deterministic loop with exactly TLC's packetisation; each
   call's result is compared with the specification's prediction
   (conformance) and judged by the property monitor (verdict).
   Late redirection is a table of its own (policy "red"): canonical streams,
   windows 1-3, packets one by one, the stream is redirected at every idle
   point - so k chunks buffered in the stream, paused or not, m chunks / EOF
   / CLOSE parked in the channel all occur - possibly after a read, possibly
   twice (target replaced); quick samples it stratified by that buffer
   state; every target kind in turn.
   Two read streams on one session are a table of their own (policy "two"):
   stdout and stderr packets interleaved one by one, windows 1-3, the
   application reads only stdout, only stderr, both or neither (one kind of
   call - read(n), read(-1), readexactly, readline, readuntil, __anext__ of
   "async for" - repeated until EOF, after any prefix of the packets), so
   the unread stream alone fills the buffer limit and EOF / exit status /
   CLOSE arrive in that state.  at_eof() of every stream is polled after
   every step of every replay and compared with the specification.
   ExitAfterOutput (policy "exw"): stdout / stderr redirected to targets
   written by a background task - an aiofiles-like object and an
   asyncio.StreamWriter whose writes complete only when the driver says so
   (TStep) - packets, exit status, CLOSE, one wait() / communicate() /
   "async with" at any idle point; the state of every target is captured
   at the very moment the call returns: it must hold all of its stream and
   have been given EOF / closed.  ReportAtChannelClose is the variant TLC
   must reject.  run() with self-paced slow targets is in the end-to-end
   scenarios.
   Full duplex (Duplex = TRUE): the reading side writes and queues its EOF
   behind the peer's window before the packets arrive (sending state open /
   data queued / eof_pending / eof), the peer starts reading at any later
   point; DropWhileEofPending is the variant TLC must reject.  End to end:
   a cat-like peer with windows 1-3, run(input=), communicate(input),
   stdin=<file> with both streams read concurrently, write+EOF then
   read()/readline loops.
3. End-to-end: a real server handler writes and calls exit(); run()/wait()
   must return complete output whenever a status or signal is reported.
"""

import concurrent.futures
import hashlib
import json
import os
import random
import time

from harness import tlc
from harness.framework import run_check, MachineryError, VERIF

SPEC = os.path.join(VERIF, 'specs', 'Stream')
REMAX = 6

ALL_SHAPES = ('{"one", "rep", "rep3", "word", "eq", "prefix", "nested", '
              '"suffix", "lexopp", "lexsame"}')
# separator presets: only "\\n" / a few shapes (state space of the exhaustive
# runs grows with the number of separators offered)
NL_ONLY = dict(SepShapes='{}', Regexes='{}')
FEW_SEPS = dict(SepShapes='{"word", "nested", "lexopp"}', Regexes='{"reK"}')

BASE = dict(DTs='{"out"}', MaxLen=4, MaxErr=0, Marks='{}', MaxMarks=0,
            Windows='{1, 2, 9}', Ns='{0, 1, 2, 4, 5}', ReadAll='TRUE',
            SepShapes=ALL_SHAPES, SepPer=1, MaxSepLen=2,
            Regexes='{"re0", "reK"}', SepFix='TRUE', ReMax=REMAX,
            MaxBatch=2, MaxCalls=0, Proc='FALSE', Redir='FALSE', MaxRedir=1,
            Canon='FALSE', Readers='{}', EscapeFix='TRUE', StreamSample=0,
            SlowTgt='FALSE', ReportAtChannelClose='FALSE',
            Duplex='FALSE', PeerWin=2, MaxLocal=3, DropWhileEofPending='FALSE',
            Policy='"any"', PrintAt=0, SearchBug='FALSE', CloseBug='FALSE',
            ResumeFix='TRUE', CollectFix='TRUE')
DRAIN = dict(High=4, Low=1, Win=3, Sizes='{1, 2, 5}', MaxBuf=12, MaxOps=0,
             PrintAt=0, NoWait='FALSE', NoRaise='FALSE')

INV_STREAM = ['TypeOK', 'ChunkIndependent', 'NothingLost', 'AllDataThenEOF',
              'PauseAccurate']


def write_cfg(name, consts, invariants, view):
    lines = ['CONSTANTS'] + [f'  {k} = {v}' for k, v in consts.items()]
    lines += ['SPECIFICATION Spec', 'CHECK_DEADLOCK FALSE']
    if view:
        lines.append('VIEW view')
    lines += [f'INVARIANT {i}' for i in invariants]
    with open(os.path.join(SPEC, name), 'w') as f:
        f.write('\n'.join(lines) + '\n')
    return name


class Job:
    def __init__(self, name, module, consts, invariants, expect=None,
                 cases=False, sim=None, depth=None, workers=4, heap='3g'):
        self.name = name
        self.module = module
        self.consts = consts
        self.invariants = invariants
        self.expect = expect
        self.cases = cases
        self.sim = sim
        self.depth = depth
        self.workers = workers
        self.heap = heap
        self.res = None
        self.case_list = []

    def run(self, seed):
        # names are unique per process: concurrent C19 runs (e.g. a mutant
        # evaluation next to a normal run) must not share scratch files
        cfg = write_cfg(f'_c19_{self.name}_{os.getpid()}.cfg', self.consts,
                        self.invariants + (['PrintCase'] if self.cases else []),
                        view=not self.cases)
        tag = f'c19_{self.name}_{os.getpid()}'
        kw = dict(seed=seed + 11)      # also seeds RandomSubset (separators)
        if self.sim:
            kw = dict(simulate=f'num={self.sim}', depth=self.depth,
                      seed=seed + 11, deadlock=False)
        try:
            self.res = tlc.run(SPEC, self.module, cfg, tag,
                               workers=self.workers, timeout=2400,
                               java_heap=self.heap, **kw)
        finally:
            tlc.cleanup(tag)
            try:
                os.remove(os.path.join(SPEC, cfg))
            except OSError:
                pass
        if self.cases:
            self.case_list = parse_cases(self.res.output)
        return self


def parse_cases(output):
    out = []
    for l in output.splitlines():
        if l.startswith('"<<\\"CASE'):
            s = l[1:-1].replace('\\"', '"').replace('\\\\', '\\')
            s = s.replace('<<', '[').replace('>>', ']')
            s = s.replace('TRUE', 'true').replace('FALSE', 'false')
            out.append(json.loads(s)[1:])
    return out


def S(**kw):
    d = dict(BASE)
    d.update(kw)
    return d


def D(**kw):
    d = dict(DRAIN)
    d.update(kw)
    return d


def jobs_for(tier):
    q = tier == 'quick'
    N = 4 if q else 5
    two = dict(DTs='{"out", "err"}', MaxErr=1)
    marks = dict(DTs='{"in"}', Marks='{"!sig", "!seof"}', MaxMarks=1)
    proc = dict(DTs='{"out", "err"}', MaxErr=1, Proc='TRUE', Ns='{1}',
                **NL_ONLY)
    J = []
    # ---- case generators first (the replay waits for them) ----
    seps = dict(SepPer=1 if q else 2, MaxSepLen=2 if q else 3)
    tab = dict(MaxBatch=1, MaxCalls=30, PrintAt=60, MaxLen=N,
               Ns='{1, 2, %d}' % (N + 1), **seps)
    for wname, wins in (('9', '{9}'), ('2', '{2}' if q else '{1, 2}')):
        J.append(Job('tab_rfl' + wname, 'Stream',
                     S(Policy='"rfl"', Windows=wins,
                       StreamSample=(70 if wname == '9' else 60) if q else 0,
                       **tab),
                     ['ChunkIndependent'], cases=True, workers=4, heap='6g'))
    J.append(Job('tab_dfl', 'Stream',
                 S(Policy='"dfl"', Windows='{9}', StreamSample=50 if q else 0,
                   **tab),
                 ['ChunkIndependent'], cases=True, workers=4, heap='6g'))
    J.append(Job('tab_marks', 'Stream',
                 S(Policy='"rfl"', DTs='{"in"}',
                   Marks='{"!sig", "!seof"}' if q else
                   '{"!sig", "!brk", "!win", "!seof"}', MaxMarks=1,
                   Windows='{1, 2}' if q else '{1, 2, 9}',
                   **dict(tab, MaxLen=3 if q else 4,
                          Ns='{1, 3}' if q else '{1, 2, 4, 5}',
                          **FEW_SEPS)),
                 ['ChunkIndependent'], cases=True, workers=4, heap='6g'))
    # late redirection: canonical streams, tiny windows, every idle point
    red = dict(Policy='"red"', Canon='TRUE', Proc='TRUE', Redir='TRUE',
               Windows='{1, 2, 3}', Ns='{1}', ReadAll='FALSE', MaxBatch=1,
               MaxCalls=1, PrintAt=40, **NL_ONLY)
    J.append(Job('tab_redA', 'Stream',
                 S(DTs='{"out", "err"}', MaxLen=3 if q else 4, MaxErr=1,
                   MaxRedir=1, StreamSample=4 if q else 0, **red),
                 ['ChunkIndependent', 'NothingLost', 'AllDataThenEOF'],
                 cases=True, workers=4, heap='6g'))
    J.append(Job('tab_redB', 'Stream',
                 S(DTs='{"out"}', MaxLen=3 if q else 4, MaxErr=0, MaxRedir=2,
                   **red),
                 ['ChunkIndependent', 'NothingLost', 'AllDataThenEOF'],
                 cases=True, workers=2, heap='4g'))
    # ExitAfterOutput: targets written by a background task (async file
    # object, asyncio.StreamWriter), writes completing when the driver says
    exw = dict(Policy='"exw"', Canon='TRUE', Proc='TRUE', Redir='TRUE',
               SlowTgt='TRUE', DTs='{"out", "err"}', MaxErr=1,
               Windows='{2, 9}', Ns='{1}', ReadAll='FALSE', MaxBatch=1,
               MaxCalls=1, PrintAt=40, **NL_ONLY)
    J.append(Job('tab_exw', 'Stream', S(MaxLen=2 if q else 3, **exw),
                 ['ChunkIndependent', 'NothingLost', 'AllDataThenEOF'],
                 cases=True, workers=4, heap='6g'))
    # full duplex: the reading side writes / queues its EOF behind the
    # peer's window (PeerWin 2) before the packets arrive, the peer starts
    # reading at any later point; the reader loops one kind of call
    dup = dict(Policy='"rfl"', Canon='TRUE', Duplex='TRUE', DTs='{"out"}',
               MaxErr=0, Windows='{1, 3}' if q else '{1, 2, 3}', Ns='{1}',
               ReadAll='TRUE', MaxBatch=1, MaxCalls=30, PrintAt=60, **NL_ONLY)
    J.append(Job('tab_dup', 'Stream', S(MaxLen=3 if q else 4, **dup),
                 ['ChunkIndependent', 'NothingLost'], cases=True, workers=4,
                 heap='6g'))
    # two read streams on one session, some of them left unread
    two_tab = dict(Policy='"two"', Canon='TRUE', Proc='TRUE', DTs='{"out", "err"}',
                   MaxErr=3, Windows='{1, 2, 3}', Ns='{1}', ReadAll='TRUE',
                   MaxBatch=1, MaxCalls=14, PrintAt=44, **NL_ONLY)
    for rname, rset, mlen in (('out', '{"out"}', 4), ('both', '{"out", "err"}', 3 if q else 4),
                              ('none', '{}', 4)) + \
            (() if q else (('err', '{"err"}', 4),)):
        J.append(Job('tab_two_' + rname, 'Stream',
                     S(Readers=rset, MaxLen=mlen,
                       StreamSample=7 if q and rname != 'none' else 0,
                       **dict(two_tab, Windows='{1, 2}' if q and
                              rname == 'both' else '{1, 2, 3}')),
                     ['ChunkIndependent', 'NothingLost'], cases=True,
                     workers=4, heap='6g'))
    sim = dict(MaxLen=5 if q else 6, MaxBatch=3, MaxCalls=8, PrintAt=24,
               Windows='{1, 2, 3, 9}',
               Ns='{0, 1, 2, 6}' if q else '{0, 1, 2, 3, 5, 6, 7}', **seps)
    n = 180 if q else 2500
    J.append(Job('sim_two', 'Stream', S(**dict(sim, DTs='{"out", "err"}',
                                               MaxErr=2, Duplex='TRUE')),
                 ['ChunkIndependent', 'NothingLost'], cases=True, sim=n,
                 depth=26, workers=2))
    J.append(Job('sim_marks', 'Stream',
                 S(**dict(sim, DTs='{"in"}',
                          Marks='{"!sig", "!brk", "!win", "!seof"}',
                          MaxMarks=2)),
                 ['ChunkIndependent', 'NothingLost'], cases=True, sim=n,
                 depth=26, workers=2))
    pr = dict(sim, DTs='{"out", "err"}', MaxErr=2, Proc='TRUE', Ns='{1, 3}',
              MaxCalls=3, **NL_ONLY)
    J.append(Job('sim_proc', 'Stream', S(**pr),
                 ['ChunkIndependent', 'NothingLost'], cases=True, sim=n,
                 depth=26, workers=2))
    J.append(Job('sim_redir', 'Stream',
                 S(**dict(pr, Redir='TRUE', MaxRedir=2)),
                 ['ChunkIndependent', 'NothingLost', 'AllDataThenEOF'],
                 cases=True, sim=n, depth=26, workers=2))
    J.append(Job('sim_drain', 'Drain', D(MaxOps=12, PrintAt=12), ['DrainSound'],
                 cases=True, sim=300 if q else 3000, depth=14, workers=1,
                 heap='1g'))
    # ---- exhaustive design checks ----
    J.append(Job('mc_out', 'Stream',
                 S(MaxLen=N, Ns='{0, 1, 2, %d}' % (N + 1), **seps),
                 INV_STREAM, workers=6, heap='6g'))
    J.append(Job('mc_two', 'Stream',
                 S(MaxLen=3 if q else 4, Windows='{1, 2}',
                   Ns='{2}' if q else '{1, 3}',
                   **dict(two, **(NL_ONLY if q else FEW_SEPS))),
                 INV_STREAM))
    J.append(Job('mc_marks', 'Stream',
                 S(MaxLen=3 if q else 4, Ns='{0, 1, 3}',
                   **dict(marks, **FEW_SEPS)), INV_STREAM))
    J.append(Job('mc_proc', 'Stream',
                 S(MaxLen=2 if q else 3, Windows='{1, 2}', **proc),
                 INV_STREAM))
    J.append(Job('mc_redir', 'Stream',
                 S(MaxLen=2 if q else 3, Windows='{1, 9}', Redir='TRUE',
                   **dict(proc, DTs='{"out"}', MaxErr=0)), INV_STREAM))
    J.append(Job('mc_drain', 'Drain', D(), ['DrainSound', 'TypeOK'],
                 workers=2, heap='1g'))
    # ---- sensitivity: deliberately wrong rules must be rejected ----
    J.append(Job('sens_search', 'Stream',
                 S(MaxLen=3, Windows='{9}', Ns='{1}', SearchBug='TRUE',
                   **FEW_SEPS),
                 ['ChunkIndependent'], expect='ChunkIndependent', workers=2))
    J.append(Job('sens_resume_F11', 'Stream',
                 S(MaxLen=3, Ns='{1}', ResumeFix='FALSE',
                   **dict(marks, **NL_ONLY)), ['ChunkIndependent'],
                 expect='ChunkIndependent', workers=2))
    J.append(Job('sens_sepfix', 'Stream',
                 S(MaxLen=3, Windows='{9}', Ns='{1}', SepFix='FALSE',
                   SepShapes='{"nested"}', Regexes='{}'),
                 ['ChunkIndependent'], expect='ChunkIndependent', workers=2))
    J.append(Job('sens_escape', 'Stream',
                 S(MaxLen=2, Windows='{1}', Ns='{1}', EscapeFix='FALSE',
                   **dict(two, **NL_ONLY)),
                 ['ChunkIndependent'], expect='ChunkIndependent', workers=2))
    J.append(Job('sens_report_at_close', 'Stream',
                 S(MaxLen=2, ReportAtChannelClose='TRUE',
                   **dict(exw, Windows='{9}')),
                 ['ChunkIndependent'], expect='ChunkIndependent', workers=2))
    J.append(Job('sens_drop_eof_pending', 'Stream',
                 S(MaxLen=2, DropWhileEofPending='TRUE',
                   **dict(dup, Windows='{3}')),
                 ['NothingLost'], expect='NothingLost', workers=2))
    J.append(Job('sens_collect', 'Stream',
                 S(MaxLen=2, Windows='{1}', CollectFix='FALSE', **proc),
                 ['NothingLost'], expect='NothingLost', workers=2))
    J.append(Job('sens_close', 'Stream',
                 S(MaxLen=2, Windows='{1}', CloseBug='TRUE', **proc),
                 ['ChunkIndependent'], expect='ChunkIndependent', workers=2))
    J.append(Job('sens_nowait', 'Drain', D(NoWait='TRUE'), ['DrainSound'],
                 expect='DrainSound', workers=1, heap='1g'))
    J.append(Job('sens_noraise', 'Drain', D(NoRaise='TRUE'), ['DrainSound'],
                 expect='DrainSound', workers=1, heap='1g'))
    # ---- vacuity witnesses: the interesting situations are reachable ----
    small = dict(MaxLen=3, Windows='{1}', Ns='{1}', **NL_ONLY)
    J.append(Job('wit_escape', 'Stream', S(**small), ['NeverEscape'],
                 expect='NeverEscape', workers=2))
    if not q:
        J.append(Job('wit_held', 'Stream', S(**small), ['NeverHeld'],
                     expect='NeverHeld', workers=2))
    J.append(Job('wit_wait', 'Stream', S(MaxLen=2, Windows='{1}', **proc),
                 ['NeverWaitDone'], expect='NeverWaitDone', workers=2))
    J.append(Job('wit_drainwait', 'Drain', D(), ['NeverWaited'],
                 expect='NeverWaited', workers=1, heap='1g'))
    if not q:
        J.append(Job('wit_drainraise', 'Drain', D(), ['NeverRaised'],
                     expect='NeverRaised', workers=1, heap='1g'))
    return J


# Regression schedules (label format of the specification, predictions of the
# repaired model).
NL = ['lit', [['n']]]
AB = ['lit', [['a', 'b']]]
REGRESSIONS = [
    ('F11 readline after an incomplete read at a signal while paused',
     [2, [['a', 'b', '!sig', 'a', 'n']],
      [['emit', 'data', 'in', ['a', 'b']], ['run', []],
       ['emit', 'mark', 'in', ['!sig']], ['run', []],
       ['emit', 'data', 'in', ['a', 'n']], ['run', []],
       ['call', 'in', 'line', 0, NL, [['in', 'ret', ['a', 'b'], [], '-']]],
       ['call', 'in', 'line', 0, NL, [['in', 'exc', ['!sig'], [], '-']]],
       ['call', 'in', 'line', 0, NL,
        [['in', 'ret', ['a', 'n'], [], '-']]]]]),
    ('F11 readuntil variant, window 1',
     [1, [['a', '!brk', 'b']],
      [['emit', 'data', 'in', ['a']], ['emit', 'mark', 'in', ['!brk']],
       ['run', []],
       ['call', 'in', 'until', 0, AB, [['in', 'inc', ['a'], [], '-']]],
       ['call', 'in', 'read', 1, '-', [['in', 'exc', ['!brk'], [], '-']]],
       ['call', 'in', 'until', 0, AB, []],
       ['emit', 'data', 'in', ['b']],
       ['run', [['in', 'inc', ['b'], [], '-']]],
       ['emit', 'eof', 'in', []], ['run', []]]]),
    ('collect_output() at the buffer limit, then read',
     [2, [['a', 'b', 'n'], []],
      [['emit', 'data', 'out', ['a', 'b']], ['run', []],
       ['call', 'w', 'collect', 0, '-',
        [['w', 'collect', ['a', 'b'], [], '-']]],
       ['emit', 'data', 'out', ['n']], ['run', []],
       ['call', 'out', 'read', 1, '-', [['out', 'ret', ['n'], [], '-']]]]]),
    ('longer separator of a tuple straddles a packet boundary (the '
     'lexicographically largest separator is the shorter one)',
     [9, [['n', 'a', 'a', 'b']],
      [['call', 'out', 'until', 0, ['lit', [['b'], ['a', 'a']]], []],
       ['emit', 'data', 'out', ['n', 'a']], ['run', []],
       ['emit', 'data', 'out', ['a', 'b']],
       ['run', [['out', 'ret', ['n', 'a', 'a'], [], '-']]],
       ['call', 'out', 'until', 0, ['lit', [['b'], ['a', 'a']]],
        [['out', 'ret', ['b'], [], '-']]]]]),
    ('nested separators: the match that ends first wins in one packet too',
     [9, [['a', 'b', 'n', 'a']],
      [['call', 'out', 'until', 0, ['lit', [['a', 'b', 'n'], ['b']]], []],
       ['emit', 'data', 'out', ['a', 'b', 'n', 'a']],
       ['run', [['out', 'ret', ['a', 'b'], [], '-']]],
       ['call', 'out', 'until', 0, ['lit', [['a', 'b', 'n'], ['b']]], []],
       ['emit', 'eof', 'out', []],
       ['run', [['out', 'inc', ['n', 'a'], [], '-']]]]]),
    ('late redirection: two chunks buffered at the window, one parked',
     [2, [['a', 'b', 'n'], []],
      [['emit', 'data', 'out', ['a']], ['run', []],
       ['emit', 'data', 'out', ['b']], ['run', []],
       ['emit', 'data', 'out', ['n']], ['run', []],
       ['redirect', 'out', []],
       ['emit', 'eof', 'out', []], ['run', []]],
      [[[], ['a', 'b', 'n']], [[], []]]]),
    ('stderr alone fills the window, stdout is iterated: no empty line '
     'before EOF, iteration stops at EOF',
     [2, [['a', 'n'], ['n', 'a']],
      [['emit', 'data', 'err', ['n', 'a']], ['run', [], [False, False]],
       ['call', 'out', 'next', 0, NL, [], [False, False]],
       ['emit', 'eof', 'out', []],
       ['run', [['out', 'ret', [], [], '-']], [True, False]],
       ['call', 'out', 'next', 0, NL, [['out', 'stop', [], [], '-']],
        [True, False]]]]),
    ('separator spanning a chunk boundary, leftover kept',
     [9, [['n', 'a', 'b', 'a', 'b']],
      [['call', 'out', 'until', 0, AB, []],
       ['emit', 'data', 'out', ['n', 'a']], ['run', []],
       ['emit', 'data', 'out', ['b', 'a']],
       ['run', [['out', 'ret', ['n', 'a', 'b'], [], '-']]],
       ['emit', 'data', 'out', ['b']], ['run', []],
       ['call', 'out', 'until', 0, AB,
        [['out', 'ret', ['a', 'b'], [], '-']]]]]),
    ('window escape: line longer than the window',
     [2, [['a', 'b', 'n']],
      [['call', 'out', 'line', 0, NL, []],
       ['emit', 'data', 'out', ['a']], ['run', []],
       ['emit', 'data', 'out', ['b']],
       ['run', [['out', 'ret', ['a', 'b'], [], '-']]],
       ['emit', 'data', 'out', ['n']], ['run', []],
       ['call', 'out', 'line', 0, NL, [['out', 'ret', ['n'], [], '-']]]]]),
]

TARGETS = ['file', 'process', 'name', 'devnull', 'stream']


def case_key(world, case):
    return world + ':' + hashlib.sha1(
        json.dumps(case, sort_keys=True).encode()).hexdigest()[:16]


def nontrivial(res):
    return any(e[0] == 'done' and (e[3][0] != 'ret' or e[3][1])
               for e in res['log'])


class Replayer:
    def __init__(self, ctx, stream):
        self.ctx = ctx
        self.stream = stream
        self.h = stream.Harness(workdir=tlc.WORK)
        self.n = 0
        self.by_world = {}
        self.loopexc = 0
        self.waited = 0.0
        self.groups = {}

    def close(self):
        self.h.close()

    # chunk independence as such: for one (stream, request) every chunking,
    # reader-first or data-first, must produce the same sequence of pieces
    # (window 9 = never reached; read(n > 0) returns "what is available" and
    # is excluded)
    def group(self, case, res):
        call = next((l for l in case[2] if l[0] == 'call'), None)
        if call is None or (call[2] == 'read' and call[3] > 0):
            return
        sep = self.stream.norm_sep(call[4])
        key = (json.dumps(case[1]), call[2], call[3], sep)
        pieces = tuple((e[3][0], tuple(e[3][1])) for e in res['log']
                       if e[0] == 'done' and e[1] == call[1])
        # whether a last call was started before EOF arrived (and then
        # reports EOF with an empty piece) depends on the schedule, not on
        # the chunking
        while pieces and not pieces[-1][1]:
            pieces = pieces[:-1]
        g = self.groups.setdefault(key, {})
        g.setdefault(pieces, case)

    def judge_groups(self):
        ctx = self.ctx
        n = 0
        for (streams, kind, cn, sep), g in self.groups.items():
            n += 1
            if len(g) < 2:
                continue
            (p1, c1), (p2, c2) = list(g.items())[:2]
            shape = self.stream.sep_shape(sep) if kind == 'until' else ''
            ctx.violation(
                {'module': 'Stream', 'clause': 'chunk-dependent',
                 'call': kind, 'separators': shape,
                 'context': 'nested-separators' if shape == 'nested' else ''},
                f'{kind}({cn if kind != "until" else sep}) on stream '
                f'{streams} returned {list(p1)} with packets '
                f'{[l[3] for l in c1[2] if l[0] == "emit"]} but {list(p2)} '
                f'with packets {[l[3] for l in c2[2] if l[0] == "emit"]}',
                replay={'kind': 'case', 'world': 'group', 'case': c2,
                        'opts': {}})
        return n

    def one(self, world, case, idx):
        ctx = self.ctx
        pure = world in ('tab_rfl9', 'tab_rfl2', 'tab_dfl', 'tab_marks', 'tab_dup',
                         'sim_two', 'regress') and \
            not any(l[0] == 'call' and l[1] == 'w' for l in case[2])
        opts = dict(text=bool(idx % 2),
                    api='session' if pure and idx % 3 == 0 else 'process',
                    remax=REMAX, seqtype='list' if idx % 4 < 2 else 'tuple')
        if world in ('sim_redir', 'tab_redA', 'tab_redB'):
            opts['target'] = TARGETS[idx % len(TARGETS)]
        if world == 'tab_exw':
            opts['target'] = ('afile', 'hstream')[idx % 2]
        opts['waitop'] = ('wait', 'communicate', 'aexit')[idx % 3]
        try:
            res = self.stream.replay(self.h, case, **opts)
        except Exception as exc:        # pylint: disable=broad-except
            # a broken implementation may kill the shared connection
            self.h.close()
            self.h = self.stream.Harness(workdir=tlc.WORK)
            ctx.divergence(f'{world}: replay aborted with {exc!r} on {case}')
            return
        self.n += 1
        self.by_world[world] = self.by_world.get(world, 0) + 1
        ctx.count(case_key(world, case), nontrivial(res))
        if res['machinery']:
            raise MachineryError(f'{world}: {res["machinery"]} case={case}')
        if self.n % 997 == 1 or world == 'regress':
            ctx.sample({'world': world, 'window': case[0],
                        'streams': case[1], 'steps': case[2][:12],
                        'options': opts,
                        'observed': [e for e in res['log']
                                     if e[0] == 'done'][:8]})
        for clause, spec, detail, stale in res['violations']:
            sig = {'module': 'Stream', 'clause': clause,
                   'call': spec[0] if spec else None, 'reader': res['role'],
                   'context': stale}
            if spec and spec[0] == 'until':
                sig['separators'] = self.stream.sep_shape(spec[2])
            ctx.violation(sig, detail, replay={'kind': 'case', 'world': world,
                                               'case': case, 'opts': opts})
        if world in ('tab_rfl9', 'tab_dfl'):
            self.group(case, res)
        if res['divergences'] and not res['violations']:
            ctx.divergence(f'{world}: {res["divergences"][0]} case={case}')
        if res['loop_exceptions']:
            self.loopexc += 1
            if self.loopexc <= 3:
                ctx.divergence(f'{world}: exception reached the event loop: '
                               f'{res["loop_exceptions"][0]} case={case}')


def select_tab(stream, cases, quick, seed, cap):
    """Tables: every case with a packet boundary strictly inside a separator
    occurrence is kept (up to cap), the rest is sampled."""
    rnd = random.Random(seed)
    if not quick:
        cap *= 12
    pri = [c for c in cases if stream.cut_inside_match(c)]
    rest = [c for c in cases if not stream.cut_inside_match(c)]
    if len(pri) > cap * 2 // 3:
        pri = rnd.sample(pri, cap * 2 // 3)
    room = max(cap - len(pri), 0)
    if len(rest) > room:
        rest = rnd.sample(rest, room)
    return pri + rest, len(pri)


def select_red(cases, quick, seed, cap):
    """Late-redirection tables: stratified by the buffer state the (first)
    redirection meets - (chunks buffered, paused, chunks parked, EOF parked,
    CLOSE parked, target being replaced) - so that every state class that
    TLC reaches is replayed."""
    rnd = random.Random(seed)
    if not quick:
        cap *= 12
    if len(cases) <= cap:
        return cases
    classes = {}
    for c in cases:
        key = tuple(tuple(l[3]) + (l[1],) for l in c[2] if l[0] == 'redirect')
        classes.setdefault(key, []).append(c)
    keys = sorted(classes, key=repr)
    for k in keys:
        rnd.shuffle(classes[k])
    out = []
    i = 0
    while len(out) < cap:
        progressed = False
        for k in keys:
            if i < len(classes[k]):
                out.append(classes[k][i])
                progressed = True
                if len(out) >= cap:
                    break
        if not progressed:
            break
        i += 1
    return out


def select_two(cases, quick, seed, cap):
    """Two-stream tables: stratified by (kind of call, window, whether a
    stream reported EOF while another one still held unread data)."""
    rnd = random.Random(seed)
    if not quick:
        cap *= 12
    if len(cases) <= cap:
        return cases
    classes = {}
    for c in cases:
        call = next((l for l in c[2] if l[0] == 'call'), None)
        aes = [l[-1] for l in c[2] if l[0] in ('run', 'call')]
        mixed = any(len(set(a)) > 1 for a in aes if isinstance(a, list))
        key = (call[2] if call else '-', c[0], mixed)
        classes.setdefault(key, []).append(c)
    keys = sorted(classes, key=repr)
    for k in keys:
        rnd.shuffle(classes[k])
    out = []
    i = 0
    while len(out) < cap:
        progressed = False
        for k in keys:
            if i < len(classes[k]) and len(out) < cap:
                out.append(classes[k][i])
                progressed = True
        if not progressed:
            break
        i += 1
    return out


def select(cases, quick, seed, cap, stride=1):
    rnd = random.Random(seed)
    if not quick:
        cap = cap * 12
        if len(cases) > cap:
            cases = rnd.sample(cases, cap)
        return cases
    if stride > 1:
        off = seed % stride
        cases = cases[off::stride]
    if len(cases) > cap:
        cases = rnd.sample(cases, cap)
    return cases


def do_replay_file(ctx, stream, path):
    with open(path) as f:
        rec = json.load(f)
    rp = rec['replay']
    h = stream.Harness(workdir=tlc.WORK)
    try:
        if rp['kind'] == 'case':
            res = stream.replay(h, rp['case'], **rp['opts'])
            for e in res['log']:
                print('  ', e)
            print('divergences:', res['divergences'])
            for clause, spec, detail, stale in res['violations']:
                ctx.violation({'module': 'Stream', 'clause': clause,
                               'call': spec[0] if spec else None,
                               'reader': res['role'], 'context': stale},
                              detail, replay=rp)
        elif rp['kind'] == 'drain':
            res = stream.replay_drain(h, rp['case'])
            print(res['obs'])
            for clause, o, detail in res['violations']:
                ctx.violation({'module': 'Drain', 'clause': clause, 'at': o},
                              detail, replay=rp)
        elif rp['kind'] == 'stdin':
            for clause, kind, detail in stream.replay_stdin(h, rp['scenario']):
                ctx.violation({'module': 'Redirect', 'clause': clause,
                               'source': kind}, detail, replay=rp)
        elif rp['kind'] == 'duplex':
            for clause, form, detail in stream.replay_duplex(h, rp['scenario']):
                ctx.violation({'module': 'Duplex', 'clause': clause,
                               'form': form}, detail, replay=rp)
        elif rp['kind'] == 'exit':
            for clause, mode, detail in stream.replay_exit(h, rp['scenario']):
                ctx.violation({'module': 'ProcessExit', 'clause': clause,
                               'mode': mode}, detail, replay=rp)
        ctx.count('replay')
    finally:
        h.close()


def main(ctx):
    from harness.drivers import stream
    import asyncssh
    quick = ctx.tier == 'quick'
    ctx.notes.append(f'asyncssh under test: {os.path.dirname(asyncssh.__file__)}')
    os.makedirs(tlc.WORK, exist_ok=True)
    if ctx.replay_path:
        do_replay_file(ctx, stream, ctx.replay_path)
        return

    jobs = jobs_for(ctx.tier)
    pool = concurrent.futures.ThreadPoolExecutor(max_workers=5)
    futs = {j.name: pool.submit(j.run, ctx.seed) for j in jobs}
    rp = Replayer(ctx, stream)
    total = 0
    try:
        # ---- regression schedules ----
        for i, (name, case) in enumerate(REGRESSIONS):
            rp.one('regress', case, i * 2)      # bytes
            rp.one('regress', case, i * 2 + 1)  # text
            total += 2

        # ---- end-to-end exit scenarios ----
        scs = stream.exit_scenarios(ctx.tier)
        if quick:
            scs = scs[ctx.seed % 2::2]
        for sc in scs:
            for clause, mode, detail in stream.replay_exit(rp.h, sc):
                ctx.violation({'module': 'ProcessExit', 'clause': clause,
                               'mode': mode},
                              f'{detail}; scenario {sc}',
                              replay={'kind': 'exit', 'scenario': sc})
            ctx.count('exit:' + json.dumps(sc, sort_keys=True),
                      sc['so'] + sc['se'] > 0)
        total += len(scs)

        # ---- full duplex end to end (cat-like peer) ----
        scs = stream.duplex_scenarios(ctx.tier)
        for sc in scs:
            for clause, form, detail in stream.replay_duplex(rp.h, sc):
                ctx.violation({'module': 'Duplex', 'clause': clause,
                               'form': form}, f'{detail}; scenario {sc}',
                              replay={'kind': 'duplex', 'scenario': sc})
            ctx.count('duplex:' + json.dumps(sc, sort_keys=True),
                      sc['size'] > sc['swin'])
        total += len(scs)

        # ---- a reader that keeps reading over runs longer than the window
        # (also exported to checks/c08.py) ----
        total += stream.stream_reader_flow(ctx, quick, harness=rp.h)

        # ---- stdin redirections (sources) ----
        scs = stream.stdin_scenarios(ctx.tier)
        for sc in scs:
            for clause, kind, detail in stream.replay_stdin(rp.h, sc):
                ctx.violation({'module': 'Redirect', 'clause': clause,
                               'source': kind},
                              f'{detail}; scenario {sc}',
                              replay={'kind': 'stdin', 'scenario': sc})
            ctx.count('stdin:' + json.dumps(sc, sort_keys=True),
                      sc['size'] > 0)
        total += len(scs)

        # ---- TLC generated cases ----
        plan = [('tab_rfl9', 2000, 2), ('tab_rfl2', 1400, 2),
                ('tab_dfl', 1000, 3),
                ('tab_marks', 1000, 1),
                ('tab_redA', 1100, 1), ('tab_redB', 400, 1),
                ('tab_exw', 600, 1), ('tab_dup', 800, 1),
                ('tab_two_out', 1000, 1), ('tab_two_both', 800, 1),
                ('tab_two_none', 300, 1)] + \
            ([] if quick else [('tab_two_err', 1400, 1)]) + [
                ('sim_two', 800, 1), ('sim_marks', 800, 1),
                ('sim_proc', 1200, 1), ('sim_redir', 1200, 1)]
        for world, cap, stride in plan:
            tw = time.time()
            job = futs[world].result()
            rp.waited += time.time() - tw
            res = job.res
            if res.error or res.violation:
                ctx.require_tlc_ok(f'{world} (case generation)', res)
            ctx.add_tlc(f'{world} case generation {job.consts}', res)
            cases = job.case_list
            ctx.require(len(cases) > 0, f'{world}: TLC produced no cases\n' +
                        res.output[-1500:])
            if world in ('tab_exw', 'tab_dup'):
                sel = select(cases, quick, ctx.seed, cap)
            elif world.startswith('tab_red'):
                sel = select_red(cases, quick, ctx.seed, cap)
            elif world.startswith('tab_two'):
                sel = select_two(cases, quick, ctx.seed, cap)
            elif world.startswith('tab_'):
                sel, npri = select_tab(stream, cases, quick, ctx.seed, cap)
                ctx.notes.append(f'{world}: {npri} of the replayed cases have '
                                 f'a packet boundary inside a separator '
                                 f'occurrence')
            else:
                sel = select(cases, quick, ctx.seed, cap, stride)
            for i, case in enumerate(sel):
                rp.one(world, case, i)
            total += len(sel)
            ctx.notes.append(f'{world}: {len(cases)} cases generated, '
                             f'{len(sel)} replayed')

        ngroups = rp.judge_groups()
        ctx.notes.append(f'chunk-independence groups (stream, request) '
                         f'compared across chunkings: {ngroups}')
        job = futs['sim_drain'].result()
        if job.res.error or job.res.violation:
            ctx.require_tlc_ok('sim_drain (case generation)', job.res)
        ctx.add_tlc(f'sim_drain case generation {job.consts}', job.res)
        ctx.require(len(job.case_list) > 0, 'sim_drain: no cases')
        seen = set()
        nd = 0
        for case in job.case_list:
            k = json.dumps(case)
            if k in seen:
                continue
            seen.add(k)
            res = stream.replay_drain(rp.h, case)
            nd += 1
            ctx.count('drain:' + hashlib.sha1(k.encode()).hexdigest()[:16],
                      any(o[2] == 'waiting' or o[3] == 'raise'
                          for o in res['obs']))
            if nd % 97 == 1:
                ctx.sample({'world': 'drain', 'case': case,
                            'observed': res['obs']})
            for clause, o, detail in res['violations']:
                ctx.violation({'module': 'Drain', 'clause': clause, 'at': o},
                              detail, replay={'kind': 'drain', 'case': case})
            if res['divergences'] and not res['violations']:
                ctx.divergence(f'drain: {res["divergences"][0]} case={case}')
        total += nd
        ctx.notes.append(f'sim_drain: {nd} distinct cases replayed')
        ctx.traces_validated(total)
        ctx.notes.append(f'replay phase ended at {time.time() - ctx.t0:.1f}s '
                         f'(waiting for TLC case generation: {rp.waited:.1f}s)')
        ctx.notes.append(f'replayed per world: {rp.by_world}')
    finally:
        rp.close()

    # ---- design checks, sensitivity, witnesses ----
    for j in jobs:
        if j.cases:
            continue
        futs[j.name].result()
        ctx.require_tlc_ok(f'{j.module} {j.name} {j.consts}', j.res,
                           expect_violation=j.expect)
    pool.shutdown()

    ctx.assumptions += [
        'run-to-completion scheduling: packets emitted between two loop runs '
        'arrive in one data_received(); application calls start when the '
        'loop is idle; at most one read call per data type at a time',
        'alphabet {a, b, \\n}; streams of <= 4 (quick) / 5-6 (thorough) '
        'units; windows 1, 2, 3, 9 (9 = never reached)',
        'regex separator a+b is given max_separator_len >= the longest '
        'possible match (the documented requirement)',
        'in-band markers may overtake data that the channel holds back while '
        'the stream is at its buffer limit (signals are out of band on the '
        'wire); the monitor requires exact marker positions otherwise',
        'soft EOF is injected through the session callback '
        'soft_eof_received() (no line editor on the wire)',
        'the emitting endpoint is a real asyncssh endpoint used as a packet '
        'source; exit-status/exit-signal are sent with its _send_request so '
        'that they can be placed anywhere in the order',
        'connection loss (as opposed to CLOSE) is outside the orderings '
        'explored for ExitImpliesAllOutput',
    ]
    ctx.notes.append(
        'observation (not alarmed): redirecting a process whose channel is '
        'already closed to an asyncio StreamWriter raises AssertionError '
        '(process.py _StreamWriter needs the connection); file targets work')


if __name__ == '__main__':
    run_check('C19', main)
