"""C16 - signatures and certificates verify only when nothing was altered.

1. TLC checks specs/SigCert exhaustively: for every case of the three
   decision tables (certificate x use, SSHSIG x allowed-signers, plain
   signature) the sequence of checks asyncssh performs (with its early exits)
   gives the verdict of the declarative rule (CertRule / SshsigRule /
   VerifyRule); sensitivity runs with seeded-wrong machines (valid_before
   inclusive, principal check skipped, unknown critical option accepted,
   namespace ignored, algorithm name ignored) must be reported as violating
   that equivalence.  The same run prints every case with its verdict.
2. Every printed row is materialised with real keys (own certificate encoder,
   asyncssh.create_sshsig, key.sign), patched clock, and pushed through
   import_certificate + validate / validate_sshsig / key.verify.  The
   property monitor is the rule itself: anything accepted that the rule
   rejects is a violation; a plain signature the rule accepts must verify.
3. Byte sweeps: every single-byte edit, truncation and extension of signature
   blobs, certificates and SSHSIG blobs for every key type x signature
   algorithm must be refused.
4. Second opinions: ssh-keygen -Y verify / -Y sign / -L.
"""

import json
import os
import random
import re

from harness import tlc
from harness.framework import run_check, MachineryError, VERIF

SPEC = os.path.join(VERIF, 'specs', 'SigCert')


def run_table(ctx, table, variant='code', emit=False, two=True,
              expect_violation=None, workers=4):
    name = f'_c16_{table}_{variant}.cfg'
    lines = ['CONSTANTS', f'  Table = "{table}"', f'  Variant = "{variant}"',
             f'  TwoLines = {"TRUE" if two else "FALSE"}',
             f'  Emit = {"TRUE" if emit else "FALSE"}',
             'SPECIFICATION Spec', 'CHECK_DEADLOCK FALSE',
             'INVARIANT Equiv']
    if expect_violation is None:
        lines += ['INVARIANT TypeOK', 'INVARIANT EmitRows',
                  'PROPERTY Progress']
    with open(os.path.join(SPEC, name), 'w') as f:
        f.write('\n'.join(lines) + '\n')
    tag = f'c16_{table}_{variant}'
    try:
        res = tlc.run(SPEC, 'SigCert', name, tag,
                      workers=1 if emit else workers, timeout=900)
    finally:
        os.remove(os.path.join(SPEC, name))
        tlc.cleanup(tag)
    if ctx is not None:
        ctx.require_tlc_ok(f'SigCert {table} variant={variant}', res,
                           expect_violation=expect_violation)
    return res


_FIELD = re.compile(r'(\w+) \|->')


def fast_value(text):
    """TLA+ ToString output -> Python via JSON (the generic parser of
    harness/tlc.py is too slow for 10^5 rows); sets become {'$set': [...]}."""
    t = _FIELD.sub(r'"\1":', text)
    t = t.replace('{', '\x01').replace('}', '\x02')
    t = t.replace('[', '{').replace(']', '}')
    t = t.replace('<<', '[').replace('>>', ']')
    t = t.replace('\x01', '{"$set":[').replace('\x02', ']}')
    t = t.replace('TRUE', 'true').replace('FALSE', 'false')
    return json.loads(t)


def rows_of(res):
    out = []
    for line in res.printed:
        if not line.startswith('"<<'):
            continue
        text = json.loads(line)         # rows are printed with ToString
        try:
            v = fast_value(text)
        except ValueError:
            v = tlc.parse_value(text)
        if isinstance(v, list) and len(v) == 3 and isinstance(v[0], dict):
            out.append((unset(v[0]), v[1], v[2]))
    return out


def unset(v):
    if isinstance(v, dict):
        if '$set' in v and len(v) == 1:
            return tuple(sorted(unset(x) for x in v['$set']))
        return {k: unset(x) for k, x in v.items()}
    if isinstance(v, list):
        return [unset(x) for x in v]
    return v


def exc_name(exc):
    return type(exc).__name__ if exc is not None else None


CERT_IMPORT_STAGES = {'sig', 'type', 'crit', 'ext'}


def norm(v):
    """JSON round trip (tuples -> lists) for comparing rows with a replay."""
    return json.loads(json.dumps(v, sort_keys=True, default=str))


class Only:
    """--replay PATH: run the same code, restricted to the recorded case."""

    def __init__(self, path):
        self.rp = None
        if path:
            with open(path) as f:
                self.rp = json.load(f).get('replay') or {}
            print('replaying', self.rp.get('kind'),
                  {k: v for k, v in self.rp.items()
                   if k in ('row', 'alg', 'edit', 'field', 'pos', 'signer')})

    def kind(self, *kinds):
        return self.rp is None or self.rp.get('kind') in kinds

    def row(self, kind, row):
        return self.rp is None or (self.rp.get('kind') == kind and
                                   norm(self.rp.get('row')) == norm(row))

    def alg(self, *names):
        return self.rp is None or self.rp.get('alg') in names


def main(ctx):
    from harness.drivers import sig_cert as D
    quick = ctx.tier == 'quick'
    rnd = random.Random(ctx.seed + 16)
    only = Only(ctx.replay_path)
    algs = D.algs()
    ctx.require(len(algs) >= 6, f'too few key algorithms available: {algs}')
    exc_hist = {}

    def note_exc(where, exc):
        if exc is not None:
            k = f'{where}:{type(exc).__name__}'
            exc_hist[k] = exc_hist.get(k, 0) + 1

    # ---- 1. TLC: tables, equivalence, sensitivity --------------------------
    sens = [('cert', 'closed_before'), ('sshsig', 'ignore_namespace'),
            ('ident', 'empty_is_none'), ('ident', 'NegOnlyMatchesAll'),
            ('cross', 'SharedNameSet'), ('msgform', 'FileFormHashesBuffer')]
    if not quick:
        sens += [('cert', 'no_principal'), ('cert', 'accept_unknown_critical'),
                 ('verify', 'ignore_algname'), ('verify', 'normalise_sig'),
                 ('ident', 'strip_compare'),
                 ('ident', 'lower_compare'), ('ident', 'before_truthy'),
                 ('ident', 'closed_before'), ('sshsig', 'before_truthy')]
    from concurrent.futures import ThreadPoolExecutor
    with ThreadPoolExecutor(max_workers=4) as ex:
        emit_f = {t: ex.submit(run_table, None, t, emit=True, workers=1)
                  for t in ('cert', 'sshsig', 'verify', 'ident', 'cross',
                            'msgform')}
        sens_f = [(t, v, ex.submit(run_table, None, t, variant=v, two=False,
                                   expect_violation='Equiv', workers=2))
                  for t, v in sens]
        emit_r = {t: f.result() for t, f in emit_f.items()}
        sens_r = [(t, v, f.result()) for t, v, f in sens_f]
    for t, res in emit_r.items():
        ctx.require_tlc_ok(f'SigCert {t} variant=code', res)
    for t, v, res in sens_r:
        ctx.require_tlc_ok(f'SigCert {t} variant={v}', res,
                           expect_violation='Equiv')
    res_cert, res_sig, res_ver = emit_r['cert'], emit_r['sshsig'], \
        emit_r['verify']
    res_ident, res_cross = emit_r['ident'], emit_r['cross']
    msg_rows = rows_of(emit_r['msgform'])
    ctx.require(len(msg_rows) >= 1500, f'msgform rows: {len(msg_rows)}')
    cert_rows = rows_of(res_cert)
    sig_rows = rows_of(res_sig)
    ver_rows = rows_of(res_ver)
    ident_rows = rows_of(res_ident)
    cross_rows = rows_of(res_cross)
    ctx.require(len(cross_rows) >= 1000, f'cross rows: {len(cross_rows)}')
    ctx.require(len(ident_rows) >= 1500, f'ident rows: {len(ident_rows)}')
    ctx.require(len(cert_rows) == 82944, f'cert rows: {len(cert_rows)}')
    ctx.require(len(sig_rows) >= 5000, f'sshsig rows: {len(sig_rows)}')
    ctx.require(len(ver_rows) >= 400, f'verify rows: {len(ver_rows)}')
    for rows in (cert_rows, sig_rows, ver_rows, ident_rows, cross_rows):
        ctx.require(any(r[1] == 'accept' for r in rows) and
                    any(r[1] == 'reject' for r in rows), 'degenerate table')

    # ---- 2a. certificate table ---------------------------------------------
    classes = {}
    for row, verdict, stage in cert_rows:
        cls = (row['ctype'], row['princ'], row['crit'], row['ext'],
               row['casig'])
        classes.setdefault(cls, []).append((row, verdict, stage))
    ctx.require(len(classes) == 2304, f'cert classes: {len(classes)}')
    n_acc = 0
    samp = {'acc': False, 'rej': False}
    for ci, (cls, rows) in enumerate(sorted(classes.items())):
        if only.rp is not None:
            rows = [r for r in rows if only.row('cert', r[0])]
            if not rows:
                continue
        # quick: ed25519 CA for every class + one other algorithm per class
        # (round robin); thorough: every algorithm for every class
        if only.rp is not None:
            use = [a for a in algs if only.alg(a[0])]
        elif quick and cls[4] == 'bad':
            use = [algs[ci % len(algs)]]
        elif quick:
            use = [algs[0], algs[1 + ci % (len(algs) - 1)]]
        else:
            use = algs
        # classes with odd principal names are materialised several times
        # (different odd names / counts / positions)
        reps = (2 if quick else 3) if 'odd' in cls[1] and cls[4] == 'ok' \
            and only.rp is None \
            else 1
        use = [a for a in use for _ in range(reps)]
        for ai, (aname, kalg, sig_alg) in enumerate(use):
            blob, calg, how, put = D.build_row_cert(
                cls, kalg, sig_alg, rnd,
                principals=only.rp.get('principals') if only.rp else None)
            cert, exc = D.import_cert_blob(blob, calg)
            note_exc('cert-import', exc)
            if cert is not None:
                # the decoded fields are the ones the CA signed
                got = D.decoded_fields(cert)
                diff = {k: (put[k], got[k]) for k in put
                        if got[k] is not None and got[k] != put[k]}
                if diff:
                    ctx.divergence(f'certificate fields decoded differently '
                                   f'from what was signed (put, got): {diff} '
                                   f'ca_alg={aname}')
            frac = (ci + ai) % 2 == 1
            for row, verdict, stage in rows:
                now = (D.NOW_FRAC if frac else D.NOW)[row['now']]
                if only.rp is not None:
                    now = only.rp.get('now', now)
                if cert is None:
                    obs, ostage = 'reject', 'import'
                else:
                    obs, ostage = D.validate_row(cert, row['want'],
                                                 row['wantp'], now)
                key = ('cert', aname, cls, row['want'], row['wantp'],
                       row['now'], frac, tuple(put['principals']))
                ctx.count(key, nontrivial=True)
                if obs == 'accept':
                    n_acc += 1
                if obs == 'accept' and verdict == 'reject':
                    ctx.violation(
                        {'module': 'SigCert', 'table': 'cert', 'row': row,
                         'expected_reject_at': stage},
                        f'certificate accepted although CertRule rejects it '
                        f'(stage {stage}): {row} principals={put["principals"]!r} '
                        f'ca_alg={aname} now={now} '
                        f'casig_how={how}',
                        replay={'kind': 'cert', 'row': row, 'alg': aname,
                                'blob': blob.hex(), 'now': now,
                                'principals': put['principals']})
                elif obs == 'reject' and verdict == 'accept':
                    ctx.violation(
                        {'module': 'SigCert', 'table': 'cert', 'row': row,
                         'refused_at': ostage},
                        f'valid certificate refused at {ostage} '
                        f'({exc_name(exc)}): {row} '
                        f'principals={put["principals"]!r} ca_alg={aname} '
                        f'clock at validation={now} window=[{D.A}, {D.B})',
                        replay={'kind': 'cert', 'row': row, 'alg': aname,
                                'blob': blob.hex(), 'now': now,
                                'principals': put['principals']})
                elif obs == 'reject':
                    want_stage = 'import' if stage in CERT_IMPORT_STAGES \
                        else stage
                    if ostage != want_stage:
                        ctx.divergence(
                            f'cert table: refused at {ostage}, model says '
                            f'{want_stage}: {row} ca_alg={aname}')
            if ai == 0 and ((cert is not None and not samp['acc']) or
                            (cert is None and not samp['rej'])):
                samp['acc' if cert is not None else 'rej'] = True
                ex = [r for r in rows if r[1] == 'accept'][:1] or rows[:1]
                ctx.sample({'table': 'cert', 'ca_alg': aname,
                            'certificate_hex': blob.hex(),
                            'imported': cert is not None,
                            'import_error': str(exc) if exc else None,
                            'validate_rows': len(rows),
                            'example_row': ex[0][0],
                            'rule_verdict': ex[0][1],
                            'rule_stage': ex[0][2]})
    ctx.require(len(ctx._distinct) > 0 or only.rp is not None,
                'no certificate row was evaluated')

    # soft spot: value of an unknown extension colliding with a known name
    for name, cert, exc, expect_opts in \
            (D.collision_certs() if only.rp is None else []):
        ctx.count(('cert-collision', name), nontrivial=True)
        if cert is None:
            ctx.notes.append(
                f'observation: certificate with unknown extension ({name}) is '
                f'refused at import ({exc_name(exc)}): _decode_options does '
                f'not skip the value of an unknown extension')
        elif {k: v for k, v in cert.options.items()} != expect_opts:
            ctx.notes.append(
                f'observation: certificate with unknown extension ({name}) '
                f'decodes options {cert.options} (expected {expect_opts}): '
                f'the value of an unknown extension is re-read as a name')

    # ---- 2b. plain signature table -----------------------------------------
    cache = {}
    avail = {a for a, _, _ in algs}
    reps = 1 if quick else 4
    for row, verdict, stage in ver_rows:
        if row['alg'] not in avail or not only.row('verify', row):
            continue
        for rep in range(reps):
            ok, exc = D.verify_row(row, rnd, cache)
            note_exc('verify', exc)
            ctx.count(('verify', tuple(sorted(row.items())), rep))
            sig = {'module': 'SigCert', 'table': 'verify', 'row': row}
            if ok and verdict == 'reject':
                ctx.violation(sig, f'signature verified although altered: '
                              f'{row}', replay={'kind': 'verify', 'row': row})
            elif not ok and verdict == 'accept':
                ctx.violation(sig, f'unaltered signature does not verify '
                              f'under the matching key: {row} '
                              f'({exc_name(exc)})',
                              replay={'kind': 'verify', 'row': row})
    ctx.sample({'table': 'verify', 'rows': len(ver_rows),
                'example_row': ver_rows[0][0], 'rule_verdict': ver_rows[0][1],
                'algorithms': [a for a, _, _ in algs]})

    # ---- 2c. SSHSIG table ---------------------------------------------------
    worlds = {}
    n_acc = 0
    samp = {'acc': False, 'rej': False}
    for ri, (row, verdict, stage) in enumerate(sig_rows):
        if not only.row('sshsig', row):
            continue
        use = [algs[ri % len(algs)]] if quick else algs
        if only.rp is not None:
            use = [a for a in algs if a[1] == only.rp.get('alg')][:1]
        for ai, (aname, kalg, sig_alg) in enumerate(use):
            if aname in ('rsa-sha2-256', 'ssh-rsa') and not quick and \
                    only.rp is None:
                continue            # create_sshsig picks rsa-sha2-512 itself
            if kalg not in worlds:
                worlds[kalg] = D.SigWorld(kalg)
            variant = ri + ai if only.rp is None else \
                only.rp.get('variant', 0)
            ok, exc, mat = D.sshsig_row(worlds[kalg], row, variant,
                                        frac=(ri % 3 == 2))
            note_exc('sshsig', exc)
            ctx.count(('sshsig', kalg, ri, variant % 6))
            n_acc += ok
            if ok and verdict == 'reject':
                ctx.violation(
                    {'module': 'SigCert', 'table': 'sshsig', 'row': row,
                     'expected_reject_at': stage},
                    f'SSHSIG signature validated although SshsigRule rejects '
                    f'it (stage {stage}): {row} key={kalg} {mat}',
                    replay={'kind': 'sshsig', 'row': row, 'alg': kalg,
                            'variant': variant, 'mat': mat})
            elif not ok and verdict == 'accept':
                ctx.violation(
                    {'module': 'SigCert', 'table': 'sshsig', 'row': row,
                     'refused': True},
                    f'authorised SSHSIG signature refused ({exc_name(exc)}: '
                    f'{exc}): {row} key={kalg} {mat}',
                    replay={'kind': 'sshsig', 'row': row, 'alg': kalg,
                            'variant': variant, 'mat': mat})
            if ai == 0 and ((ok and not samp['acc']) or
                            (not ok and row['msg'] == 'same' and
                             row['nsblob'] == 'same' and not samp['rej'])):
                samp['acc' if ok else 'rej'] = True
                ctx.sample({'table': 'sshsig', 'row': row,
                            'rule_verdict': verdict, 'observed': ok,
                            'key': kalg, 'materialised': mat})
    ctx.require(len(sig_rows) > 0, 'no SSHSIG row was evaluated')

    # ---- 2d. identity table: wanted identity x principal list x entry ------
    iworlds = {}
    live = []
    n_acc = 0

    def judge_ident(row, verdict, stage, ok, exc, aname):
        names = [D.render_name(n) for n in row['list']]
        wanted = D.render_name(row['wanted'])
        if row['entry'] == 'sshsig_pat':
            names = 'line principals ' + D._pat_text(row['plist']) + \
                ('' if row['nslist'][0]['a'] == '<absent>' else
                 ' namespaces="' + D._pat_text(row['nslist']) + '"') + \
                (' cert-authority' if row['ca'] else '')
        what = (f'entry={row["entry"]} type={row["ctype"]}/{row["want"]} '
                f'principals={names!r} wanted={wanted!r} window='
                f'[{D.TIMEPT[row["after"]]}, {D.TIMEPT[row["before"]]}) '
                f'now={D.TIMEPT[row["now"]]} alg={aname}')
        if ok and verdict == 'reject':
            ctx.violation(
                {'module': 'SigCert', 'table': 'ident', 'row': row,
                 'expected_reject_at': stage},
                f'accepted for an identity / at a time the rule '
                f'rejects (stage {stage}): {what}',
                replay={'kind': 'ident', 'row': row, 'alg': aname})
        elif not ok and verdict == 'accept':
            ctx.violation(
                {'module': 'SigCert', 'table': 'ident', 'row': row,
                 'refused': True},
                f'valid certificate / authorised identity refused '
                f'({exc_name(exc)}: {exc}): {what}',
                replay={'kind': 'ident', 'row': row, 'alg': aname})

    for ri, (row, verdict, stage) in enumerate(ident_rows):
        if not only.row('ident', row):
            continue
        if row['entry'] in ('login', 'hostalias'):
            live.append((row, verdict, stage))
            continue
        use = [algs[ri % len(algs)]] if quick else algs
        if only.rp is not None:
            use = [a for a in algs if only.alg(a[0])][:1]
        for aname, kalg, sig_alg in use:
            if (kalg, sig_alg) not in iworlds:
                iworlds[kalg, sig_alg] = D.IdentWorld(kalg, sig_alg)
            ok, exc = iworlds[kalg, sig_alg].run(row)
            note_exc('ident', exc)
            n_acc += ok
            ctx.count(('ident', aname, ri))
            judge_ident(row, verdict, stage, ok, exc, aname)
    # ssh-keygen -Y verify as second opinion on the pattern-list rows
    if D.SSH_KEYGEN and only.rp is None:
        scr2 = D.Scratch(tlc.WORK, 'c16_pat_')
        try:
            w = iworlds.get(('ssh-ed25519', b'ssh-ed25519')) or \
                D.IdentWorld('ssh-ed25519', b'ssh-ed25519')
            agree = differ = 0
            diffs = []
            pat = [r for r in ident_rows if r[0]['entry'] == 'sshsig_pat'
                   and not r[0]['ca']]
            for pi, (row, verdict, stage) in enumerate(pat):
                wanted = D.render_name(row['wanted'])
                if pi % (6 if quick else 1) or not wanted:
                    continue
                text, sig = w.pat_line(row)
                r = D.keygen_verify(scr2, D.MSG, D.armor(sig), text + '\n',
                                    D.TIMEPT[3], principal=wanted)
                ctx.count(('keygen-pat', pi), nontrivial=False)
                if r == (verdict == 'accept'):
                    agree += 1
                else:
                    differ += 1
                    diffs.append((D._pat_text(row['plist']),
                                  D._pat_text(row['nslist']), wanted, r,
                                  verdict))
            ctx.notes.append(f'ssh-keygen -Y verify on pattern-list rows: '
                             f'agrees with the rule on {agree}, differs on '
                             f'{differ} {diffs[:4]}')
        finally:
            scr2.close()
    live_algs = algs[:1] if quick else [a for a in algs if a[0] in
                                        ('ed25519', 'ecdsa256',
                                         'rsa-sha2-512')]
    if only.rp is not None:
        live_algs = [a for a in algs if only.alg(a[0])][:1]
    for aname, kalg, sig_alg in (live_algs if live else []):
        outs = D.live_identity_rows([r for r, _, _ in live], kalg, sig_alg)
        for (row, verdict, stage), o in zip(live, outs):
            ctx.count(('ident-live', aname, row['entry'],
                       str(row['list']), str(row['wanted'])))
            if o not in ('accept', 'reject'):
                ctx.divergence(f'ident table (live {row["entry"]}): {o}: '
                               f'{row}')
                continue
            n_acc += o == 'accept'
            judge_ident(row, verdict, stage, o == 'accept', None, aname)
    ctx.traces_validated(len(live) * len(live_algs))
    ctx.require(len(ident_rows) > 0, 'no identity row was evaluated')
    # the decision uses the clock AT VALIDATION TIME: the same certificate
    # object, two different clock values one after the other
    if only.rp is None:
        for (kalg, sig_alg), w in list(iworlds.items())[:3]:
            cert = w.cert('user', ['alice'], 2, 4)
            for seq in ((2, 4), (1, 2), (3, 4), (4, 3)):
                got = []
                for pt in seq:
                    with D.Clock(D.TIMEPT[pt]):
                        try:
                            cert.validate(1, 'alice')
                            got.append(True)
                        except ValueError:
                            got.append(False)
                want = [2 <= pt < 4 for pt in seq]
                ctx.count(('clock-sequence', kalg, seq))
                if got != want:
                    ctx.violation(
                        {'module': 'SigCert', 'table': 'ident',
                         'step': 'clock-at-validation', 'sequence': list(seq)},
                        f'certificate valid in [{D.TIMEPT[2]}, {D.TIMEPT[4]}) '
                        f'validated at clock values '
                        f'{[D.TIMEPT[p] for p in seq]} one after the other: '
                        f'accepted {got}, expected {want} (the decision must '
                        f'use the clock at validation time)',
                        replay={'kind': 'ident', 'row': None})
    if ident_rows and only.rp is None:
        r0 = [r for r in ident_rows if r[0]['entry'] == 'login'][0]
        ctx.sample({'table': 'ident', 'rows': len(ident_rows),
                    'live_rows': len(live), 'example_row': r0[0],
                    'rule_verdict': r0[1]}, limit=8)

    # ---- 2f. message-form table (SSHSIG) ------------------------------------------
    if only.kind('msgform'):
        scr3 = D.Scratch(tlc.WORK, 'c16_msg_')
        try:
            msgform_table(ctx, D, scr3, msg_rows, only, quick)
        finally:
            scr3.close()

    # ---- 2e. cross-algorithm table ----------------------------------------------
    if only.kind('cross'):
        cross_table(ctx, D, cross_rows, only)

    # ---- 3. byte sweeps -----------------------------------------------------
    masks = D.MASKS_QUICK if quick else D.MASKS_THOROUGH
    for aname, kalg, sig_alg in algs:
        if not (only.kind('sweep-sig', 'sweep-cert') and only.alg(aname)):
            continue
        fields_hit = {}
        for what, pos, ok, exc in D.sweep_signature(kalg, sig_alg, masks):
            note_exc('sweep-sig', exc)
            ctx.count(('sweep-sig', aname, what, pos))
            if what == 'unchanged':
                if not ok:
                    ctx.violation({'module': 'SigCert', 'sweep': 'signature',
                                   'alg': aname, 'edit': 'none'},
                                  f'unaltered {aname} signature does not '
                                  f'verify')
            elif ok:
                ctx.violation({'module': 'SigCert', 'sweep': 'signature',
                               'alg': aname, 'edit': what, 'pos': pos},
                              f'{aname}: signature still verifies after '
                              f'{what} edit at {pos}',
                              replay={'kind': 'sweep-sig', 'alg': aname,
                                      'edit': what, 'pos': pos})
        for field, pos, ok, exc in D.sweep_certificate(kalg, sig_alg, masks,
                                                       rnd):
            note_exc('sweep-cert', exc)
            fields_hit[field] = fields_hit.get(field, 0) + 1
            ctx.count(('sweep-cert', aname, field, pos))
            if field == 'unchanged':
                if not ok:
                    ctx.divergence(f'sweep: valid {aname} certificate not '
                                   f'imported: {exc}')
            elif ok:
                ctx.violation({'module': 'SigCert', 'sweep': 'certificate',
                               'alg': aname, 'field': field, 'pos': pos},
                              f'{aname}: certificate still accepted after '
                              f'editing field {field} at {pos}',
                              replay={'kind': 'sweep-cert', 'alg': aname,
                                      'field': field, 'pos': pos})
        if aname == algs[0][0]:
            ctx.sample({'sweep': 'certificate', 'alg': aname,
                        'single_byte_edits_per_field': fields_hit,
                        'all_refused': True}, limit=8)
    # length-changing re-encodings of the signature (leading zero stripped /
    # added, short / long, non-minimal mpints, trailing data ...) through
    # verify(), the CA signature of a certificate and validate_sshsig: only
    # the canonical blob made by sign() may be accepted
    for aname, kalg, sig_alg in algs:
        if not (only.kind('reenc') and only.alg(aname)):
            continue
        family = 'ecdsa' if kalg.startswith('ecdsa-') else \
            'rsa' if kalg == 'ssh-rsa' else kalg
        paths = [('verify', D.reenc_verify_cases(kalg, sig_alg)),
                 ('cert', D.reenc_cert_cases(kalg, sig_alg, rnd))]
        if aname not in ('rsa-sha2-256', 'ssh-rsa'):
            paths.append(('sshsig', D.reenc_sshsig_cases(kalg)))
        for path, gen in paths:
            nvar = 0
            for vi, (name, ok, exc) in enumerate(gen):
                note_exc('reenc', exc)
                if name == 'search-failed':
                    ctx.notes.append(f'reencoding {aname}/{path}: no signature '
                                     f'with a leading zero found (skipped)')
                    continue
                if name == 'canonical-refused':
                    ctx.divergence(f'reencoding {aname}/{path}: the canonical '
                                   f'signature is refused ({exc})')
                    continue
                if name == 'canonical':
                    continue
                nvar += 1
                ctx.count(('reenc', aname, path, name, vi))
                if ok:
                    cls = 'mpint-extra-leading-zero' \
                        if 'extra-leading-zero' in name else name
                    ctx.violation(
                        {'module': 'SigCert', 'sweep': 'reencoding',
                         'family': family, 'class': cls, 'path': path,
                         'alg': aname, 'variant': name},
                        f'{aname}: a re-encoded (non-canonical) signature '
                        f'blob [{name}] is accepted by '
                        f'{ {"verify": "key.verify()", "cert": "import_certificate() as CA signature", "sshsig": "validate_sshsig()"}[path]}',
                        replay={'kind': 'reenc', 'alg': aname, 'path': path,
                                'variant': name})
            if aname == algs[2][0] and path == 'verify':
                ctx.sample({'sweep': 'reencoding', 'alg': aname,
                            'variants_per_path': nvar,
                            'paths': ['verify', 'cert', 'sshsig']}, limit=9)
    sweep_sig_algs = algs if not quick else [a for a in algs if a[0] in
                                             ('ed25519', 'ecdsa256',
                                              'rsa-sha2-512')]
    for aname, kalg, sig_alg in sweep_sig_algs:
        if not (only.kind('sweep-sshsig') and only.alg(kalg)):
            continue
        if kalg not in worlds:
            worlds[kalg] = D.SigWorld(kalg)
        for signer in ('key', 'cert_ok'):
            for what, pos, ok, exc in D.sweep_sshsig(worlds[kalg], signer,
                                                     masks):
                note_exc('sweep-sshsig', exc)
                ctx.count(('sweep-sshsig', kalg, signer, what, pos))
                if what == 'unchanged':
                    if not ok:
                        ctx.divergence(f'sweep: valid SSHSIG ({kalg}, '
                                       f'{signer}) not validated')
                elif ok:
                    ctx.violation({'module': 'SigCert', 'sweep': 'sshsig',
                                   'alg': kalg, 'signer': signer,
                                   'edit': what, 'pos': pos},
                                  f'SSHSIG ({kalg}, {signer}) still validates '
                                  f'after {what} edit at {pos}',
                                  replay={'kind': 'sweep-sshsig', 'alg': kalg,
                                          'signer': signer, 'pos': pos})

    # ---- 4. second opinions --------------------------------------------------
    if only.rp is None:
        scr = D.Scratch(tlc.WORK, 'c16_keygen_')
        try:
            second_opinions(ctx, D, scr, algs, worlds, sig_rows, rnd, quick)
        finally:
            scr.close()

    ctx.notes.append(f'exceptions seen on refused inputs: {exc_hist}')
    import asyncssh
    ctx.notes.append(f'asyncssh under test: {asyncssh.__file__}')
    ctx.assumptions += [
        'the decision tables (certificate acceptance, SSHSIG authorisation, '
        'order of checks) are model-checked; the cryptographic predicate '
        '(does this signature verify) is abstracted in the specification and '
        'decided by the harness on real keys: that part is exploration '
        '(every single-byte edit of one signature / certificate / SSHSIG blob '
        'per key type x algorithm, not every message)',
        'an exception raised by verify / import_certificate / validate / '
        'validate_sshsig counts as "not accepted"',
        'over-strict refusals (rule accepts, code refuses) are reported as '
        'model divergence, not as violations: the property is one-directional '
        'for certificates and SSHSIG',
        'algorithm name "differs" means it names another algorithm: alias '
        'names of the same algorithm (ssh-rsa-sha512@ssh.com = rsa-sha2-512) '
        'are interchangeable by construction of the SSH signature format',
        'identity table: the live rows (login with a user certificate, host '
        'certificate checked under a host_key_alias) run on the in-memory '
        'network with the real clock and certificates valid forever; '
        'asyncssh has no principals= option in allowed-signers lines, so '
        'that option is not a dimension',
        'ECDSA (r, n-s) malleability is outside the quantifier (single-byte '
        'edits) and not tested; length-changing re-encodings of the same '
        'signature value ARE tested (only the canonical blob may verify); '
        'sk-* signatures are not (no authenticator to make one)',
        'certificates are built by the harness encoder and signed with '
        'asyncssh key.sign(); ssh-keygen -L confirms on samples that OpenSSH '
        'parses them as intended',
    ]


def msgform_table(ctx, D, scr, rows, only, quick):
    """SSHSIG: the message handed over as bytes / file name / PurePath /
    digest / through ssh-keygen, on the signing and on the verifying side.
    All forms of the same message are interchangeable; a signature never
    validates for another message."""
    w = D.MsgWorld(scr)
    n_eval = n_acc = 0
    for ri, (row, verdict, stage) in enumerate(rows):
        if not only.row('msgform', row):
            continue
        if 'keygen' in (row['sform'], row['vform']):
            if not D.SSH_KEYGEN:
                continue
            # the other party costs a process: in quick, not for every
            # altered message
            if quick and row['rel'] in ('pad8k', 'truncated'):
                continue
        sig = w.sign(row['sform'], row['size'], row['hash'])
        if sig is None:
            continue
        ok, exc = w.verify(row['vform'], sig, row['size'], row['rel'],
                           row['hash'])
        n_eval += 1
        n_acc += ok
        ctx.count(('msgform', ri))
        what = (f'{row["size"]}-byte message signed as {row["sform"]} '
                f'({row["hash"]}), verifier gets the {row["rel"]} message as '
                f'{row["vform"]}')
        if ok and verdict == 'reject':
            ctx.violation({'module': 'SigCert', 'table': 'msgform',
                           'row': row},
                          f'SSHSIG signature validates for a DIFFERENT '
                          f'message: {what}',
                          replay={'kind': 'msgform', 'row': row})
        elif not ok and verdict == 'accept':
            ctx.violation({'module': 'SigCert', 'table': 'msgform',
                           'row': row},
                          f'SSHSIG signature over the same message is refused '
                          f'({exc_name(exc)}: {exc}): {what}',
                          replay={'kind': 'msgform', 'row': row})
    ctx.require(n_eval > 0 or only.rp is not None,
                'no message-form row was evaluated')
    if only.rp is None:
        ctx.sample({'table': 'msgform', 'rows': len(rows),
                    'evaluated': n_eval, 'accepted': n_acc,
                    'example_row': rows[len(rows) // 3][0]}, limit=12)


def cross_table(ctx, D, cross_rows, only):
    """Every key x every registered algorithm name as outer name of a genuine
    signature (verify / CA signature / SSHSIG): alone in a fresh interpreter
    (built = {}), and after keys of all other types were constructed and used
    in this process, in both construction orders."""
    import json
    sel = [(r, v, st) for r, v, st in cross_rows if only.row('cross', r)]
    spec_names = {}
    for r, v, st in cross_rows:
        if v == 'accept' or st == 'crypto':     # not refused at stage "alg"
            spec_names.setdefault(r['key'], set()).add(r['name'])

    def judge(row, verdict, stage, ok, where):
        if ok is None:
            return
        ctx.count(('cross', row['key'], row['sigalg'], row['name'],
                   row['path'], str(row['built']), row['order']))
        if ok and verdict == 'reject':
            ctx.violation(
                {'module': 'SigCert', 'table': 'cross', 'row': row},
                f'{row["key"]} key accepts a genuine {row["sigalg"]} '
                f'signature relabelled {row["name"]!r} ({row["path"]}, '
                f'{where})', replay={'kind': 'cross', 'row': row})
        elif not ok and verdict == 'accept':
            sig = {'module': 'SigCert', 'table': 'cross', 'row': row}
            if row['name'] == row['sigalg']:
                ctx.violation(sig, f'{row["key"]}: the unaltered '
                              f'{row["sigalg"]} signature is refused '
                              f'({row["path"]}, {where})',
                              replay={'kind': 'cross', 'row': row})
            else:
                ctx.divergence(f'cross table: alias {row["name"]} of '
                               f'{row["sigalg"]} refused ({row["path"]}, '
                               f'{where})')

    # built = {}: one fresh interpreter per key type
    procs = {}
    for kind in D.XORDER:
        rows = [(r, v, st) for r, v, st in sel if r['key'] == kind and
                not r['built']]
        if rows:
            procs[kind] = (rows, D.cross_isolated(kind, [r for r, _, _
                                                         in rows]))
    for kind, (rows, (p, payload)) in procs.items():
        out, err = p.communicate(payload, timeout=600)
        try:
            ans = json.loads(out)
        except ValueError:
            raise MachineryError(f'isolated cross run for {kind} failed: '
                                 f'{err[-500:]}') from None
        for (row, verdict, stage), ok in zip(rows, ans['results']):
            judge(row, verdict, stage, ok, 'key alone in the process')
    # built = all: both construction orders
    for order, kinds in (('fwd', D.XORDER), ('rev', D.XORDER[::-1])):
        w = D.CrossWorld(kinds)
        for kind in w.keys:
            priv, pub = w.names_now(kind)
            ctx.count(('cross-names', kind, order))
            if priv != w.born[kind] or pub != w.born[kind]:
                ctx.violation(
                    {'module': 'SigCert', 'table': 'cross',
                     'step': 'NameSetLocal', 'key': kind},
                    f'the algorithm names a {kind} key object accepts '
                    f'changed after other keys were constructed: '
                    f'{sorted(w.born[kind])} -> {sorted(priv | pub)}',
                    replay={'kind': 'cross', 'row': None})
            want = {n.encode() for n in spec_names.get(kind, ())}
            if w.born[kind] != want and only.rp is None:
                ctx.divergence(f'cross table: a {kind} key accepts the names '
                               f'{sorted(w.born[kind])}, the model says '
                               f'{sorted(want)}')
        for row, verdict, stage in sel:
            if row['built'] and row['order'] == order:
                judge(row, verdict, stage, w.run(row),
                      f'after keys of all types were constructed, order '
                      f'{order}')
    if only.rp is None:
        ex = [r for r in cross_rows if r[0]['key'] == 'ecdsa256' and
              r[0]['name'] == 'ecdsa-sha2-nistp384' and r[0]['built']][0]
        ctx.sample({'table': 'cross', 'rows': len(cross_rows),
                    'example_row': ex[0], 'rule_verdict': ex[1]}, limit=10)


def second_opinions(ctx, D, scr, algs, worlds, sig_rows, rnd, quick):
    if not D.SSH_KEYGEN:
        ctx.notes.append('ssh-keygen not found: second opinions skipped')
        return
    # (a) ssh-keygen -Y verify on sampled SSHSIG rows, ed25519 + one other
    n = 40 if quick else 300
    agree = disagree = 0
    reasons = {}
    unexplained = []
    sample_rows = rnd.sample(sig_rows, n)
    for i, (row, verdict, stage) in enumerate(sample_rows):
        kalg = 'ssh-ed25519' if i % 2 else 'ecdsa-sha2-nistp256'
        w = worlds.setdefault(kalg, D.SigWorld(kalg))
        raw = w.sig(row['signer'], i)
        if row['nsblob'] == 'changed':
            raw = D.change_namespace(raw, D.NS_OTHER)
        msg = D.MSG if row['msg'] == 'same' else D.MSG + b'!'
        text = '\n'.join(w.line(l, i + j)
                         for j, l in enumerate(row['lines'])) + '\n'
        ns = D.NS_OTHER if row['nsblob'] == 'changed' else D.NS
        r = D.keygen_verify(scr, msg, D.armor(raw), text, D.NOW[row['now']],
                            namespace=ns)
        ctx.count(('keygen-verify', i), nontrivial=False)
        if r is None:
            continue
        # OpenSSH treats valid-before as inclusive and does not let a plain
        # key line authorise a certificate: skip rows where that matters
        if r == (verdict == 'accept'):
            agree += 1
            continue
        disagree += 1
        # known differences of OpenSSH 9.x: valid-before is inclusive; a
        # plain key line does not authorise a certificate signer; a
        # certificate without principals is refused
        if r and row['now'] == 'b' and any(l['vb'] == 'set'
                                           for l in row['lines']):
            why = 'openssh valid-before inclusive'
        elif not r and row['signer'] != 'key':
            why = 'openssh stricter for certificate signers'
        else:
            why = 'unexplained'
            unexplained.append({'row': row, 'ssh-keygen': r,
                                'rule': verdict})
        reasons[why] = reasons.get(why, 0) + 1
    ctx.notes.append(f'ssh-keygen -Y verify second opinion on {n} sampled '
                     f'SSHSIG rows: agrees with SshsigRule on {agree}, differs '
                     f'on {disagree}: {reasons}' +
                     (f' unexplained: {unexplained[:3]}' if unexplained
                      else ''))
    # (b) interop: OpenSSH-made signatures validate; asyncssh-made verify
    for aname, kalg, sig_alg in algs:
        if aname in ('rsa-sha2-256', 'ssh-rsa'):
            continue
        w = worlds.setdefault(kalg, D.SigWorld(kalg))
        line = 'principal ' + \
            w.k.export_public_key('openssh').decode().strip() + '\n'
        sig = D.keygen_sign(scr, w.k, D.MSG)
        if sig is None:
            ctx.notes.append(f'ssh-keygen cannot sign with {kalg}: skipped')
            continue
        import asyncssh
        ctx.count(('keygen-sign', kalg))
        ok = asyncssh.validate_sshsig(D.MSG, sig, 'principal', line.encode())
        bad = asyncssh.validate_sshsig(D.MSG + b'!', sig, 'principal',
                                       line.encode())
        if bad:
            ctx.violation({'module': 'SigCert', 'interop': 'keygen-sign',
                           'alg': kalg},
                          f'OpenSSH-made {kalg} SSHSIG validates for a '
                          f'different message')
        if not ok:
            ctx.divergence(f'OpenSSH-made {kalg} SSHSIG not validated by '
                           f'asyncssh')
        r = D.keygen_verify(scr, D.MSG, D.armor(w.sig('key')), line, D.A)
        ctx.count(('keygen-verify-asyncssh-sig', kalg))
        if r is False:
            ctx.divergence(f'asyncssh-made {kalg} SSHSIG refused by '
                           f'ssh-keygen -Y verify')
    # (c) ssh-keygen -L reads harness-built certificates as intended
    for ci, (aname, kalg, sig_alg) in enumerate(algs):
        cls = ('user', ('p', 'q'), ('force-command', 'verify-required'),
               'wrapped', 'ok')
        blob, calg, _, _ = D.build_row_cert(cls, kalg, sig_alg, rnd,
                                            key_id='verif-id', serial=7)
        d = D.keygen_list_cert(scr, D.cert_line(blob, calg))
        if d is None:
            ctx.notes.append(f'ssh-keygen -L cannot read {calg.decode()}')
            continue
        ctx.count(('keygen-L', aname))
        ok = d['type'] == 'user' and d['principals'] == ['p', 'q'] and \
            d['critical'] == ['force-command', 'verify-required'] and \
            d['extensions'][:1] == ['aaa-unknown@verif'] and \
            d.get('serial') == 7 and d.get('key_id') == 'verif-id'
        ctx.require(ok, f'harness certificate encoder: ssh-keygen -L reads '
                        f'{calg} differently: {d}')


if __name__ == '__main__':
    run_check('C16', main)
