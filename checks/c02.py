"""C02 - emitted packets conform to RFC 4253 and survive any segmentation.

1. TLC exhausts specs/RecvMachine: every chunking of a stream of packets
   (incl. the version line and a packet with an asynchronous handler)
   through the version/header/body receive machine: InOrderOnce, NotEarly,
   AllDispatched, and liveness; the variant that does not re-run the parser
   after an asynchronous handler must be rejected (sensitivity).
2. TLC-chosen chunkings are applied to live sessions (both directions, with
   byte jitter around every cut): every payload must arrive exactly once and
   in order (echo compare + packet logs of both endpoints).
3. Wire conformance: every byte both endpoints emit - for every negotiable
   cipher x MAC (x compression), every available key-exchange family, payload
   lengths around the block size, both roles - is decoded by an INDEPENDENT
   RFC 4253 implementation (harness/wire.py: own key derivation from K, H,
   session id; own decryption, MAC, padding and sequence checks)."""

import os
import random

from harness import tlc
from harness.framework import run_check, MachineryError, VERIF

SPEC = os.path.join(VERIF, 'specs', 'RecvMachine')
LENS, HDR, ASYNC = [3, 4, 3, 4], 2, '{2}'


def write_cfg(name, consts, invariants=(), properties=(), view=True,
              spec='Spec'):
    d = dict(Lens='LensA', Hdr=HDR, Async=ASYNC, RerunAfterAsync='TRUE')
    d.update(consts)
    lines = ['CONSTANTS'] + [f'  {k} <- {v}' if k == 'Lens' else
                             f'  {k} = {v}' for k, v in d.items()]
    lines += [f'SPECIFICATION {spec}', 'CHECK_DEADLOCK FALSE']
    lines += [f'INVARIANT {i}' for i in invariants]
    lines += [f'PROPERTY {p}' for p in properties]
    if view:
        lines.append('VIEW view')
    with open(os.path.join(SPEC, name), 'w') as f:
        f.write('\n'.join(lines) + '\n')
    return name


def mc(ctx, tag, consts, invariants, expect=None, properties=(), spec='Spec',
       view=True):
    cfg = write_cfg(f'_{tag}.cfg', consts, invariants, properties, view, spec)
    res = tlc.run(SPEC, 'RecvMachine', cfg, tag, timeout=1200)
    ctx.require_tlc_ok(f'RecvMachine {tag} {consts}', res,
                       expect_violation=expect)
    tlc.cleanup(tag)
    os.remove(os.path.join(SPEC, cfg))


def cut_sets(tag, num, seed):
    cfg = write_cfg(f'_{tag}.cfg', {}, view=False)
    d = tlc.workdir(tag + '_out')
    res = tlc.run(SPEC, 'RecvMachine', cfg, tag, workers=4, timeout=600,
                  simulate=f'file={d}/tr,num={num}', depth=40, seed=seed)
    if res.error and res.error != 'timeout':
        raise MachineryError(f'simulate: {res.error}\n' + res.output[-2000:])
    out = set()
    for _, steps in tlc.read_sim_traces(d, 'tr_'):
        cuts = steps[-1][1]['cuts']
        if cuts:
            out.add(tuple(cuts))
    tlc.cleanup(tag + '_out')
    tlc.cleanup(tag)
    os.remove(os.path.join(SPEC, cfg))
    return sorted(out)


def judge_session(ctx, r, payloads, what, sig):
    from harness.drivers import transport as T
    bad = []
    if r['outcome'] != 'ok':
        bad.append(f'session did not complete: {r["outcome"]}')
    elif r['echoed'] != list(payloads):
        bad.append('payloads not received exactly once and in order: '
                   f'sent lengths {[len(p) for p in payloads]} got '
                   f'{[len(p) for p in r["echoed"]]}')
    rec = r['rec']
    # every packet one side emitted was accepted by the other, in order
    for a, b in (('c', 's'), ('s', 'c')):
        sent = [(t, p) for t, _, p, w in rec.app[a] if w]
        got = [(t, p) for t, _, p, skip in rec.rx[b]]
        if r['outcome'] == 'ok' and got != sent[:len(got)]:
            bad.append(f'packets accepted by {b} are not a prefix of the '
                       f'packets emitted by {a}')
    sess, err = T.decode_all(rec)
    if err:
        bad.append(f'independent decoder: {err}')
    else:
        for d, dec in (('cs', sess.cs), ('sc', sess.sc)):
            side = 'c' if d == 'cs' else 's'
            mine = [(t, p) for t, _, p, w in rec.app[side] if w]
            seen = [(p.type, p.payload) for p in dec.packets]
            if seen != mine[:len(seen)] or \
                    (r['outcome'] == 'ok' and len(seen) != len(mine)):
                bad.append(f'independent decoder saw different payloads '
                           f'than {side} emitted ({len(seen)} vs '
                           f'{len(mine)})')
            if dec.buf and r['outcome'] == 'ok':
                bad.append(f'{len(dec.buf)} undecodable trailing bytes in '
                           f'direction {d}')
    if r['loop_exceptions']:
        bad.append(f'exception reached the loop: {r["loop_exceptions"][0]}')
    if bad:
        ctx.violation(sig, f'{what}: ' + '; '.join(bad[:3]),
                      replay={'kind': 'session', 'what': what, **sig})
    return not bad


def main(ctx):
    from harness.drivers import transport as T
    from asyncssh.encryption import get_encryption_algs
    from asyncssh.mac import get_mac_algs
    from asyncssh.kex import get_kex_algs
    quick = ctx.tier == 'quick'
    rnd = random.Random(ctx.seed)
    if ctx.replay_path:
        from checks import replay_mine
        return replay_mine.c02(ctx, T, judge_session)
    # ---- 1. design check ----
    mc(ctx, 'c02_mc', {}, ['InOrderOnce', 'NotEarly', 'AllDispatched'])
    mc(ctx, 'c02_mc2', dict(Lens='LensB', Async='{2, 4}'),
       ['InOrderOnce', 'NotEarly', 'AllDispatched'])
    mc(ctx, 'c02_live', dict(Lens='LensC'), [],
       properties=['Eventually'], spec='LiveSpec', view=False)
    mc(ctx, 'c02_sens', dict(RerunAfterAsync='FALSE'), ['AllDispatched'],
       expect='AllDispatched')
    # ---- 2. segmentation replay ----
    cuts = cut_sets('c02_sim', 400 if quick else 3000, ctx.seed + 5)
    ctx.require(len(cuts) > 20, 'too few chunkings from TLC')
    rnd.shuffle(cuts)
    cuts = cuts[:300 if quick else 2500]
    algs = [('aes128-ctr', 'hmac-sha2-256'),
            ('chacha20-poly1305@openssh.com', None),
            ('aes256-gcm@openssh.com', None),
            ('aes128-cbc', 'hmac-sha1-etm@openssh.com')]
    payloads = [b'x' * n for n in (0, 1, 15, 16, 17, 300)]
    n = 0
    for i, cs in enumerate(cuts):
        enc, mac = algs[i % len(algs)]
        jitter = (i // len(algs)) % 3 - 1
        kw = dict(encryption_algs=[enc])
        if mac:
            kw['mac_algs'] = [mac]
        r = run_chunked(T, payloads, kw, cs, jitter)
        ok = judge_session(ctx, r, payloads,
                           f'segmentation cuts={cs} jitter={jitter} {enc}',
                           {'module': 'RecvMachine', 'cuts': list(cs),
                            'jitter': jitter, 'enc': enc})
        ctx.count(('seg', cs, jitter, enc))
        n += 1
        if i % 40 == 0:
            ctx.sample({'cuts': list(cs), 'jitter': jitter, 'enc': enc,
                        'applied_real_offsets': r.get('applied')})
    # one byte at a time, and everything coalesced
    for enc, mac in algs:
        kw = dict(encryption_algs=[enc])
        if mac:
            kw['mac_algs'] = [mac]
        for name, ch in (('1byte', lambda a: 1), ('7bytes', lambda a: 7)):
            r = T.run_session(payloads, client_kw=kw, server_kw=kw,
                              chunker=ch)
            judge_session(ctx, r, payloads, f'segmentation {name} {enc}',
                          {'module': 'RecvMachine', 'chunk': name,
                           'enc': enc})
            ctx.count(('seg', name, enc))
            n += 1
    # chunks spanning MANY packets (bursts written before anything is read),
    # and long streams cut into tiny chunks
    for npk in ((40, 700) if quick else (40, 700, 3000)):
        pl = [bytes([65 + i % 26]) * (1 + i % 3) for i in range(npk)]
        for enc, mac in algs[:2] if quick else algs:
            kw = dict(encryption_algs=[enc])
            if mac:
                kw['mac_algs'] = [mac]
            for name, ch in (('coalesced', None), ('3bytes', lambda a: 3)):
                if name == '3bytes' and npk > 700:
                    continue
                r = T.run_session(pl, client_kw=kw, server_kw=kw, chunker=ch,
                                  burst=True)
                judge_session(ctx, r, pl, f'burst of {npk} packets {name} '
                              f'{enc}', {'module': 'RecvMachine',
                                         'burst': npk, 'chunk': name,
                                         'enc': enc})
                ctx.count(('burst', npk, name, enc), nontrivial=True)
                n += 1
    ctx.traces_validated(n)
    # ---- 3. wire conformance sweep ----
    encs = [e.decode() for e in get_encryption_algs()]
    macs = [m.decode() for m in get_mac_algs()]
    kexs = [k.decode() for k in get_kex_algs()
            if not k.startswith(b'gss-')]
    combos = []
    for enc in encs:
        aead = 'gcm' in enc or 'chacha' in enc
        for mac in (macs[:1] if aead else macs):
            combos.append((enc, mac, 'none'))
        combos.append((enc, macs[2], 'zlib@openssh.com'))
        combos.append((enc, macs[2], 'zlib'))
    if quick:
        rnd.shuffle(combos)
        keep = {}
        for c in combos:                # every cipher and every MAC once
            keep.setdefault(('e', c[0]), c)
            keep.setdefault(('m', c[1]), c)
            keep.setdefault(('c', c[2], c[0][:3]), c)
        combos = sorted(set(keep.values()))
    for enc, mac, cmp_ in combos:
        bs = 16 if ('aes' in enc or 'seed' in enc) else 8
        sizes = sorted({0, 1, bs - 6, bs - 5, bs - 4, bs - 1, bs, bs + 1,
                        2 * bs + 8, 255, 256, 1000}) if not quick else \
            [0, 1, bs - 5, bs, bs + 1, 300]
        if not quick:
            sizes += [32768, 32769, 100000]
        pl = [bytes([i % 251]) * s for i, s in enumerate(sizes)]
        kw = dict(encryption_algs=[enc], mac_algs=[mac],
                  compression_algs=[cmp_])
        r = T.run_session(pl, client_kw=kw, server_kw=kw)
        judge_session(ctx, r, pl, f'wire {enc} {mac} {cmp_}',
                      {'module': 'Wire', 'enc': enc, 'mac': mac,
                       'cmp': cmp_})
        ctx.count(('wire', enc, mac, cmp_))
    # full-size packets under compression (the payload of a maximum-size
    # CHANNEL_DATA packet is 9 bytes longer than the data it carries)
    for cmp_ in ('zlib', 'zlib@openssh.com', 'none'):
        pl = [bytes([i % 251 for i in range(n)])
              for n in (32759, 32760, 32768, 40000)]
        kw = dict(compression_algs=[cmp_])
        r = T.run_session(pl, client_kw=kw, server_kw=kw)
        judge_session(ctx, r, pl, f'full-size packets, compression {cmp_}',
                      {'module': 'Wire', 'fullsize': True, 'cmp': cmp_})
        ctx.count(('fullsize', cmp_), nontrivial=True)
    # asymmetric algorithms per direction and every kex family
    for kex in (kexs if not quick else
                [k for k in kexs if k in (
                    'mlkem768x25519-sha256', 'curve25519-sha256',
                    'curve448-sha512', 'ecdh-sha2-nistp256',
                    'ecdh-sha2-nistp521',
                    'diffie-hellman-group-exchange-sha256',
                    'diffie-hellman-group14-sha256',
                    'diffie-hellman-group16-sha512',
                    'diffie-hellman-group14-sha1', 'rsa2048-sha256')]):
        kw = dict(kex_algs=[kex])
        extra = {}
        if kex.startswith('rsa'):
            pass
        pl = [b'k' * 40]
        r = T.run_session(pl, client_kw=kw, server_kw=dict(kw, **extra))
        if r['outcome'].startswith('error:KeyExchangeFailed') and \
                kex.startswith('rsa'):
            ctx.notes.append(f'kex {kex} needs an RSA host key; skipped')
            continue
        judge_session(ctx, r, pl, f'kex {kex}',
                      {'module': 'Wire', 'kex': kex})
        ctx.count(('kex', kex))
    for ecs, esc in (('aes128-ctr', 'chacha20-poly1305@openssh.com'),
                     ('aes256-gcm@openssh.com', 'aes128-cbc'),
                     ('3des-cbc', 'aes256-ctr')):
        # different algorithms per direction: client prefers ecs, server
        # side list forces sc to differ via ordering
        ckw = dict(encryption_algs=[ecs, esc])
        skw = dict(encryption_algs=[ecs, esc])
        r = T.run_session([b'd' * 33], client_kw=ckw, server_kw=skw)
        judge_session(ctx, r, [b'd' * 33], f'wire {ecs}/{esc}',
                      {'module': 'Wire', 'enc': ecs + '/' + esc})
        ctx.count(('wire2', ecs, esc))
    # DIFFERENT algorithms per direction (a raw peer sends per-direction
    # lists in its KEXINIT; asyncssh itself always sends the same list
    # twice): every ordered pair of compression methods (delayed / not
    # delayed mixed), and mixed cipher / MAC families; either role under test
    cmps = ['none', 'zlib', 'zlib@openssh.com']
    asyms = [{'cmp': ([a], [b])} for a in cmps for b in cmps]
    asyms += [{'enc': (['aes128-ctr'], ['chacha20-poly1305@openssh.com']),
               'mac': (['hmac-sha2-256'], ['hmac-sha1'])},
              {'enc': (['aes256-gcm@openssh.com'], ['aes128-cbc']),
               'mac': (['hmac-sha1'], ['hmac-sha2-512-etm@openssh.com']),
               'cmp': (['zlib@openssh.com'], ['none'])},
              {'enc': (['3des-cbc'], ['aes256-ctr']),
               'mac': (['umac-64@openssh.com'], ['hmac-md5']),
               'cmp': (['zlib'], ['zlib@openssh.com'])}]
    pl = [b'a' * 5, b'b' * 300, b'', b'c' * 17, bytes(range(256)) * 5]
    for asym in asyms:
        kw = {}
        for key, opt in (('enc', 'encryption_algs'), ('mac', 'mac_algs')):
            if key in asym:
                kw[opt] = list(asym[key][0]) + list(asym[key][1])
        for role in 'sc':
            r = T.run_asym_session(role, asym, pl, kw=kw)
            judge_session(ctx, r, pl, f'per-direction algorithms {asym} '
                          f'(endpoint under test: {role})',
                          {'module': 'Wire', 'asym': str(asym), 'role': role})
            ctx.count(('asym', role, str(asym)), nontrivial=True)
    # the shared secret as an mpint: ephemeral keys chosen by the harness so
    # that it starts with a zero octet (followed by a small / a large one) or
    # has its high bit set; the exchange hash is recomputed from the bytes on
    # the wire and the RFC encoding of K, independently of the key-log hook
    for cls in ('plain', 'highbit', 'zero_low', 'zero_high'):
        for rep_ in range(1 if quick else 4):
            r, bad = T.chosen_ecdh_session(cls, ctx.seed * 31 + rep_)
            if bad and bad[0].startswith('machinery'):
                raise MachineryError(bad[0])
            ctx.count(('chosen-ecdh', cls, rep_), nontrivial=True)
            ok = judge_session(ctx, r, [b'abc', b'defgh'],
                               f'curve25519 shared secret of class {cls}',
                               {'module': 'Wire', 'ecdh': cls})
            if bad:
                ctx.violation({'module': 'Wire', 'ecdh': cls, 'hash': True},
                              f'curve25519-sha256 with a shared secret of '
                              f'class {cls}: ' + '; '.join(bad[:2]),
                              replay={'kind': 'session', 'what': 'ecdh ' + cls,
                                      'module': 'Wire', 'ecdh': cls})
    # identification strings: whatever precedes CR LF on the wire is V_C / V_S
    # of the exchange hash, byte for byte (comments, several blanks, a
    # trailing blanks, 245 characters) - both ends and the independent
    # decoder must arrive at the same keys
    versions = ['X_1.0', 'X_1.0 comment', 'X_1.0 two  blanks', 'X_1.0 trail ',
                'X_1.0  ', 'Y' * 245, 'x-y.z_0 ~!@#$%^&*()']
    for side in ('client_version', 'server_version'):
        for v in (versions if not quick else versions[1::2] + versions[:1]):
            kw = {side: v}
            pl = [b'v' * 50, b'w' * 3]
            r = T.run_session(pl, client_kw=kw if side[0] == 'c' else None,
                              server_kw=kw if side[0] == 's' else None)
            judge_session(ctx, r, pl, f'{side}={v!r}',
                          {'module': 'Wire', 'version': v, 'side': side})
            ctx.count(('version', side, v), nontrivial=True)
    # re-keying against an independent peer (raw peer): one that repeats the
    # kex-strict marker in every KEXINIT, as asyncssh itself does, and one
    # that sends it in its first KEXINIT only, which the specification
    # allows ("MUST be ignored if present in subsequent KEXINIT"): strict
    # mode is decided by the first exchange; sequence numbers keep being
    # reset at every NEWKEYS and every payload arrives once, in order
    pl = [bytes([(7 * i + j) % 251 for j in range(700)]) for i in range(12)]
    for role in 'sc':
        for first_only in (False, True):
            for rk in ((2048,) if quick else (1024, 2048, 3500)):
                r = T.run_asym_session(role, {}, pl, kw=dict(rekey_bytes=rk),
                                       raw_kw=dict(strict_first_only=first_only))
                nkex = sum(1 for t, *_ in r['rec'].app['c'] if t == 20)
                ctx.require(r['outcome'] != 'ok' or nkex >= 3,   # the first one + two re-keys
                            f're-key sessions did not re-key ({nkex} KEXINIT)')
                judge_session(ctx, r, pl,
                              f're-key every {rk} bytes against a peer that '
                              f'{"omits" if first_only else "repeats"} the '
                              f'strict-kex marker when re-keying (endpoint '
                              f'under test: {role})',
                              {'module': 'Wire', 'rekey': rk, 'role': role,
                               'marker_first_only': first_only})
                ctx.count(('rekey-raw', role, first_only, rk),
                          nontrivial=True)
    # re-keying with every compression method between two real endpoints:
    # RFC 4253 section 6.2 / 7.1 - compression contexts start afresh with the new keys
    # (the independent decoder starts a new inflate context at every NEWKEYS;
    # two endpoints that share a mistake still understand each other)
    prng = random.Random(4253)       # incompressible: the byte limit counts what is sent
    pl = [prng.randbytes(400) for i in range(10)]
    for ci, (enc, mac) in enumerate((('aes128-ctr', 'hmac-sha2-256'),
                                     ('aes128-gcm@openssh.com', None),
                                     ('chacha20-poly1305@openssh.com', None),
                                     ('aes256-cbc', 'hmac-sha1-etm@openssh.com'))):
        for cmp_ in ('zlib', 'zlib@openssh.com', 'none'):
            if quick and (ci + ('zlib', 'zlib@openssh.com', 'none').index(cmp_)) % 2:
                continue
            kw = dict(encryption_algs=[enc], compression_algs=[cmp_])
            if mac:
                kw['mac_algs'] = [mac]
            r = T.run_session(pl, client_kw=kw, server_kw=kw, rekey_bytes=1500)
            nkex = sum(1 for t, *_ in r['rec'].app['c'] if t == 20)
            ctx.require(r['outcome'] != 'ok' or nkex >= 3,
                        f're-key session {enc}/{cmp_} did not re-key '
                        f'({nkex} KEXINIT)')
            judge_session(ctx, r, pl, f're-key every 1500 bytes, {enc} '
                          f'{mac or ""} compression {cmp_}',
                          {'module': 'Wire', 'rekey': 1500, 'enc': enc,
                           'cmp': cmp_})
            ctx.count(('rekey-cmp', enc, cmp_), nontrivial=True)
    # sequence numbers near 2^16 and 2^32: wrap and MAC input width
    for enc, mac in (('aes128-ctr', 'hmac-sha2-256'),
                     ('aes128-cbc', 'hmac-sha1-etm@openssh.com'),
                     ('chacha20-poly1305@openssh.com', None),
                     ('aes128-gcm@openssh.com', None),
                     ('aes256-ctr', 'umac-64@openssh.com')):
        for start in (0xfffe, 0xfffffffd):
            kw = dict(encryption_algs=[enc])
            if mac:
                kw['mac_algs'] = [mac]
            pl = [b's' * 20, b't' * 20, b'u' * 20]
            r = T.run_session(pl, client_kw=kw, server_kw=kw,
                              after_connect=T.seq_jump(start))
            judge_session(ctx, r, pl, f'sequence numbers from {start:#x} '
                          f'{enc}', {'module': 'Wire', 'seq_start': start,
                                     'enc': enc})
            ctx.count(('seq', start, enc))
    nonce_part(ctx, T, quick, rnd)
    ctx.assumptions += [
        'independent decoder trusts K and H reported by the key-log hook '
        '(key-exchange arithmetic itself is C03) and the `cryptography` '
        'primitives; UMAC tags are not verified (no independent UMAC here)',
    ]


SPECT = os.path.join(VERIF, 'specs', 'Transport')


def nonce_tlc(ctx, name, variant='rfc', invs=(), steps=3, w=8, emit=False,
              expect=None):
    tag = f'c02_nonce_{name}_{os.getpid()}'
    cfg = f'_{tag}.cfg'
    with open(os.path.join(SPECT, cfg), 'w') as f:
        f.write(f'CONSTANTS\n  W = {w}\n  F = 1\n  Steps = {steps}\n'
                f'  Variant = "{variant}"\nSPECIFICATION Spec\n'
                'CHECK_DEADLOCK FALSE\n' +
                ''.join(f'INVARIANT {i}\n' for i in invs) +
                ('INVARIANT Emit\n' if emit else ''))
    try:
        if emit:
            rows, res = tlc.bfs_scripts(SPECT, 'Nonce', cfg, tag)
        else:
            rows, res = None, tlc.run(SPECT, 'Nonce', cfg, tag, workers=4,
                                      timeout=900)
    finally:
        tlc.cleanup(tag)
        os.remove(os.path.join(SPECT, cfg))
    ctx.require_tlc_ok(f'Nonce {name} W={w} Steps={steps} {variant}', res,
                       expect_violation=expect)
    return rows


def nonce_part(ctx, T, quick, rnd):
    """4. The AES-GCM nonce (specs/Transport/Nonce.tla): every carry pattern
    of the invocation counter, on the cipher objects and in live sessions."""
    from harness.drivers import nonce as N
    steps = 3
    nonce_tlc(ctx, 'mc', invs=['InStep', 'NonceFresh', 'FixedUntouched',
                               'CounterIsSum'])
    for variant, inv, st in (('carry_stops_half', 'InStep', 3),
                             ('low_limb_only', 'InStep', 3),
                             ('low_limb_only', 'NonceFresh', 4),
                             ('carry_into_fixed', 'FixedUntouched', 3),
                             ('carry_into_fixed', 'InStep', 3),
                             ('no_wrap', 'NonceFresh', 3),
                             ('no_wrap', 'CounterIsSum', 3)):
        nonce_tlc(ctx, f'sens_{variant}_{inv}', variant=variant, invs=[inv],
                  steps=st, w=4, expect=inv)
    rows = nonce_tlc(ctx, 'rows', emit=True)
    ctx.require(len(rows) == 2 * 3 ** 8, f'Nonce rows: {len(rows)}')
    rows = [(init, [w['$set'] if isinstance(w, dict) else list(w)
                    for w in wraps]) for init, wraps in rows]
    # the driver's mapping of limbs to bytes has the carries of the model
    for (fixed, ctr), wraps in rows[::97]:
        ns = N.rfc_nonces(N.concrete(fixed, ctr), steps + 1)
        mine = [sorted(N.wrapped_bytes(a, b)) for a, b in zip(ns, ns[1:])]
        if mine != [sorted(w) for w in wraps]:
            raise MachineryError(f'limb mapping: {fixed} {ctr}: model wraps '
                                 f'{wraps}, bytes {mine}')
    # ---- on the cipher objects: every row ----
    algs = sorted(N.ALGS)
    for i, ((fixed, ctr), wraps) in enumerate(rows):
        for alg in (algs if not quick or i % 5 == 0 else
                    [algs[(i + ctx.seed) % 2]]):
            bad = N.unit_case(alg, fixed, ctr, steps, salt=ctx.seed % 200)
            ctx.count(('nonce-unit', alg, tuple(fixed), tuple(ctr)),
                      nontrivial=any(wraps))
            if bad:
                ctx.violation({'module': 'Nonce', 'alg': alg.decode(),
                               'carry': [sorted(w) for w in wraps],
                               'clause': bad[0].split(':')[0]},
                              f'{alg.decode()} from nonce '
                              f'{N.concrete(fixed, ctr).hex()} (model fixed '
                              f'{list(fixed)} counter {list(ctr)}): '
                              + '; '.join(bad),
                              replay={'kind': 'nonce-unit', 'alg': alg.decode(),
                                      'fixed': list(fixed), 'ctr': list(ctr),
                                      'steps': steps})
    # ---- live sessions: one per length of the carry chain and fixed field,
    # plus model-chosen others; both directions start from chosen nonces ----
    def chain(k, top):
        return tuple([top] * (8 - k) + [2] * k)
    chosen = [((f,), chain(k, top)) for k in range(9) for f in (0, 2)
              for top in ((1,) if quick else (0, 1))]
    pool = [r[0] for r in rows if any(r[1])]
    chosen += [tuple(map(tuple, c)) for c in
               rnd.sample(pool, 6 if quick else 60)]
    pl = [b'n' * 9, b'o' * 33, b'p' * 5, b'q' * 70]
    for j, (fixed, ctr) in enumerate(chosen):
        alg = algs[j % 2].decode()
        other = chosen[(j * 7 + 3) % len(chosen)]
        ivs = {'cs': N.concrete(fixed, ctr), 'sc': N.concrete(*other)}
        kw = dict(encryption_algs=[alg])
        r = T.run_session(pl, client_kw=kw, server_kw=kw,
                          after_connect=T.iv_jump(ivs))
        if isinstance(r.get('exc'), T.NoNonceAccess):
            ctx.assumptions.append(
                'live nonce sessions skipped: the nonce of the GCM cipher '
                'object is not reachable from the connection on this tree '
                '(the cipher-object part above still ran)')
            break
        judge_session(ctx, r, pl, f'{alg} session continued from nonces '
                      f'cs={ivs["cs"].hex()} sc={ivs["sc"].hex()}',
                      {'module': 'Nonce', 'live': True, 'alg': alg,
                       'fixed': list(fixed), 'ctr': list(ctr)})
        ctx.count(('nonce-live', alg, fixed, ctr), nontrivial=True)


def run_chunked(T, payloads, kw, cuts, jitter):
    """A session in which both directions are segmented at the TLC-chosen
    cut points (mapped onto the real packet boundaries)."""
    return T.run_session(payloads, client_kw=kw, server_kw=kw,
                         chunker=('cuts', LENS, HDR, cuts, jitter))


if __name__ == '__main__':
    run_check('C02', main)
