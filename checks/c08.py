"""C08 - flow control is honoured both ways and never deadlocks.

TLC exhausts specs/Channel against NeverExceedPeerWindow /
NeverExceedPktSize / NeverAcceptBeyondGrant / BufferBounded, with a rogue
peer that ignores the window (RejectExcess, also while the reader is paused),
and checks the liveness property NoDeadlock under weak fairness; a
sensitivity run with the pre-repair accounting (buffered data not counted)
must violate NeverAcceptBeyondGrant.  Behaviours (honest and rogue) are
replayed into a real pair with step-by-step state comparison; a raw peer
drives a real server with extreme window / packet-size values and with data
beyond the advertised window.  In the other direction, executions recorded
from naturally scheduled sessions (writer / reader tasks, self-pausing
sessions, random segmentation and stalls) are validated by TLC against the
same spec (specs/Channel/ChannelTrace.tla), every invariant evaluated in
every recorded state, with binding controls.  Both directions at once:
behaviours of specs/Lifecycle with a window of 2 chunks per direction (data,
EOF and CLOSE queued behind an exhausted window, WINDOW_ADJUST delivered in
every receive state) are replayed into a real pair (HonestNoError,
AllDelivered)."""

from checks import chan_common as cc
from harness.framework import run_check


DUPLEX = ('HonestNoError', 'AllDelivered')


def main(ctx):
    quick = ctx.tier == 'quick'
    if ctx.replay_path:
        import json
        rp = json.load(open(ctx.replay_path))
        if rp['replay'].get('kind') == 'duplex':
            return cc.duplex_replay(ctx, rp['replay'], rp['signature'],
                                    DUPLEX)
        raise SystemExit('this replay kind needs the model states; run the '
                         'check itself')
    # ---- design check ----
    cc.mc(ctx, 'c08_mc1', {}, cc.C08_INVS)
    cc.mc(ctx, 'c08_rogue', dict(Rogue=2, MaxPause=1, DTs='{0}'),
          cc.C08_INVS + cc.C07_INVS[:2])
    cc.mc(ctx, 'c08_unfixed', dict(Rogue=2, MaxPause=1, DTs='{0}',
                                   AccountBuffered='FALSE'),
          ['NeverAcceptBeyondGrant'], expect='NeverAcceptBeyondGrant')
    cc.mc(ctx, 'c08_live', dict(DTs='{0}', MaxUnits=3 if quick else 4),
          [], properties=['NoDeadlock'], spec='LiveSpec', view=False)
    cc.mc(ctx, 'c08_w1', dict(Rogue=1, DTs='{0}'), ['NeverErr'],
          expect='NeverErr')
    if not quick:
        cc.mc(ctx, 'c08_mc2', dict(InitWin=1, PktSize=1, MaxUnits=3),
              cc.C08_INVS)
        cc.mc(ctx, 'c08_mc3', dict(InitWin=4, PktSize=2, MaxUnits=5,
                                   DTs='{0}', Rogue=1), cc.C08_INVS)
        cc.mc(ctx, 'c08_live2', dict(Chans='{1, 2}', DTs='{0}', InitWin=2,
                                     PktSize=1, MaxUnits=2, MaxWrite=2,
                                     MaxPause=1),
              [], properties=['NoDeadlock'], spec='LiveSpec', view=False)
    # ---- replay ----
    n = 40 if quick else 400
    sims = [
        ('w3p2', {}, n, 30, 1),
        ('w1p1', dict(InitWin=1, PktSize=1, MaxUnits=3, DTs='{0}'), n, 30, 1),
        ('w2p3', dict(InitWin=2, PktSize=3, MaxUnits=5, MaxWrite=4,
                      DTs='{0}'), n, 30, 1),
        ('rogue', dict(Rogue=2, MaxPause=1, DTs='{0}'), n * 2, 24, 1),
        ('rogue2', dict(Rogue=1, MaxPause=2, InitWin=2, PktSize=1,
                        MaxUnits=4), n, 24, 1),
        ('two', dict(Chans='{1, 2}', InitWin=2, PktSize=2, MaxUnits=3,
                     MaxWrite=2, MaxPause=1), n, 36, 1),
        ('w3p2x1k', {}, n // 2, 30, 1024),
        ('w3p2text', {}, n // 2, 30, 'text'),
        ('w1p1text', dict(InitWin=1, PktSize=1, MaxUnits=3, DTs='{0}'), n // 2,
         30, 'text'),
    ]
    cc.replay_all(ctx, 'C08', 'c08', sims, ctx.seed + 11)

    # ---- both directions at once (Lifecycle with windows): a WINDOW_ADJUST is
    # about the receiver's OWN sending direction and legal in every receive
    # state; as long as the reader reads, everything written arrives ----
    cc.duplex_flow(ctx, 'C08', quick, DUPLEX, ctx.seed + 23)
    # ---- code -> spec: recorded natural executions validated by TLC ----
    cc.trace_validation(ctx, 'C08', quick)
    # ---- the reader is a stream session (readline / readuntil / async for
    # over runs longer than the window): its pause / resume bookkeeping decides
    # when the window is re-opened; a reader that keeps reading gets every byte
    # (scenarios of builder-stream, shared with C19) ----
    from harness.drivers import stream as stream_drv
    stream_drv.stream_reader_flow(ctx, quick)
    # ---- raw peer: extreme values, peer ignoring the window ----
    from harness.drivers import chan_raw
    values = (0, 1, 2, 0xffffffff) if quick else \
        (0, 1, 2, 3, 255, 256, 32768, 0x7fffffff, 0xffffffff)
    for case, bad in chan_raw.extreme_size_cases(
            values, quirks=('none', 'dropbear_zlib')):
        ctx.count(('extreme', case['window'], case['pktsize'], case['quirk']))
        mine = [b for b in bad if b.startswith('C08')]
        if mine:
            ctx.violation({'module': 'ChannelRaw', 'kind': 'extreme',
                           'window': case['window'],
                           'pktsize': case['pktsize'],
                           'quirk': case['quirk']},
                          f'peer {case["quirk"]}: ' + '; '.join(mine),
                          replay={'kind': 'extreme', **case})
    # the same with the roles swapped: the real client is the opener and a
    # raw server confirms the channel with these values
    for quirk in ('none', 'dropbear_zlib'):
        for win_ in values:
            for pkt_ in values:
                case, bad = chan_raw.extreme_size_cases_client(quirk, win_,
                                                               pkt_)
                ctx.count(('extreme-client', win_, pkt_, quirk))
                mine = [b for b in bad if b.startswith('C08')]
                if mine:
                    ctx.violation({'module': 'ChannelRaw', 'kind':
                                   'extreme-client', 'window': win_,
                                   'pktsize': pkt_, 'quirk': quirk},
                                  f'peer {quirk} (server role): '
                                  + '; '.join(mine),
                                  replay={'kind': 'extreme-client', **case})
    for window in ((100,) if quick else (1, 2, 100, 65536)):
        for case, bad in chan_raw.excess_cases(window):
            ctx.count(('excess', window, case['paused'], case['shape']))
            mine = [b for b in bad if b.startswith('C08')]
            if mine:
                ctx.violation({'module': 'ChannelRaw', 'kind': 'excess',
                               **case}, '; '.join(mine),
                              replay={'kind': 'excess', 'window': window,
                                      **case})
    ctx.assumptions += [
        'one data unit of the model = one byte (x1) or 1024 bytes (x1k)',
        'liveness is checked on the model (TLC, weak fairness of network '
        'delivery and of the reader resuming); on the code it is checked as '
        '"after resuming every reader and delivering everything in flight, '
        'all written bytes arrived"',
    ]


if __name__ == '__main__':
    run_check('C08', main)
