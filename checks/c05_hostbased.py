"""C05, host-based authentication (server side).  Called from checks/c05.py
as `c05_hostbased.run(ctx, quick)`.

1. TLC checks specs/Auth/HostBased.tla - the decision "is this hostbased
   request granted", transcribed from connection.py validate_host_based_auth /
   _match_known_hosts / _validate_host_key / _validate_openssh_host_
   certificate - over the table trust_client_host x reverse name of the peer
   address x claimed client host (own, another listed, unlisted, trailing dot)
   x key presented (listed for the peer's name, for another host, for the
   address, unlisted, revoked, certificates of listed / unlisted CAs with
   various principals) x signature (valid, other session id, other key) x
   client user name x validate_host_based_user answer x method enabled x an
   earlier refused request on the connection: HostBasedSound,
   ClaimDecidesNothing, RevokedNeverGranted, DisabledNeverGranted,
   NoCarryOver.  The wrong rule LookupByClaimedHost must be rejected; so must
   the model in which keys looked up for an earlier request stay trusted.
2. Every row is sent by a raw client to a real server (real known_hosts
   text, keys, host certificates; reverse lookup driven by the harness);
   granted = USERAUTH_SUCCESS + auth_completed for the user + session channel
   accepted.  Granted by the code but not by the rule -> VIOLATION; any other
   disagreement -> model divergence.
"""

import os
from concurrent.futures import ThreadPoolExecutor

from harness import tlc
from harness.framework import VERIF

SPEC = os.path.join(VERIF, 'specs', 'Auth')
INVS = ['HostBasedSound', 'ClaimDecidesNothing', 'RevokedNeverGranted',
        'DisabledNeverGranted', 'NoCarryOver']

# keys of known_client_hosts entries matched for an EARLIER hostbased request
# on the connection stay in _trusted_host_keys (the set is only ever added
# to): with trust_client_host a key listed for host B is then accepted for a
# request claiming host A.  fixes/C05h_trusted_client_host_keys_per_request.patch
STALE_KEYS_FINDING = {'module': 'HostBased',
                      'finding': 'trusted-host-keys-accumulate'}


def tlc_job(tag, consts, invariants, workers=1):
    tag = f'{tag}_{os.getpid()}'
    d = dict(HTier='"quick"', LookupByClaimedHost='FALSE', Accumulate='FALSE')
    d.update(consts)
    cfg = f'_{tag}.cfg'
    lines = ['CONSTANTS'] + [f'  {k} = {v}' for k, v in d.items()]
    lines += ['SPECIFICATION Spec', 'CHECK_DEADLOCK FALSE']
    lines += [f'INVARIANT {i}' for i in invariants]
    with open(os.path.join(SPEC, cfg), 'w') as f:
        f.write('\n'.join(lines) + '\n')
    try:
        return tlc.run(SPEC, 'HostBased', cfg, tag, timeout=900,
                       workers=workers)
    finally:
        os.remove(os.path.join(SPEC, cfg))
        tlc.cleanup(tag)


def run(ctx, quick):
    from harness.drivers import hostbased as H
    tier = 'quick' if quick else 'thorough'
    res = tlc_job('C05h_tab', dict(HTier=f'"{tier}"'), INVS + ['EmitRow'])
    ctx.require_tlc_ok(f'HostBased table + invariants {tier}', res)
    pool = ThreadPoolExecutor(max_workers=2)
    jobs = [
        ('HostBased LookupByClaimedHost (wrong rule, expected to violate '
         'HostBasedSound)', 'HostBasedSound',
         pool.submit(tlc_job, 'C05h_s1', dict(LookupByClaimedHost='TRUE'),
                     ['HostBasedSound'])),
        ('HostBased LookupByClaimedHost (expected to violate '
         'ClaimDecidesNothing)', 'ClaimDecidesNothing',
         pool.submit(tlc_job, 'C05h_s2', dict(LookupByClaimedHost='TRUE'),
                     ['ClaimDecidesNothing'])),
        ('HostBased Accumulate (trusted keys of earlier requests kept; '
         'expected to violate NoCarryOver)', 'NoCarryOver',
         pool.submit(tlc_job, 'C05h_s3', dict(Accumulate='TRUE'),
                     ['NoCarryOver'])),
    ]
    hpool, rows = None, []
    for line in res.output.splitlines():
        if line.startswith('"<<\\"HBPOOL'):
            hpool = H.to_pool(tlc.parse_value(tlc.parse_value(line)))
        elif line.startswith('"<<\\"HBROW'):
            v = tlc.parse_value(tlc.parse_value(line))
            rows.append((v[1], v[2]))
    ctx.require(hpool is not None and len(rows) >= (700 if quick else 1500),
                f'HostBased table has {len(rows)} rows')
    try:
        n = granted = 0
        for r, verdict in rows:
            n += 1
            granted += judge(ctx, H, r, verdict, hpool, n)
        ctx.traces_validated(n)
        ctx.coverage['hostbased_rows'] = n
        ctx.coverage['hostbased_rows_granted'] = granted
        ctx.require(granted > 20, f'only {granted} host-based rows granted: '
                    f'the positive direction is not exercised')
    finally:
        pool.shutdown(wait=True)
    for name, inv, fut in jobs:
        ctx.require_tlc_ok(name, fut.result(), expect_violation=inv)
    ctx.assumptions += [
        'HostBased: reverse lookup answers are supplied by the harness '
        '(virtual loop getnameinfo); known_client_hosts entries match the '
        'believed host NAME or the peer ADDRESS (as match_known_hosts does); '
        'X.509 host certificates and validate_host_public_key / '
        'validate_host_ca_key callbacks are outside the table',
    ]
    ctx.notes.append(
        'HostBased: modelled as coded and not alarmed: a host certificate '
        'without principals is valid for every host')


def judge(ctx, H, r, verdict, hpool, n):
    row = H.to_row(r)
    obs = H.run_row(row, hpool)
    desc = H.describe(row)
    ctx.count(('hostbased', row['sec'], desc), nontrivial=True)
    replay = {'kind': 'hostbased', 'row': row, 'pool': hpool,
              'spec_verdict': verdict, 'observed': obs}
    if n % 97 == 1:
        ctx.sample({'row': desc, 'spec': verdict['granted'],
                    'observed': obs['replies']})
    if obs['errors'] or obs['loop_exceptions']:
        ctx.divergence(f'hostbased {desc}: harness trouble {obs["errors"]} '
                       f'{obs["loop_exceptions"]}')
        return 0
    if row['prior']:
        first = obs['replies'][0] == 'success'
        if first != verdict['priorGranted']:
            if first:
                ctx.violation({'module': 'HostBased', 'clause':
                               'HostBasedSound', 'section': 'prior-first'},
                              f'hostbased request granted against the rule: '
                              f'{desc} (first request)', replay=replay)
            else:
                ctx.divergence(f'hostbased {desc}: first request: model '
                               f'grants, code refuses')
            return 0
        if first:
            return 1
    got = obs['replies'][-1] == 'success'
    if got and (obs['completed'] != row['req']['user'] or not obs['session']):
        ctx.divergence(f'hostbased {desc}: SUCCESS but auth_completed='
                       f'{obs["completed"]} session={obs["session"]}')
    want = verdict['granted']
    if got and not want:
        q = row['req']
        if verdict['coded']:
            ctx.violation(STALE_KEYS_FINDING,
                          f'host key looked up for an earlier request is '
                          f'still trusted: {desc}', replay=replay)
        else:
            ctx.violation({'module': 'HostBased', 'clause': 'HostBasedSound',
                           'section': row['sec'], 'trust': row['trust'],
                           'cred': 'cert' if q['cred']['ca'] != '-' else 'key',
                           'claimed_is_peer': q['claimed'] == row['rdns'],
                           'sig': q['sig'], 'vuser': row['vuser']},
                          f'hostbased request granted although the '
                          f'credential check for the host the server '
                          f'believes the client to be does not succeed: '
                          f'{desc}', replay=replay)
    elif want and not got:
        ctx.divergence(f'hostbased {desc}: model grants, code refuses')
    if obs['vcalls'] and obs['vcalls'][-1][1] != verdict['shown']:
        ctx.divergence(f'hostbased {desc}: validate_host_based_user was '
                       f'shown host {obs["vcalls"][-1][1]!r}, model '
                       f'{verdict["shown"]!r}')
    return int(got)
