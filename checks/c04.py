"""C04 - the client only talks to a server whose host key it trusts.

1. TLC checks specs/HostTrust: the client's decision procedure (known_hosts
   lookup for host/address/port with the [host]:port -> plain name
   fall-back, revoked / trusted / CA sets, callbacks, certificate type,
   validity window, principals, certificate signature, proof of possession)
   against the property written out (TrustRule), plus NoCredsBeforeTrust,
   over every known_hosts content of <= 2 (thorough: 3) abstract lines,
   both port classes and every server presentation.  Sensitivity runs: the
   lookup as known_hosts.py performs it today (revoked entries found for
   [host]:port are dropped when the lookup falls back to the plain name),
   a decision that ignores the revoked set, a decision that ignores
   principals -- each must be rejected by TLC.
2. The decision table TLC prints is materialised case by case: real keys
   (ed25519 / ecdsa / rsa), real certificates, known_hosts text in every
   spelling (plain, hashed, wildcard, negated, CIDR, [host]:port, lists,
   several matching lines; bytes / file / object), host by name, by alias,
   by address; a real connection attempt is made and judged:
   usable  => TrustRule;  not TrustRule => host-key error and no
   credentials (server never sees an authentication request, client never
   sends NEWKEYS).
"""

import os
import random
import shutil
import tempfile
import warnings

from harness import tlc
from harness.framework import run_check, MachineryError, VERIF

SPEC = os.path.join(VERIF, 'specs', 'HostTrust')
INVS = ['DecisionMatchesRule', 'RuleMatchesDecision', 'CredsOnlyIfTrusted']
PROPS = ['NoCredsBeforeTrust']
HOSTKEY_ERRORS = ('HostKeyNotVerifiable', 'KeyExchangeFailed')


def write_cfg(name, invariants=(), properties=(), **consts):
    d = dict(MaxLines=2, LineKeys='{"K1", "K2", "CA1", "CA2"}',
             Focus='"lines"', SetSize=3, Mu='"none"', Emit='FALSE')
    d.update(consts)
    lines = ['CONSTANTS'] + [f'  {k} = {v}' for k, v in d.items()]
    lines += ['SPECIFICATION Spec', 'CHECK_DEADLOCK FALSE']
    lines += [f'INVARIANT {i}' for i in invariants]
    lines += [f'PROPERTY {p}' for p in properties]
    with open(os.path.join(SPEC, name), 'w') as f:
        f.write('\n'.join(lines) + '\n')
    return name


_EX = [None]


def start_pool(ctx, n):
    """TLC runs are independent JVMs: started in the background (n at a
    time), joined where their result is needed."""
    from concurrent.futures import ThreadPoolExecutor
    _EX[0] = ThreadPoolExecutor(n)
    ctx._pending = []


def join_all(ctx):
    for r in getattr(ctx, '_pending', []):
        r()


def tlc_run(ctx, label, invariants=INVS, properties=PROPS, expect=None,
            workers=8, **consts):
    """-> callable that waits for the run and registers its verdict."""
    tag = 'c04_' + ''.join(ch if ch.isalnum() else '_' for ch in label)[:60]
    cfg = write_cfg(f'_{tag}.cfg', invariants, properties, **consts)

    def job():
        try:
            return tlc.run(SPEC, 'HostTrust', cfg, tag, workers=workers,
                           timeout=2400)
        finally:
            os.remove(os.path.join(SPEC, cfg))
            tlc.cleanup(tag)
    fut = _EX[0].submit(job)
    box = {}

    def resolve():
        if 'res' not in box:
            box['res'] = fut.result()
            ctx.require_tlc_ok(f'HostTrust {label}', box['res'],
                               expect_violation=expect)
        return box['res']
    ctx._pending.append(resolve)
    return resolve


def emit_cases(ctx, label, **consts):
    """-> callable returning the case table."""
    run = tlc_run(ctx, label + ' (exhaustive, prints the case table)',
                  invariants=INVS + ['Emitted'], properties=PROPS, workers=1,
                  Emit='TRUE', **consts)

    def table():
        res = run()
        cases = []
        from harness.drivers.handshake import printed_cases
        for v in printed_cases(res.output):
            if isinstance(v, list) and v and v[0] == 'case':
                cases.append(dict(lines=v[1], port=v[2], mode=v[3],
                                  cbKey=v[4], cbCA=v[5], pres=v[6],
                                  rule=v[7], disc=sorted(v[8]['$set']),
                                  trusted=sorted(v[9]['$set']),
                                  cas=sorted(v[10]['$set']),
                                  revoked=sorted(v[11]['$set']),
                                  userSet=v[12], globalSet=v[13],
                                  shape=v[14], hostform=v[15], now=v[16]))
        ctx.require(cases, f'no cases printed by TLC for {label}')
        return cases
    return table


def main(ctx):
    warnings.filterwarnings('ignore')
    from harness.drivers import host_trust as HT
    quick = ctx.tier == 'quick'
    rnd = random.Random(ctx.seed + 4)

    if ctx.replay_path:
        import json
        with open(ctx.replay_path) as f:
            rp = json.load(f)['replay']
        case = dict(rp['case'], rule=rp['rule'],
                    disc=rp.get('disc', ['dropPortRevoked'] if
                                rp.get('asis') else []),
                    shuffle=rp.get('shuffle', False),
                    force_forms=rp.get('force_forms'))
        sets = rp.get('sets') or [[], [], []]
        case.update(trusted=sets[0], cas=sets[1], revoked=sets[2])
        os.makedirs(tlc.WORK, exist_ok=True)
        work = tempfile.mkdtemp(prefix='c04_kh_', dir=tlc.WORK)
        if rp.get('opt'):
            case['opt_slice'] = True
        try:
            r = HT.attempt(case, rp['variant'], workdir=work,
                           opt=rp.get('opt'))
        finally:
            if work:
                shutil.rmtree(work, ignore_errors=True)
        tally = {}
        judge(ctx, HT, 'replay', case, rp['variant'], r, tally)
        print(f'replayed: rule={case["rule"]} accepted={r.accepted} '
              f'error={r.exc_class}: {r.exc} server_begin_auth='
              f'{r.server_begin_auth}\nknown_hosts:\n{r.kh_text}')
        ctx.traces_validated(1)
        ctx.level = 'exploration'
        return

    start_pool(ctx, 4 if quick else 3)
    # ---- 2. the decision table, materialised ------------------------------
    tables = [
        ('lines', emit_cases(ctx, 'lines <= 2, both ports, key and good '
                             'certificate'), 900 if quick else None)]
    tables.append(('cbcert', emit_cases(
        ctx, 'owner callbacks x CA listed / not listed / revoked x every '
        'certificate defect', Focus='"cbcert"'), 450 if quick else None))
    tables.append(('shape', emit_cases(
        ctx, 'connection shape (direct / tunnelled) x host as name, IPv4, '
        'IPv6 literal x what the pattern matches through',
        Focus='"shape"', LineKeys='{"K1", "CA1"}'),
        450 if quick else None))
    tables.append(('time', emit_cases(
        ctx, 'one certificate while the clock advances', Focus='"time"'),
        None))
    tables.append(('sources', emit_cases(
        ctx, 'where the trust data comes from: default file, '
        'UserKnownHostsFile / GlobalKnownHostsFile, lines split over them',
        Focus='"sources"', LineKeys='{"K1", "CA1"}'),
        400 if quick else None))
    tables.append(('sets3', emit_cases(
        ctx, 'sets of 3 matching lines over K1, K2, CA1, other port',
        Focus='"sets"', LineKeys='{"K1", "K2", "CA1"}', SetSize=3),
        400 if quick else None))
    tables += [
        ('cert', emit_cases(ctx, 'certificate attributes', Focus='"cert"'),
         500 if quick else None),
        ('callbacks', emit_cases(ctx, 'callbacks', Focus='"callbacks"',
                                 MaxLines=1), 250 if quick else None),
        ('trustall', emit_cases(ctx, 'known_hosts=None', Focus='"trustall"'),
         200 if quick else None),
    ]
    if not quick:
        tables.append(('sets4', emit_cases(
            ctx, 'sets of 4 matching lines over K1, K2, CA1, other port',
            Focus='"sets"', LineKeys='{"K1", "K2", "CA1"}', SetSize=4), 6000))
        tables.append(('lines3', emit_cases(
            ctx, 'lines <= 3 over K1, CA1', MaxLines=3,
            LineKeys='{"K1", "CA1"}'), 9000))

    # ---- 1. design check -------------------------------------------------
    # (the four base configurations are checked exhaustively by the runs
    # that also print the decision table, see below)
    if not quick:
        tlc_run(ctx, 'lines <= 3', MaxLines=3, workers=6,
                LineKeys='{"K1", "K2", "CA1"}')
        tlc_run(ctx, 'callbacks, lines <= 2', Focus='"callbacks"',
                workers=6)
    sens = [('dropPortRevoked', dict()),
            ('orRevoked', dict(Focus='"sets"',
                               LineKeys='{"K1", "K2", "CA1"}')),
            ('skipRevokedKey', dict(LineKeys='{"K1", "CA1"}')),
            ('princIgnored', dict(Focus='"cert"')),
            ('cbWaivesCertChecks', dict(Focus='"cbcert"')),
            ('clockFrozenAtStart', dict(Focus='"time"')),
            ('cidrNeedsPeerAddr', dict(Focus='"shape"',
                                       LineKeys='{"K1", "CA1"}')),
            ('globalOnlyFallback', dict(Focus='"sources"',
                                        LineKeys='{"K1", "CA1"}'))]
    if not quick:
        sens += [('fbIgnoresCA', {}),
                 ('firstFileOnly', dict(Focus='"sources"',
                                        LineKeys='{"K1", "CA1"}')),
                 ('globalRevokedIgnored', dict(Focus='"sources"',
                                               LineKeys='{"K1", "CA1"}')), ('cbWaivesWindow', dict(Focus='"cbcert"')),
                 ('cbKeyForCert', dict(Focus='"cbcert"')), ('vbInclusive', dict(Focus='"cert"')), ('holdsIgnored', dict(MaxLines=1)),
                 ('trustAllSkipsSig', dict(Focus='"trustall"')),
                 ('cbCAForRevoked', dict(Focus='"callbacks"', MaxLines=1)),
                 ('certSigIgnored', dict(Focus='"cert"'))]
    for mu, kw in sens:
        tlc_run(ctx, f'sensitivity: decision variant {mu}', Mu=f'"{mu}"',
                workers=2 if quick else 6,
                expect='DecisionMatchesRule',
                invariants=['DecisionMatchesRule'], properties=(), **kw)
    if not quick:
        tlc_run(ctx, 'witness: acceptance through the plain-name fall-back',
                expect='NeverFallbackAccept', workers=6,
                invariants=['NeverFallbackAccept'],
                properties=())

    os.makedirs(tlc.WORK, exist_ok=True)
    work = tempfile.mkdtemp(prefix='c04_kh_', dir=tlc.WORK)
    tally = {}
    total = 0
    try:
        resolved = {}
        # the long tables were submitted first; consume the short ones
        # first so that the replay overlaps with the remaining TLC runs
        order = ['time', 'cert', 'trustall', 'callbacks', 'cbcert', 'shape',
                 'sources',
                 'sets3', 'lines', 'sets4', 'lines3']
        tables.sort(key=lambda t: order.index(t[0]))
        for tname, tablef, limit in tables:
            table = resolved[tname] = tablef()
            ctx.notes.append(f'table {tname}: {len(table)} cases from TLC, '
                             f'{min(limit or len(table), len(table))} '
                             f'materialised')
            idx = list(range(len(table)))
            rnd.shuffle(idx)
            if limit is not None and limit < len(idx):
                idx = stratified(table, idx, limit, 10 if quick else 60)
            if tname == 'time':
                # the same process looks at each certificate at several
                # clock values, forwards and backwards in time
                fwd = sorted(range(len(table)), key=lambda i: table[i]['now'])
                idx = fwd + fwd[::-1] + fwd
            for n, i in enumerate(idx):
                case = table[i]
                if tname == 'time':
                    case = dict(case, time_focus=True)
                variant = rnd.randrange(1 << 20)
                if tname.startswith('sets'):
                    case = dict(case, shuffle=True)
                r = HT.attempt(case, variant, workdir=work)
                total += 1
                judge(ctx, HT, tname, case, variant, r, tally)
                if total % 397 == 1:
                    ctx.sample({'table': tname, 'case': slim(case),
                                'known_hosts': r.kh_text[:400],
                                'forms': r.forms, 'info': r.info,
                                'rule': case['rule'], 'accepted': r.accepted,
                                'error': r.exc_class,
                                'server_saw_auth': r.server_begin_auth})
        # ---- 2b. every pair of spellings of two lines ---------------------
        # a line that matches (decoy key) next to a line that does not
        # match (the presented key / CA), in both orders: lines must not
        # influence each other whatever their spelling
        L2 = lambda mk, mt, k: {'marker': mk, 'match': mt, 'key': k,
                                'src': 'arg', 'via': 'name'}
        good = {'key': 'K1', 'kind': 'key', 'ca': 'none', 'type': 'host',
                'win': 'in', 'princ': 'covers', 'certSig': True,
                'holds': True}
        goodc = dict(good, kind='cert', ca='CA1')
        npair = 0
        for port in ('def', 'nondef'):
            nn = len(HT.pattern_forms('name', port, HT.HOST, HT.HOST))
            no = len(HT.pattern_forms('none', port, HT.HOST, HT.HOST))
            for mk, kx, ky, pres in (('plain', 'K2', 'K1', good),
                                     ('ca', 'CA2', 'CA1', goodc)):
                for i in range(nn):
                    for j in range(no):
                        if quick and (mk == 'ca' or port == 'nondef') and \
                                (i + j + ctx.seed) % 4:
                            continue
                        for rev in (False, True):
                            lines = [L2(mk, 'name', kx), L2(mk, 'none', ky)]
                            ff = [i, j]
                            if rev:
                                lines.reverse()
                                ff.reverse()
                            case = dict(lines=lines, port=port, mode='file',
                                        cbKey=False, cbCA=False, pres=pres,
                                        rule=False, disc=[], trusted=[],
                                        cas=[], revoked=[], force_forms=ff)
                            # variant 0: host by name, no alias, bytes
                            r = HT.attempt(case, 0, workdir=work)
                            total += 1
                            npair += 1
                            judge(ctx, HT, 'spelling pairs', case, 0, r,
                                  tally)
        ctx.notes.append(f'pairs of spellings of two lines: {npair} attempts')
        # ---- 3. client options that must not change the decision --------
        base = resolved
        core = core_cases(base['lines'])
        ctx.require(len(core) == 5, f'core cases not found: {len(core)}')
        pool = []
        for tname in ('lines', 'sets3', 'cert'):
            idx = list(range(len(base[tname])))
            rnd.shuffle(idx)
            pool += [base[tname][i] for i in
                     stratified(base[tname], idx, 0, 2)]
        nopt = 0
        for n, opt in enumerate(HT.OPTION_SETTINGS):
            rows = list(pool)
            rnd.shuffle(rows)
            rows = core + (rows[:15] if quick else rows)
            for case in rows:
                variant = rnd.randrange(1 << 20)
                case = dict(case, opt_slice=True,
                            shuffle=len(case['lines']) == 3)
                r = HT.attempt(case, variant, workdir=work, opt=opt)
                total += 1
                nopt += 1
                judge(ctx, HT, 'options', case, variant, r, tally)
                if nopt % 131 == 7:
                    ctx.sample({'options': r.info['opt'],
                                'case': slim(case), 'rule': case['rule'],
                                'accepted': r.accepted,
                                'error': r.exc_class})
        ctx.notes.append(f'client option settings: '
                         f'{len(HT.OPTION_SETTINGS)} settings x '
                         f'{nopt // len(HT.OPTION_SETTINGS)} cases '
                         f'(x509_trusted_certs default/None/[], '
                         f'x509_trusted_cert_paths, x509_purposes, '
                         f'known_hosts as path / list of paths / bytes / '
                         f'SSHKnownHosts / callable / 3- and 7-tuple of key '
                         f'lists, server_host_key_algs explicit / "default" '
                         f'/ derived / restricted)')
    finally:
        shutil.rmtree(work, ignore_errors=True)
    join_all(ctx)
    ctx.traces_validated(total)
    ctx.notes.append('outcomes (rule, accepted, error class): ' + ', '.join(
        f'{k}={v}' for k, v in sorted(tally.items(), key=str)))
    ctx.require(sum(v for k, v in tally.items() if k[0] is True and k[1]) > 100 and
                sum(v for k, v in tally.items() if k[0] is False and not k[1]) > 100,
                f'replay is vacuous: {tally}')
    ctx.notes.append(
        'observation (not judged): a host certificate whose certified key '
        'is listed @revoked is accepted; only the CA is looked up in the '
        'revoked set (connection.py _validate_openssh_host_certificate); '
        'the property asks for a non-revoked CA only')
    ctx.assumptions += [
        'certificate validity is judged at a fixed instant: the `time` '
        'module seen by asyncssh.public_key is replaced by a shim so that '
        'valid_after == now and valid_before == now are hit exactly',
        'credentials on the wire are observed at the server (begin_auth / '
        'validate_password) and by the cleartext packet types the client '
        'emitted before NEWKEYS',
        '"server lies about its key": the server presents K1 (or a '
        'certificate for K1) and signs the exchange hash with K2',
        'X.509 host certificates are not enumerated',
    ]


def core_cases(table):
    """trusted plain key, revoked plain key, trusted CA certificate,
    revoked CA, untrusted key (default port)."""
    L = lambda mk, k: {'marker': mk, 'match': 'name', 'key': k,
                       'src': 'arg', 'via': 'name'}
    want = [([L('plain', 'K1')], 'key'),
            ([L('plain', 'K1'), L('revoked', 'K1')], 'key'),
            ([L('ca', 'CA1')], 'cert'),
            ([L('ca', 'CA1'), L('revoked', 'CA1')], 'cert'),
            ([L('plain', 'K2')], 'key')]
    out = []
    for lines, kind in want:
        for c in table:
            if c['lines'] == lines and c['port'] == 'def' and \
                    c['pres']['kind'] == kind and c['pres']['holds']:
                out.append(c)
                break
    return out


def near_miss(case):
    """A rejected case in which the presented key / CA does occur on a
    line: revoked, listed for another name or port, wrong marker ..."""
    who = case['pres']['key'] if case['pres']['kind'] == 'key' \
        else case['pres']['ca']
    return any(l['key'] == who for l in case['lines'])


GOOD_WIN = ('in', 'startsNow', 'endsNext')


def pres_faults(p):
    if p['kind'] == 'key':
        return 0 if p['holds'] else 1
    return ((p['type'] != 'host') + (p['win'] not in GOOD_WIN) +
            (p['princ'] == 'other') + (not p['certSig']) + (not p['holds']))


def stratified(table, idx, limit, per_variant):
    """Sample that keeps (a) for every decision variant of the
    specification up to per_variant rows which that variant would decide
    differently (the rows that can tell a deviating implementation from
    the rule), (b) rejections that are one fault away from an acceptance,
    (c) acceptances, (d) other rejections."""
    # is the trust configuration fine for a faultless presentation?
    env_ok = {}
    for c in table:
        if c['rule'] and pres_faults(c['pres']) == 0:
            env_ok[str((c['lines'], c['port'], c['mode'], c['cbKey'],
                        c['cbCA'], c['pres']['kind']))] = True

    def one_fault(c):
        k = str((c['lines'], c['port'], c['mode'], c['cbKey'], c['cbCA'],
                 c['pres']['kind']))
        f = pres_faults(c['pres'])
        return (f == 1 and env_ok.get(k, False)) or \
            (f == 0 and near_miss(c))
    taken = {}
    a = []
    for i in idx:                       # idx is already shuffled
        new = [m for m in table[i]['disc']
               if taken.get((m, table[i]['rule']), 0) < per_variant]
        if new:
            a.append(i)
            for m in table[i]['disc']:
                taken[m, table[i]['rule']] = \
                    taken.get((m, table[i]['rule']), 0) + 1
    aset = set(a)
    rest = [i for i in idx if i not in aset]
    b = [i for i in rest if not table[i]['rule'] and one_fault(table[i])]
    c = [i for i in rest if table[i]['rule']]
    d = [i for i in rest if not table[i]['rule'] and
         not one_fault(table[i])]
    left = max(0, limit - len(a))
    nb = min(len(b), left * 50 // 100)
    nc = min(len(c), left * 30 // 100)
    nd = max(0, left - nb - nc)
    return a + b[:nb] + c[:nc] + d[:nd]


def slim(case):
    d = {k: case[k] for k in ('lines', 'port', 'mode', 'cbKey', 'cbCA',
                              'pres')}
    if case.get('userSet', 'na') != 'na':
        d['userSet'], d['globalSet'] = case['userSet'], case['globalSet']
    if case.get('shape', 'na') != 'na':
        d['shape'], d['hostform'] = case['shape'], case['hostform']
    if case.get('time_focus'):
        d['now'], d['time_focus'] = case['now'], True
    return d


def judge(ctx, HT, tname, case, variant, r, tally):
    rule = case['rule']
    key = (rule, r.accepted, r.exc_class)
    tally[key] = tally.get(key, 0) + 1
    ctx.count((tname, str(slim(case)), tuple(r.forms), r.info['ktype'],
               r.info['alias'], r.info['by_addr']), nontrivial=True)
    replay = {'kind': 'host_trust', 'case': slim(case), 'variant': variant,
              'rule': case['rule'], 'disc': case['disc'],
              'sets': [case.get('trusted', []), case.get('cas', []),
                       case.get('revoked', [])],
              'opt': r.info.get('opt') if case.get('opt_slice') else None,
              'shuffle': bool(case.get('shuffle')),
              'force_forms': case.get('force_forms'),
              'known_hosts': r.kh_text, 'forms': r.forms, 'info': r.info}
    if r.mitm_errors:
        raise MachineryError(f'wire observer failed: {r.mitm_errors}')
    if r.hung:
        ctx.divergence(f'{tname}: connection attempt never finished: '
                       f'{slim(case)}')
        return
    creds = r.server_begin_auth > 0 or bool(r.server_passwords)
    if not rule:
        if 'dropPortRevoked' in case['disc'] and (r.accepted or creds):
            sig = {'module': 'HostTrust',
                   'finding': 'revoked [host]:port entry dropped by the '
                              'plain-name fall-back'}
        else:
            sig = {'module': 'HostTrust', 'case': slim(case)}
        if case.get('opt_slice'):
            sig = {'module': 'HostTrust', 'options': r.info['opt'],
                   'case': slim(case)}
        if r.accepted:
            ctx.violation(dict(sig, clause='usable-only-if-trusted'),
                          f'connection became usable although the trust '
                          f'configuration does not accept the server: '
                          f'{slim(case)}; known_hosts={r.kh_text!r} '
                          f'({r.forms}); {r.info}', replay=replay)
        elif creds:
            ctx.violation(dict(sig, clause='no-credentials-before-trust'),
                          f'server received an authentication request '
                          f'(begin_auth x{r.server_begin_auth}, passwords '
                          f'{len(r.server_passwords)}) from a client that '
                          f'must reject it: {slim(case)}', replay=replay)
        elif r.exc_class not in HOSTKEY_ERRORS:
            ctx.violation({'module': 'HostTrust', 'clause': 'host-key-error',
                           'error': r.exc_class,
                           'kind': case['pres']['kind']},
                          f'rejected, but not with a host-key error: '
                          f'{r.exc_class}: {r.exc}: {slim(case)}',
                          replay=replay)
        if not r.accepted and r.client_sent_newkeys:
            ctx.divergence(f'{tname}: client sent NEWKEYS although it '
                           f'rejected the host key: {slim(case)}')
        if not r.accepted and r.client_auth_events:
            ctx.divergence(f'{tname}: client auth callbacks fired in a '
                           f'rejected case: {r.client_auth_events}')
    else:
        if not r.accepted and not r.info['offer_all'] and \
                'compatible server host key' in str(r.exc):
            # the client offered only the algorithms of the keys / CAs it
            # found in known_hosts and the server has no key of such a type:
            # refused before the decision modelled here is reached
            tally['not comparable: key type not offered'] = \
                tally.get('not comparable: key type not offered', 0) + 1
        elif not r.accepted:
            ctx.divergence(f'{tname}: trusted server refused '
                           f'({r.exc_class}: {r.exc}): {slim(case)} '
                           f'forms={r.forms} info={r.info} '
                           f'kh={r.kh_text!r}')
        elif r.server_passwords != [HT.PASSWORD]:
            ctx.divergence(f'{tname}: accepted, but the password did not '
                           f'arrive: {r.server_passwords}')
    if r.loop_exceptions:
        ctx.divergence(f'{tname}: exception reached the event loop: '
                       f'{r.loop_exceptions[0][:200]}')


if __name__ == '__main__':
    run_check('C04', main)
