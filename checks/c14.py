"""C14 - each SFTP request gets exactly one matching, well-typed reply.

1. specs/SftpProto/SftpProto.tla (client waiter table): TLC exhausts K = 3
   outstanding requests x every reply sequence <<id, type>> incl. unknown id,
   duplicate id and wrong type against OwnReply, NoPhantomReply,
   UnknownIdFails, WaitsIffUnanswered, ExactlyOnce, and callers cancelled
   while their request is outstanding whose reply arrives late
   (EndsOnlyOnBadId, LateReplyHarmless); sensitivity: no type check / no
   fail-all on a bad id / late reply treated as a bad id must be rejected.
   Behaviours of specs/SftpIO with a failed block (the library cancels the
   sibling block requests, their replies arrive late) are replayed as well;
   after every behaviour without a bad id a new request must get its reply.  Sampled behaviours are
   replayed into the real SFTPClientHandler through the public SFTPClient API
   with a scripted peer sending the replies.
   specs/SftpProto/SftpValues.tla adds the VALUE a reply carries: for every
   request kind of the public API every legal reply with boundary values
   (handle of 0 / 1 / 256 bytes, data of 0 / 1 / many bytes, name list with
   0 / 1 / 2 entries with and without the end flag, attributes with no / one
   / many fields, extended reply, FX_OK where it is the answer, every status
   code 1..31 and an undefined one) in v3..6: the caller gets exactly that
   value or the error of that code, a handle is named again as issued and
   closed exactly once; "an empty value counts as missing" must be rejected.
   Every row is served by the scripted raw peer to the real client API.
   End of session is an action of SftpProto (clean exit, close by the peer,
   EOF inside a packet, loss of the connection with ConnectionLost / a
   DisconnectError / OSError / BrokenPipeError) with 0..3 requests
   outstanding: every caller is resolved exactly once within bounded virtual
   time (AllResolvedAtEnd; "an unclean loss leaves the callers waiting" must
   be rejected) and a request made afterwards fails at once; on the server
   side every ending closes each open file once and runs exit() once.
2. specs/SftpProto/SftpSrvCases.tla (server obligations + errno table as a
   case table): TLC checks the table and prints it; a raw SFTP client sends
   every request type intact, cut at every byte, extended, unsupported type
   numbers / extension names to the real SFTPServerHandler in versions 3..6
   and counts replies per request id, checks their type and that the session
   goes on; OSError / SFTPError raised by an SFTPServer subclass are compared
   with the table.  Fault class "the handler succeeded but its result cannot
   be encoded" (extreme attribute values, wrong types, wrong shapes, real
   files with pre-epoch / far-future times) x every attrs/name/extended-reply
   request x v3..6: one reply, success type with a body that an independent
   decoder parses, or a well-formed FXP_STATUS.  Every reply body of every
   server case goes through that independent decoder.
   specs/SftpProto/SftpHandles.tla (handle life cycle): open / opendir,
   close with the application's close() hook succeeding or raising, then any
   handle-taking request on live, wrong-kind, closed, never issued, empty and
   over-long handles; a handle is dead after the first CLOSE whatever the hook
   did, dead / unknown / wrong-kind handles earn the version's invalid-handle
   status, the hook runs at most once per open (counted in an SFTPServer
   subclass), READDIR keeps answering EOF, handle strings are not reused;
   sensitivity: removing the table entry only after the hook must be
   rejected.  Behaviours are replayed by the raw client in v3..6.
3. specs/SftpAttrs/SftpAttrs.tla (what each version carries): TLC enumerates
   field subsets x version and prints the expected carriage; every case is
   encoded and decoded with the real SFTPAttrs / SFTPName.
"""

import concurrent.futures
import json
import os
import random

from harness import tlc
from harness.framework import run_check, MachineryError, VERIF

PROTO = os.path.join(VERIF, 'specs', 'SftpProto')
ATTRS = os.path.join(VERIF, 'specs', 'SftpAttrs')
ALLKINDS = '{"status", "handle", "data", "name", "attrs", "extreply"}'


def cfg_file(spec, name, consts, invs=(), props=(), view=None):
    lines = ['CONSTANTS'] + [f'  {k} = {v}' for k, v in consts.items()]
    lines.append('SPECIFICATION Spec')
    if view:
        lines.append(f'VIEW {view}')
    lines += [f'INVARIANT {i}' for i in invs]
    lines += [f'PROPERTY {p}' for p in props]
    lines.append('CHECK_DEADLOCK FALSE')
    with open(os.path.join(spec, name), 'w') as f:
        f.write('\n'.join(lines) + '\n')
    return name


def run_tlc(spec, module, tag, consts, invs=(), props=(), view=None,
            workers=2, **kw):
    cfg = cfg_file(spec, f'_{tag}.cfg', consts, invs, props, view)
    try:
        return tlc.run(spec, module, cfg, tag, workers=workers, timeout=1500,
                       java_heap='3g', **kw)
    finally:
        tlc.cleanup(tag)
        os.remove(os.path.join(spec, cfg))


PROTO_CONSTS = dict(K=3, Kinds=ALLKINDS, MaxReplies=4, MaxCancels=1,
                    UnknownId=99, AllowUnknown='TRUE', CheckType='TRUE',
                    FailAll='TRUE', DropLate='TRUE', Ends='{}',
                    EndLeavesWaiters='FALSE')
ALL_ENDS = ('{"exit", "peer_close", "eof_mid", "conn_lost", "disconnect", '
            '"oserror", "brokenpipe"}')
PROTO_INVS = ['OwnReply', 'NoPhantomReply', 'UnknownIdFails',
              'WaitsIffUnanswered', 'EndsOnlyOnBadId', 'AllResolvedAtEnd']
PROTO_PROPS = ['ExactlyOnce', 'LateReplyHarmless']

ATTR_A = ('{"size", "alloc_size", "uid", "gid", "owner", "group", '
          '"permissions", "atime", "mtime", "atime_ns", "crtime", "extended"}')
ATTR_B = ('{"atime_ns", "crtime_ns", "mtime_ns", "ctime_ns", "ctime", "acl", '
          '"attrib_bits", "attrib_valid", "text_hint", "mime_type", "nlink", '
          '"untrans_name"}')
ATTR_C = ('{"size", "uid", "gid", "owner", "group", "permissions", "atime", '
          '"mtime", "mtime_ns", "crtime", "ctime", "ctime_ns", "acl", '
          '"attrib_bits", "attrib_valid", "nlink", "extended"}')
ATTR_INVS = ['NothingInvented', 'Monotone', 'DefinedSurvive', 'Table']


def main(ctx):
    from harness.drivers import sftp_io, sftp_proto
    quick = ctx.tier == 'quick'
    rnd = random.Random(ctx.seed * 104729 + 14)
    os.makedirs(tlc.WORK, exist_ok=True)
    seen = {}

    def violate(sig, what, replay=None, cap=6):
        key = (sig.get('module'), sig.get('clause'))
        seen[key] = seen.get(key, 0) + 1
        if seen[key] <= cap:
            ctx.violation(sig, what, replay=replay)

    if ctx.replay_path:
        with open(ctx.replay_path) as f:
            rp = json.load(f)['replay']
        ctx.count(('replay', ctx.replay_path))
        if rp['kind'] == 'client':
            replies = [tuple(x) for x in rp.get('events') or rp['replies']]
            r = sftp_proto.client_replay(rp['kinds'], replies, rp['version'])
            sftp_io.drop_world()
            print('observed:', r.get('observed'))
            for clause in sorted({c for c, _ in r['l1']}):
                violate({'module': 'SftpProto', 'clause': clause,
                         'kinds': rp['kinds'], 'events': replies,
                         'version': rp['version']},
                        '; '.join(t for c, t in r['l1'] if c == clause), rp)
        elif rp['kind'] == 'io':
            script = [tuple(x) if x[0] == 'start' else
                      ('ans', [tuple(a) for a in x[1]]) for x in rp['script']]
            r = sftp_io.replay(rp['cfg'], script, None,
                               version=rp['version'], variant=rp['variant'])
            sftp_io.drop_world()
            print('outcome:', r['outcome'], 'followup:', r.get('followup'))
            for clause, text in r['l1']:
                if clause == 'SessionSurvives':
                    violate({'module': 'SftpProto', 'clause': clause,
                             'cfg': rp['cfg'], 'script': r['script']}, text,
                            rp)
        elif rp['kind'] == 'attrs':
            # expectation of the intended table: every listed field survives
            # when the version defines it; recomputed by the TLC table run
            res = run_tlc(ATTRS, 'SftpAttrs', 'c14_attrs_r',
                          dict(Emit='TRUE', AllocGuard='FALSE',
                               PairRule='TRUE', Vary='{}',
                               Always=tlc.tla_str(set(rp['fields']))),
                          ATTR_INVS, workers=1)
            ctx.require_tlc_ok('SftpAttrs single case', res)
            for row in sftp_proto.printed_multiline(res.output):
                if row[0] != rp['v']:
                    continue
                l1, _div, _note = sftp_proto.attrs_case(
                    row[0], sorted(row[1]['$set']), row[2],
                    [tuple(x) for x in row[3]['$set']], row[4], row[5],
                    ftype=rp['type'], as_name=rp['as_name'])
                print('monitors:', l1)
                for clause, text in l1:
                    violate({'module': 'SftpAttrs', 'clause': clause,
                             'v': rp['v'], 'fields': rp['fields'],
                             'type': rp['type']}, text, rp)
        elif rp['kind'] == 'value':
            r = sftp_proto.value_case(rp['k'], rp['v'], rp['r'], rp['code'])
            sftp_io.drop_world()
            print('value case:', r['outcome'], r['closes'], r['l1'])
            for clause, text in r['l1']:
                violate({'module': 'SftpValues', 'clause': clause}
                        if clause == 'EmptyHandleNotClosed' else
                        {'module': 'SftpValues', 'clause': clause,
                         'kind': rp['k'], 'v': rp['v'], 'reply': rp['r'],
                         'code': rp['code']}, text, rp)
        elif rp['kind'] == 'handles':
            sw = sftp_proto.ServerWorld()
            try:
                script = [(tuple(l), None) for l in rp['script']]
                r = sftp_proto.handle_replay(sw, rp['v'], script)
            finally:
                sw.close()
            print('trace:', r['trace'], r['l1'])
            for clause, text in r['l1']:
                violate({'module': 'SftpHandles', 'clause': clause,
                         'v': rp['v'], 'script': rp['script']}, text, rp)
        elif rp['kind'] == 'server':
            sw = sftp_proto.ServerWorld()
            try:
                sess = sw.session(rp['v'])
                rid = sess.request(rp['ptype'], bytes.fromhex(rp['body']))
                probe = sess.exchange(16, sftp_proto.sstr(b'.') +
                                      (b'\x01' if rp['v'] >= 6 else b''))
                print(f'request id {rid}: probe answered: {probe is not None}'
                      f'; re-run the full check for the verdict')
            finally:
                sw.close()
        return

    # ---- TLC runs, in parallel JVMs ----------------------------------------
    jobs = {}
    with concurrent.futures.ThreadPoolExecutor(max_workers=4) as ex:
        pc = dict(PROTO_CONSTS) if quick else \
            dict(PROTO_CONSTS, K=4, MaxReplies=5, MaxCancels=2,
                 Kinds='{"status", "handle", "attrs"}')
        jobs['proto'] = ex.submit(
            run_tlc, PROTO, 'SftpProto', 'c14_proto', pc, PROTO_INVS,
            PROTO_PROPS, 'view', workers=2 if quick else 6)
        jobs['proto_ends'] = ex.submit(
            run_tlc, PROTO, 'SftpProto', 'c14_proto_ends',
            dict(PROTO_CONSTS, Ends=ALL_ENDS, MaxReplies=3,
                 Kinds='{"status", "handle", "attrs"}'), PROTO_INVS,
            PROTO_PROPS, 'view', workers=2)
        jobs['ends_leave'] = ex.submit(
            run_tlc, PROTO, 'SftpProto', 'c14_ends_leave',
            dict(PROTO_CONSTS, K=2, MaxReplies=2, Ends=ALL_ENDS,
                 EndLeavesWaiters='TRUE'), ['AllResolvedAtEnd'], (), 'view')
        d4 = tlc.workdir('c14_sim4_out')
        jobs['sim4'] = ex.submit(
            run_tlc, PROTO, 'SftpProto', 'c14_sim4',
            dict(PROTO_CONSTS, Ends=ALL_ENDS, AllowUnknown='FALSE',
                 MaxReplies=3), (), (), None, workers=4,
            simulate=f'file={d4}/tr,num={60 if quick else 800}', depth=7,
            seed=ctx.seed * 10 + 7, deadlock=False)
        jobs['proto2'] = ex.submit(
            run_tlc, PROTO, 'SftpProto', 'c14_proto2',
            dict(PROTO_CONSTS, MaxCancels=2, AllowUnknown='FALSE',
                 Kinds='{"status", "handle", "attrs"}'), PROTO_INVS,
            PROTO_PROPS, 'view', workers=2)
        small = dict(PROTO_CONSTS, K=2, MaxReplies=3)
        jobs['nodrop'] = ex.submit(
            run_tlc, PROTO, 'SftpProto', 'c14_nodrop',
            dict(small, DropLate='FALSE'), ['EndsOnlyOnBadId'], (), 'view')
        jobs['wit_late'] = ex.submit(
            run_tlc, PROTO, 'SftpProto', 'c14_witl', small,
            ['NeverLateReply'], (), 'view')
        jobs['notype'] = ex.submit(
            run_tlc, PROTO, 'SftpProto', 'c14_notype',
            dict(small, CheckType='FALSE'), ['OwnReply'], (), 'view')
        jobs['nofail'] = ex.submit(
            run_tlc, PROTO, 'SftpProto', 'c14_nofail',
            dict(small, FailAll='FALSE'), ['UnknownIdFails'], (), 'view')
        jobs['wit_value'] = ex.submit(
            run_tlc, PROTO, 'SftpProto', 'c14_witv', small, ['NeverValue'],
            (), 'view')
        jobs['wit_closed'] = ex.submit(
            run_tlc, PROTO, 'SftpProto', 'c14_witc', small, ['NeverClosed'],
            (), 'view')
        d = tlc.workdir('c14_sim_out')
        nsim = 110 if quick else 1200
        jobs['sim'] = ex.submit(
            run_tlc, PROTO, 'SftpProto', 'c14_sim', PROTO_CONSTS, (), (),
            None, workers=4, simulate=f'file={d}/tr,num={nsim}', depth=6,
            seed=ctx.seed * 10 + 3, deadlock=False)
        d2 = tlc.workdir('c14_sim2_out')
        jobs['sim2'] = ex.submit(
            run_tlc, PROTO, 'SftpProto', 'c14_sim2',
            dict(PROTO_CONSTS, K=2, MaxReplies=3), (), (), None, workers=2,
            simulate=f'file={d2}/tr,num={nsim // 2}', depth=5,
            seed=ctx.seed * 10 + 4, deadlock=False)
        # no unknown id: longer interleavings of replies to known ids, and
        # callers that are cancelled while their request is outstanding
        d3 = tlc.workdir('c14_sim3_out')
        jobs['sim3'] = ex.submit(
            run_tlc, PROTO, 'SftpProto', 'c14_sim3',
            dict(PROTO_CONSTS, AllowUnknown='FALSE', MaxCancels=2), (), (),
            None, workers=4, simulate=f'file={d3}/tr,num={nsim}', depth=8,
            seed=ctx.seed * 10 + 5, deadlock=False)
        # cancellation by the library itself: the parallel I/O layer cancels
        # the sibling block requests after one block failed (specs/SftpIO)
        from checks import c12
        jobs['sim_io'] = ex.submit(
            c12.sim, 'c14io', nsim, 24, ctx.seed * 10 + 6, workers=2,
            MaxN=6, Blocks='{1, 2}', MaxReqs='{2, 3}',
            Ops='{"read", "write", "get", "copy"}', SparseSet='{FALSE}',
            MaxAns=2)
        hc = dict(Slots='{1, 2}', MaxSteps=4, Hooks='{"ok", "oserr", "sftperr"}',
                  FileReqs='{"read", "write", "fstat", "fsetstat", "x_fsync", '
                           '"x_fstatvfs", "block", "unblock", "x_ranges"}',
                  DeleteAfterHook='FALSE')
        hinv = ['DeadIsInvalid', 'HooksOnce', 'ClosedAtEnd', 'TableSound']
        jobs['handles'] = ex.submit(
            run_tlc, PROTO, 'SftpHandles', 'c14_handles',
            hc if quick else dict(hc, Slots='{1, 2, 3}', MaxSteps=5), hinv,
            ['EofStays'], 'view', workers=2 if quick else 4)
        jobs['handles_dah'] = ex.submit(
            run_tlc, PROTO, 'SftpHandles', 'c14_handles_dah',
            dict(hc, DeleteAfterHook='TRUE'), ['DeadIsInvalid'], (), 'view')
        jobs['handles_wit'] = ex.submit(
            run_tlc, PROTO, 'SftpHandles', 'c14_handles_wit', hc,
            ['NeverRefusedDead'], (), None)      # (the witness reads lbl)
        dh = tlc.workdir('c14_simh_out')
        jobs['sim_handles'] = ex.submit(
            run_tlc, PROTO, 'SftpHandles', 'c14_simh', hc, (), (), None,
            workers=4, simulate=f'file={dh}/tr,num={190 if quick else 2500}',
            depth=7, seed=ctx.seed * 10 + 8, deadlock=False)
        vinv = ['ValueDelivered', 'StatusMapped', 'CloseOnce']
        vc = dict(Emit='FALSE', FalsyIsMissing='FALSE',
                  CloseSkipsEmpty='FALSE')
        jobs['values'] = ex.submit(
            run_tlc, PROTO, 'SftpValues', 'c14_values',
            dict(vc, Emit='TRUE'), vinv + ['Table'], workers=1)
        jobs['values_falsy'] = ex.submit(
            run_tlc, PROTO, 'SftpValues', 'c14_values_f',
            dict(vc, FalsyIsMissing='TRUE'), ['ValueDelivered'], workers=1)
        jobs['values_skip'] = ex.submit(
            run_tlc, PROTO, 'SftpValues', 'c14_values_s',
            dict(vc, CloseSkipsEmpty='TRUE'), ['CloseOnce'], workers=1)
        jobs['srv'] = ex.submit(
            run_tlc, PROTO, 'SftpSrvCases', 'c14_srv',
            dict(Emit='TRUE', TypeAfterEncode='TRUE'),
            ['OneReplyOwed', 'DamageIsError', 'CodeInVersion', 'V6Exact',
             'WellTypedReply', 'Table'], workers=1)
        jobs['srv_nofilter'] = ex.submit(
            run_tlc, PROTO, 'SftpSrvCases', 'c14_srvnf',
            dict(Emit='FALSE', TypeAfterEncode='TRUE'), ['NoFilterOk'],
            workers=1)
        jobs['srv_latch'] = ex.submit(
            run_tlc, PROTO, 'SftpSrvCases', 'c14_srvlt',
            dict(Emit='FALSE', TypeAfterEncode='FALSE'), ['WellTypedReply'],
            workers=1)
        base = dict(Emit='TRUE', AllocGuard='FALSE', PairRule='TRUE')
        jobs['attrs_a'] = ex.submit(
            run_tlc, ATTRS, 'SftpAttrs', 'c14_attrs_a',
            dict(base, Vary=ATTR_A, Always='{}'), ATTR_INVS, workers=1)
        jobs['attrs_b'] = ex.submit(
            run_tlc, ATTRS, 'SftpAttrs', 'c14_attrs_b',
            dict(base, Vary=ATTR_B, Always='{"atime", "crtime", "mtime"}'),
            ATTR_INVS, workers=1)
        if not quick:
            jobs['attrs_c'] = ex.submit(
                run_tlc, ATTRS, 'SftpAttrs', 'c14_attrs_c',
                dict(base, Vary=ATTR_C, Always='{}'), ATTR_INVS, workers=1)
        jobs['attrs_guard'] = ex.submit(
            run_tlc, ATTRS, 'SftpAttrs', 'c14_attrs_g',
            dict(base, Emit='FALSE', AllocGuard='TRUE', Vary=ATTR_A,
                 Always='{}'), ATTR_INVS[:3], workers=2)
        jobs['attrs_nopair'] = ex.submit(
            run_tlc, ATTRS, 'SftpAttrs', 'c14_attrs_np',
            dict(base, Emit='FALSE', PairRule='FALSE', Vary=ATTR_A,
                 Always='{}'), ['NothingInvented'], workers=2)
        io_behs, io_res = jobs.pop('sim_io').result()
        res = {k: f.result() for k, f in jobs.items() if f is not None}

    ctx.require_tlc_ok('SftpProto exhaustive', res['proto'])
    ctx.require_tlc_ok('SftpProto exhaustive with every way the session can '
                       'end', res['proto_ends'])
    ctx.require_tlc_ok('SftpProto where an unclean loss of the connection '
                       'leaves the callers waiting (must violate '
                       'AllResolvedAtEnd)', res['ends_leave'],
                       expect_violation='AllResolvedAtEnd')
    ctx.require_tlc_ok('SftpProto exhaustive, two cancellations',
                       res['proto2'])
    ctx.require_tlc_ok('SftpProto where a late reply to a cancelled request '
                       'counts as a bad id (must violate EndsOnlyOnBadId)',
                       res['nodrop'], expect_violation='EndsOnlyOnBadId')
    ctx.require_tlc_ok('witness NeverLateReply', res['wit_late'],
                       expect_violation='NeverLateReply')
    ctx.add_tlc('SftpIO simulate (cancelled sibling blocks)', io_res)
    ctx.require_tlc_ok('SftpProto without reply-type check (must violate '
                       'OwnReply)', res['notype'], expect_violation='OwnReply')
    ctx.require_tlc_ok('SftpProto without fail-all on a bad id (must violate '
                       'UnknownIdFails)', res['nofail'],
                       expect_violation='UnknownIdFails')
    ctx.require_tlc_ok('witness NeverValue', res['wit_value'],
                       expect_violation='NeverValue')
    ctx.require_tlc_ok('witness NeverClosed', res['wit_closed'],
                       expect_violation='NeverClosed')
    ctx.require_tlc_ok('SftpValues table', res['values'])
    ctx.require_tlc_ok('SftpValues where an empty value counts as missing '
                       '(must violate ValueDelivered)', res['values_falsy'],
                       expect_violation='ValueDelivered')
    ctx.require_tlc_ok('SftpValues where a zero-length handle is never closed '
                       '(the pinned tree; must violate CloseOnce)',
                       res['values_skip'], expect_violation='CloseOnce')
    ctx.require_tlc_ok('SftpHandles exhaustive', res['handles'])
    ctx.require_tlc_ok('SftpHandles where the table entry goes only after the '
                       'close hook returned (must violate DeadIsInvalid)',
                       res['handles_dah'], expect_violation='DeadIsInvalid')
    ctx.require_tlc_ok('witness NeverRefusedDead', res['handles_wit'],
                       expect_violation='NeverRefusedDead')
    if res['sim_handles'].error and res['sim_handles'].error != 'timeout':
        raise MachineryError('simulate handles: ' + res['sim_handles'].error +
                             res['sim_handles'].output[-2000:])
    ctx.add_tlc('SftpHandles simulate', res['sim_handles'])
    ctx.require_tlc_ok('SftpSrvCases table', res['srv'])
    ctx.require_tlc_ok('SftpSrvCases without the version filter (must '
                       'violate NoFilterOk)', res['srv_nofilter'],
                       expect_violation='NoFilterOk')
    ctx.require_tlc_ok('SftpSrvCases with the reply type fixed before the '
                       'result is encoded (must violate WellTypedReply)',
                       res['srv_latch'], expect_violation='WellTypedReply')
    for k in ('attrs_a', 'attrs_b', 'attrs_c', 'attrs_guard'):
        if k in res:
            ctx.require_tlc_ok(f'SftpAttrs {k}', res[k])
    ctx.require_tlc_ok('SftpAttrs without pairing rules (must violate '
                       'NothingInvented)', res['attrs_nopair'],
                       expect_violation='NothingInvented')
    for k in ('sim', 'sim2', 'sim3', 'sim4'):
        if res[k].error and res[k].error != 'timeout':
            raise MachineryError(f'simulate {k}: {res[k].error}\n' +
                                 res[k].output[-2000:])
        ctx.add_tlc(f'SftpProto simulate {k}', res[k])

    # ---- 1. client behaviours ---------------------------------------------
    nclient = ncancel = 0
    for dd in (d, d2, d3, d4):
        for _name, steps in tlc.read_sim_traces(dd, 'tr_'):
            kinds, events, outcomes, closed = sftp_proto.split_behaviour(
                [(st['lbl'], st) for _, st in steps])
            if not events:
                continue
            version = rnd.choice([3, 3, 4, 5, 6])
            r = sftp_proto.client_replay(kinds, events, version, outcomes,
                                         closed)
            nclient += 1
            ncancel += any(e[0] == 'cancel' for e in events)
            nontrivial = len({e[1] for e in events}) > 1
            ctx.count(('client', tuple(kinds), tuple(events)), nontrivial)
            if nclient % 173 == 3:
                ctx.sample({'part': 'client', 'kinds': kinds,
                            'events': events, 'version': version,
                            'observed': r.get('observed'),
                            'followup': r.get('followup')})
            rp = {'kind': 'client', 'kinds': kinds, 'events': events,
                  'version': version}
            for clause in sorted({c for c, _ in r['l1']}):
                text = '; '.join(t for c, t in r['l1'] if c == clause)
                violate({'module': 'SftpProto', 'clause': clause,
                         'kinds': kinds, 'events': events,
                         'version': version},
                        f'{clause}: {text} [callers={kinds} '
                        f'events={events} v{version} '
                        f'observed={r.get("observed")}]', rp)
            if r['diverged'] and not r['l1']:
                ctx.divergence(f'SftpProto client: {r["diverged"]} '
                               f'kinds={kinds} events={events}')
            for e in r.get('loop_exceptions') or []:
                ctx.divergence(f'SftpProto client: exception reached the '
                               f'event loop: {e} kinds={kinds} '
                               f'events={events}')
    ctx.require(ncancel > 30, f'only {ncancel} behaviours with a cancelled '
                              f'caller were replayed')
    # cancelled sibling blocks of the parallel I/O layer: late replies, then
    # a new request must get its own reply
    nlate = 0
    for c, script, states in io_behs:
        if not script:
            continue
        r = sftp_io.replay(c, script, states, U=1,
                           version=rnd.choice([3, 6]),
                           variant=sftp_io.pick_variant(c, rnd))
        nclient += 1
        nlate += bool(r.get('late_replies'))
        ctx.count(('client-io', json.dumps(c, sort_keys=True),
                   json.dumps(r['script'])), bool(r.get('late_replies')))
        for clause in sorted({cl for cl, _ in r['l1']}):
            if clause != 'SessionSurvives':
                continue                # the transfer's bytes are C12's job
            text = '; '.join(t for cl, t in r['l1'] if cl == clause)
            violate({'module': 'SftpProto', 'clause': clause, 'cfg': c,
                     'script': r['script']},
                    f'{clause}: {text} [cfg={c} script={r["script"]}]',
                    {'kind': 'io', 'cfg': c, 'script': r['script'],
                     'version': r['version'], 'variant': r['variant']})
    ctx.require(nlate > 20, f'only {nlate} parallel I/O behaviours had '
                            f'cancelled block requests answered late')
    # ---- 1b. the value a reply carries (SftpValues table) -------------------
    vrows = [r for r in sftp_proto.printed_multiline(res['values'].output)
             if r and r[0] == 'VALUE']
    ctx.require(len(vrows) > 1500, f'value table has {len(vrows)} rows')
    if quick:
        # every value row; status rows: every code for a third of the
        # (kind, version) pairs, the seeded third changes with the seed
        vrows = [r for i, r in enumerate(vrows) if r[3] != 'status' or
                 r[4] in (0, 1) or
                 (hash((r[1], r[2])) + ctx.seed) % 3 == 0]
    nval = nvalue_rows = 0
    for row in vrows:
        _tag, kind, v, rr, code, outcome, closes = row
        r = sftp_proto.value_case(kind, v, rr, code)
        nval += 1
        nvalue_rows += rr != 'status'
        ctx.count(('value', kind, v, rr, code), nontrivial=rr != 'status')
        if nval % 211 == 5:
            ctx.sample({'part': 'client-values', 'kind': kind, 'v': v,
                        'reply': rr, 'code': code,
                        'outcome': r['outcome'], 'closes': r['closes']})
        for clause in sorted({c for c, _ in r['l1']}):
            text = '; '.join(t for c, t in r['l1'] if c == clause)
            if clause == 'EmptyHandleNotClosed':
                key = ('SftpValues', clause)
                seen[key] = seen.get(key, 0) + 1
                if seen[key] == 1:
                    ctx.violation({'module': 'SftpValues', 'clause': clause},
                                  f'{clause}: v{v} {kind}: {text}',
                                  replay={'kind': 'value', 'k': kind, 'v': v,
                                          'r': rr, 'code': code})
                continue
            violate({'module': 'SftpValues', 'clause': clause, 'kind': kind,
                     'v': v, 'reply': rr, 'code': code},
                    f'{clause}: v{v} {kind} answered {rr}'
                    f'{"(" + str(code) + ")" if rr == "status" else ""}: '
                    f'{text}',
                    {'kind': 'value', 'k': kind, 'v': v, 'r': rr,
                     'code': code})
        if not r['l1']:
            want = tuple(outcome) if outcome[0] != 'badmsg' else ('exc', 5)
            if r['outcome'] != want or \
                    (kind in ('open', 'opendir') and r['closes'] != closes):
                ctx.divergence(f'SftpValues: v{v} {kind} answered {rr} '
                               f'{code}: caller got {r["outcome"]} closes='
                               f'{r["closes"]}, table {want} closes={closes}')
    ctx.traces_validated(nval)
    ctx.notes.append(f'reply value rows replayed: {nval} '
                     f'({nvalue_rows} value replies)')
    sftp_io.drop_world()
    tlc.cleanup('c14_sim_out')
    tlc.cleanup('c14_sim2_out')
    tlc.cleanup('c14_sim3_out')
    tlc.cleanup('c14_sim4_out')
    ctx.require(nclient > 100, f'only {nclient} client behaviours replayed')
    ctx.traces_validated(nclient)

    # ---- 2. server cases ----------------------------------------------------
    table = sftp_proto.printed_multiline(res['srv'].output)
    ctx.require(len(table) > 400, f'server table has {len(table)} rows')
    sw = sftp_proto.ServerWorld()
    nsrv = 0
    unenc = {'skipped': 0}
    planned = {}
    classes_seen = set()
    try:
        sessions = {}
        n = 0
        for row in table:
            if row[0] == 'req':
                case = {'v': row[1], 't': row[2], 'd': row[3],
                        'replies': row[4], 'types': set(row[5]['$set']),
                        'alive': row[6]}
                v = case['v']
                if v not in sessions:
                    sessions[v] = sw.session(v)
                    ctx.require(sessions[v].version == v,
                                f'negotiated v{sessions[v].version} != {v}')
                n += 1
                sessions[v], outs = sftp_proto.server_case(
                    sw, sessions[v], case, n)
                for o in outs:
                    nsrv += 1
                    ctx.count(('srv', v, case['t'], case['d'], o['what']),
                              case['d'] != 'none')
                    for c in o.get('classes', []):
                        classes_seen.add((case['t'], case['d'], c))
                    if nsrv % 977 == 11:
                        ctx.sample({'part': 'server', 'v': v,
                                    't': case['t'], 'd': case['d'],
                                    'what': o['what'],
                                    'classes': o.get('classes'),
                                    'codes': o.get('codes')})
                    for clause in sorted({c for c, _ in o['l1']}):
                        text = '; '.join(t for c, t in o['l1'] if c == clause)
                        violate({'module': 'SftpSrv', 'clause': clause,
                                 'v': v, 't': case['t'], 'd': case['d'],
                                 'what': o['what']},
                                f'{clause}: v{v} {case["t"]} {case["d"]} '
                                f'({o["what"]}): {text}; replies='
                                f'{o.get("classes")}',
                                {'kind': 'server', 'v': v, 't': case['t'],
                                 'd': case['d'], 'what': o['what'],
                                 'ptype': o.get('ptype'),
                                 'body': o.get('body')})
                    if case['d'] == 'short_frame' and o['alive']:
                        ctx.notes.append(f'v{v} {o["what"]}: session '
                                         f'survived a short frame')
            elif row[0] == 'unenc':
                v, t, f, predicted = row[1], row[2], row[3], row[4]
                legal = set(row[5]['$set'])
                if v not in sessions:
                    sessions[v] = sw.session(v)
                if f in ('real_neg', 'real_far', 'real_dir') and \
                        not all(sw.real.values()):
                    unenc['skipped'] += 1
                    continue
                sessions[v], o = sftp_proto.unenc_case(
                    sw, sessions[v], v, t, f, legal)
                if o.get('skipped'):
                    unenc['skipped'] += 1
                    continue
                nsrv += 1
                planned[predicted] = planned.get(predicted, 0) + 1
                unenc[o['sent'] or 'none'] = \
                    unenc.get(o['sent'] or 'none', 0) + 1
                ctx.count(('unenc', v, t, f), predicted == 'status_err')
                if nsrv % 211 == 7:
                    ctx.sample({'part': 'server-unencodable', 'v': v, 't': t,
                                'fault': f, 'sent': o['sent'],
                                'code': o.get('code')})
                for clause in sorted({c for c, _ in o['l1']}):
                    text = '; '.join(x for c, x in o['l1'] if c == clause)
                    violate({'module': 'SftpSrv', 'clause': clause, 'v': v,
                             't': t, 'fault': f},
                            f'{clause}: v{v} {t} whose result is {f}: '
                            f'{text}',
                            {'kind': 'server', 'v': v, 't': t, 'd': f,
                             'ptype': o.get('ptype'), 'body': o.get('body')})
                if not o['l1'] and o['sent'] != predicted:
                    ctx.divergence(f'SftpSrv: v{v} {t} with result {f}: '
                                   f'server sent {o["sent"]}, model '
                                   f'{predicted}')
            else:
                v = row[1]
                if v not in sessions:
                    sessions[v] = sw.session(v)
                label = row[2] if row[0] in ('errno', 'access') else \
                    f'SFTPError({row[2]})'
                try:
                    if row[0] == 'access':
                        got = sftp_proto.access_case(sessions[v], v, row[2])
                    elif row[0] == 'errno':
                        got = sftp_proto.errno_case(sessions[v], v,
                                                    name=row[2])
                    else:
                        got = sftp_proto.errno_case(sessions[v], v,
                                                    code=row[2])
                except Exception:       # pylint: disable=broad-except
                    got = None          # the session did not survive the row
                if got is None:
                    # no reply: the session is gone, maybe the connection with
                    # it; the next row gets a new server world
                    for s in sessions.values():
                        try:
                            s.close()
                        except Exception:   # pylint: disable=broad-except
                            pass
                    sessions.clear()
                    try:
                        sw.close()
                    except Exception:   # pylint: disable=broad-except
                        pass
                    sw = sftp_proto.ServerWorld()
                nsrv += 1
                ctx.count(('errno', v, label))
                if got != row[3]:
                    violate({'module': 'SftpSrv', 'clause': 'ErrnoMapping',
                             'v': v, 'error': label},
                            f'ErrnoMapping: v{v} {label} was sent as status '
                            f'{got}, documented code is {row[3]}',
                            {'kind': 'errno', 'v': v, 'error': label})
        for v in (3, 4, 5, 6):
            if v not in sessions:
                sessions[v] = sw.session(v)
            got = sftp_proto.errno_case(sessions[v], v)
            nsrv += 1
            ctx.count(('errno', v, 'NotImplementedError'))
            if got != 8:
                violate({'module': 'SftpSrv', 'clause': 'ErrnoMapping',
                         'v': v, 'error': 'NotImplementedError'},
                        f'ErrnoMapping: v{v} NotImplementedError was sent as '
                        f'{got}, documented code is 8 (OP_UNSUPPORTED)')
        for s in sessions.values():
            s.close()
        # ---- handle life cycle: behaviours of SftpHandles -------------------
        nh = nh_dead = 0
        seen_b = set()
        for _name, steps in tlc.read_sim_traces(dh, 'tr_'):
            v, script = sftp_proto.split_handle_behaviour(
                [(st['lbl'], st) for _, st in steps])
            key = (v, str(script))
            if not script or key in seen_b:
                continue
            seen_b.add(key)
            r = sftp_proto.handle_replay(sw, v, script)
            nh += 1
            closed_t = set()
            for lbl, _ in script:
                t = lbl[1] if lbl[0] == 'close' else \
                    lbl[2] if lbl[0] == 'use' else None
                nh_dead += t in closed_t
                if lbl[0] == 'close':
                    closed_t.add(t)
            ctx.count(('handles', v, str(script)),
                      any(l[0] == 'close' for l, _ in script))
            if nh % 199 == 7:
                ctx.sample({'part': 'handles', 'v': v, 'trace': r['trace']})
            for clause in sorted({c for c, _ in r['l1']}):
                text = '; '.join(x for c, x in r['l1'] if c == clause)
                violate({'module': 'SftpHandles', 'clause': clause, 'v': v,
                         'script': r['script']},
                        f'{clause}: v{v} {r["script"]}: {text}',
                        {'kind': 'handles', 'v': v, 'script': r['script']})
            if r['diverged'] and not r['l1']:
                ctx.divergence(f'SftpHandles: v{v} {r["script"]}: '
                               f'{r["diverged"]}')
        tlc.cleanup('c14_simh_out')
        # ---- every way the session can end, seen from the server -----------
        for how in ('close', 'eof_mid', 'abort'):
            for v in (3, 6):
                if how == 'abort':
                    sw.close()
                    sw = sftp_proto.ServerWorld()
                r = sftp_proto.server_ending_case(sw, v, how)
                ctx.count(('server-end', how, v))
                for clause, text in r['l1']:
                    violate({'module': 'SftpSrv', 'clause': clause,
                             'how': how, 'v': v},
                            f'{clause}: v{v}: {text}',
                            {'kind': 'server-end', 'how': how, 'v': v})
                if how == 'abort':
                    sw.close()
                    sw = sftp_proto.ServerWorld()
        # ---- copy-data: one reply, bounded work (CopyData.tla); uses server
        #      worlds of its own, so the shared one is rebuilt afterwards ----
        sw.close()
        from harness.drivers import sftp_copydata
        cd_table, cd_rows = sftp_copydata.table()
        ctx.require_tlc_ok('CopyData table', cd_table)
        sftp_copydata.replay(ctx, cd_rows, 2,
                             {'ExactlyOneReply', 'ErrorNotFatal',
                              'WellFormedReply', 'CopyDataWork',
                              'ChunkProgress'}, quick, rnd, 'c14')
        sw = sftp_proto.ServerWorld()
        ctx.traces_validated(nh)
        ctx.notes.append(f'handle life cycle behaviours replayed: {nh}, '
                         f'requests naming an already closed handle: '
                         f'{nh_dead}')
        ctx.require(nh > 150 and nh_dead > 25,
                    f'handle behaviours too thin: {nh} / {nh_dead}')
    finally:
        sw.close()
    ctx.notes.append(f'results that cannot be encoded: replies by type '
                     f'{unenc}')
    ctx.require(planned.get('status_err', 0) > 200 and
                planned.get('attrs', 0) > 20 and planned.get('name', 0) > 20,
                f'un-encodable result cases do not cover both outcomes: '
                f'{planned}')
    # positive controls: intact requests do earn their value replies
    for t, want in (('open', 'handle'), ('read', 'data'), ('stat', 'attrs'),
                    ('realpath', 'name'), ('x_statvfs', 'extreply'),
                    ('setstat', 'status_ok')):
        ctx.require((t, 'none', want) in classes_seen,
                    f'positive control: intact {t} never got a {want} reply')

    # ---- 3. attribute codec -------------------------------------------------
    nattr = 0
    quirk = {'undecodable': 0, 'decodable': 0}
    for k in ('attrs_a', 'attrs_b', 'attrs_c'):
        if k not in res:
            continue
        rows = sftp_proto.printed_multiline(res[k].output)
        ctx.require(len(rows) >= 4096, f'{k}: {len(rows)} rows')
        for i, row in enumerate(rows):
            v, present, outcome, carried, type_rule, longname = row
            present = sorted(present['$set'])
            carried = [tuple(x) for x in carried['$set']]
            ftype = (1, 2, 3, 6, 7, 8, 9, 5, 4)[(i // 7) % 9]
            as_name = i % 3 == 0
            l1, div, note = sftp_proto.attrs_case(
                v, present, outcome, carried, type_rule, longname,
                ftype=ftype, as_name=as_name)
            nattr += 1
            ctx.count(('attrs', v, tuple(present)), len(present) > 1)
            if nattr % 4999 == 77:
                ctx.sample({'part': 'attrs', 'v': v, 'fields': present,
                            'outcome': outcome, 'carried': carried})
            if note:
                quirk[note] += 1
            for clause, text in l1:
                violate({'module': 'SftpAttrs', 'clause': clause, 'v': v,
                         'fields': present, 'type': ftype},
                        f'{clause}: v{v} fields={present} type={ftype} '
                        f'{"SFTPName" if as_name else "SFTPAttrs"}: {text}',
                        {'kind': 'attrs', 'v': v, 'fields': present,
                         'type': ftype, 'as_name': as_name})
            if div and not l1:
                ctx.divergence(f'SftpAttrs: v{v} fields={present}: {div}')
    if quirk['undecodable']:
        ctx.notes.append(
            f'{quirk["undecodable"]} cases: alloc_size set in v3-v5 is '
            f'encoded with flag 0x400 which the same version refuses to '
            f'decode (SFTPAttrs.encode does not guard alloc_size by version; '
            f'outside the quantifier of C14: alloc_size is not a field those '
            f'versions carry). See fixes/sftp_attrs_alloc_size_version.patch')
    if quirk['decodable']:
        ctx.notes.append(f'{quirk["decodable"]} cases: alloc_size in v3-v5 '
                         f'is now dropped (intended table)')

    ctx.notes.append(f'client behaviours={nclient} server packets={nsrv} '
                     f'codec cases={nattr}')
    ctx.assumptions += [
        'client part: the scripted peer speaks its own SFTP framing on a real '
        'SSH session channel; callers use the public SFTPClient API; reply '
        'payloads name the request id they answer',
        'server part: requests go to the real SFTPServerHandler with a real '
        'SFTPServer (chroot under .work); "exactly one reply" is counted on '
        'the channel, the probe request after each case shows the session '
        'is alive',
        'a well-formed body followed by extra bytes may earn either the '
        'normal reply or an error status (v6 tolerates trailing fields; '
        'some v3-v5 handlers ignore them)',
        'a packet too short to hold type and request id is a framing error: '
        'no reply is owed and the session may end',
        'the errno table in SftpSrvCases is the mapping of the SFTP drafts '
        'as implemented (codes above the negotiated version collapse to '
        'FAILURE, NOT_A_DIRECTORY to NO_SUCH_FILE before v6)',
    ]


if __name__ == '__main__':
    run_check('C14', main)
