"""X06 (extra module) - the server-side input line editor of asyncssh
(asyncssh/editor.py: SSHLineEditor, SSHLineEditorChannel, SSHLineEditorSession).

1. TLC checks specs/Editor/Editor.tla exhaustively at small constants (one
   focus per run: editing keys, history, echo on/off, line mode on/off with
   API calls from inside session callbacks, escape sequences and UTF-8
   characters cut at every byte, key handlers, max_line_length, line_echo =
   FALSE, terminal resize) against CursorInRange, ChunkIndependent,
   NoSecretShown, RawHoldsNothing, HistoryLossless, KillYankRestores,
   InsertBounded, NoSkew, BellSane.  Sensitivity variants TLC must reject:
   partial escape sequence / partial UTF-8 character dropped at a chunk
   boundary, history remembers hidden lines, hand-over keeps the line, ^Y at
   the wrong place, history-next off by one - and the five rules of the
   pinned tree that are genuine defects (kill buffer survives echo-off,
   typed-ahead input behind a switch to raw mode stays in the editor, stale
   cursor after a hand-over, negative room under max_line_length, cursor
   believed at the end of the line after a resize).  Witnesses: an EDITED
   line does not survive history previous + next (the editor has no saved
   edit line - by design), callbacks with API calls, cuts inside escape
   sequences and inside UTF-8 characters, hidden text in the kill buffer.
2. Behaviours (BFS: one shortest behaviour per final state; -simulate for
   depth, seeded by VERIF_SEED) are replayed by harness/drivers/editor.py
   into a real server session with the line editor over the in-memory
   client/server pair; the bytes echoed to the client are interpreted by two
   terminal emulators (deferred / immediate wrap).  L1 monitors: Delivered,
   ScreenMatches, NoSecretShown, BellOnIllegal, HookArguments,
   ChunkIndependent (the same behaviour sent unsplit), NoCrash; L2: the
   editor's private state against the model's.
3. Negative controls: monkeypatched mutants of editor.py must be caught.
"""

import concurrent.futures
import json
import os
import random
import time

from harness import tlc
from harness.framework import run_check, VERIF

SPEC = os.path.join(VERIF, 'specs', 'Editor')
PID = os.getpid()
INVS = ['TypeOK', 'CursorInRange', 'ChunkIndependent', 'NoSecretShown',
        'RawHoldsNothing', 'HistoryLossless', 'KillYankRestores',
        'InsertBounded', 'LineBounded', 'NoSkew', 'BellSane']

JVM = {'_JAVA_OPTIONS': '-XX:TieredStopAtLevel=1 -XX:ParallelGCThreads=2 '
                        '-XX:CICompilerCount=1'}


def S(*names):
    return '{' + ', '.join(f'"{n}"' for n in names) + '}'


EDIT = ['n', 'm', 'w', 'bs', 'del', 'delr', 'ctrlb', 'ctrlf', 'ctrla',
        'ctrle', 'ctrlk', 'ctrlu', 'ctrly', 'ctrld']
MOVES = ['left', 'leftO', 'right', 'rightO', 'home', 'home1', 'end', 'end4']
HIST = ['cr', 'lf', 'kpenter', 'ctrlp', 'up', 'upO', 'ctrln', 'down', 'downO']
MISC = ['ctrlr', 'ctrlc', 'brk33', 'esc', 'junk', 'ctrlg', 'bang', 'tab',
        'stab']
ALLKEYS = EDIT + MOVES + HIST + MISC
REG = ['reg_tab_true', 'reg_tab_false', 'reg_tab_repl', 'reg_tab_sig',
       'reg_bang_true', 'reg_bang_false', 'reg_bang_repl', 'reg_stab_repl',
       'reg_stab_sig', 'unreg_tab', 'unreg_bang', 'unreg_stab']
ALLAPI = ['echo_off', 'echo_on', 'raw', 'cooked', 'prompt', 'outln',
          'setinput0', 'setinput1', 'setinput3', 'clear', 'resize'] + REG

RULES = dict(KeepPend='TRUE', KeepDec='TRUE', ScrubKill='TRUE',
             HistSkipsHidden='TRUE', SwitchAtOnce='TRUE',
             HandoverClears='TRUE', HandoverResets='TRUE', ClampRoom='TRUE',
             ResizeAtCursor='TRUE', YankAtCursor='TRUE', DownRight='TRUE',
             YankUnclamped='FALSE')
BASE = dict(MaxKeys=4, MaxApi=0, MaxLine=3, MaxCuts=1, HistSize=2, MaxLen=0,
            LineEcho='TRUE', KeySet=S('n'), ApiSet='{}', W1=8, W2=11,
            UniqueIds='FALSE', KeepLog='FALSE', **RULES)


def write_cfg(name, consts, invs=(), view=True, spec='Spec'):
    d = dict(BASE)
    d.update(consts)
    lines = ['CONSTANTS'] + [f'  {k} = {v}' for k, v in d.items()]
    lines.append(f'SPECIFICATION {spec}')
    if view:
        lines.append('VIEW view')
    lines += [f'INVARIANT {i}' for i in invs]
    with open(os.path.join(SPEC, name), 'w') as f:
        f.write('\n'.join(lines) + '\n')
    return name, d


def _run(name, consts, invs, workers, timeout=1500, coverage=False, **kw):
    tag = f'X06_{name}_{PID}'
    cfg, d = write_cfg(f'_x06_{name}_{PID}.cfg', consts, invs=invs,
                       view=kw.pop('view', True),
                       spec=kw.pop('spec', 'Spec'))
    try:
        res = tlc.run(SPEC, 'Editor', cfg, tag, workers=workers,
                      timeout=timeout, java_heap='3g', deadlock=False,
                      env=JVM, coverage=coverage, **kw)
    finally:
        tlc.cleanup(tag)
        os.remove(os.path.join(SPEC, cfg))
    return res, d


def mc(name, consts, invs=INVS, workers=2, coverage=False):
    return _run(name, consts, invs, workers, coverage=coverage)[0]


def script_lines(res):
    return [l for l in res.output.splitlines()
            if l.startswith('"<<\\"SCRIPT')]


def emit(name, consts, workers=2):
    """exhaustive run with the invariants that also prints one shortest
    behaviour per final state"""
    res, d = _run(name, dict(consts, UniqueIds='TRUE', KeepLog='TRUE'),
                  INVS + ['EmitScript'], workers)
    return script_lines(res), res, d


def simulate(name, consts, num, seed, depth=80):
    res, d = _run(name, dict(consts, UniqueIds='TRUE', KeepLog='TRUE'),
                  INVS + ['EmitScript'], 1, view=False, spec='SimSpec',
                  simulate=f'num={num}', depth=depth, seed=seed, timeout=600)
    if res.error and res.error != 'timeout' and not res.violation and \
            'Error:' not in res.output:
        res.error = None
        res.ok = res.violation is None
    return sorted(set(script_lines(res))), res, d


def parse_line(line):
    v = tlc.parse_value(tlc.parse_value(line))
    return v[1], v[2]


def compact(log):
    out = []
    for lbl, _st, ctx in log:
        if lbl[0] == 'T':
            out.append(lbl[1])
        elif lbl[0] == 'B':
            continue
        elif lbl[0] == 'Cut':
            out.append('|')
        elif lbl[0] == 'Api':
            out.append(('@' if ctx == 'cb' else '') + lbl[1])
        else:
            out.append(lbl[0])
    return ' '.join(out)


def has_inner_cut(log):
    return any(l[0][0] == 'Cut' and i + 1 < len(log) and
               log[i + 1][0][0] == 'B' for i, l in enumerate(log))


# ---------------------------------------------------------------------------
# one replay and its verdicts
# ---------------------------------------------------------------------------

def judge(ctx, drv, world, log, final, consts, deco, counters, unsplit,
          percut=False):
    """returns (unexplained violations, unexplained divergences, replay)"""
    tags = drv.script_tags(log, consts, final, deco['term'])
    r = drv.Replay(world, log, final, consts, deco).run(percut=percut)
    viols = list(r.violations)
    if unsplit and not viols:
        u = drv.Replay(world, log, final, consts, deco)
        u.nochecks = True
        u.run(unsplit=True)
        if u.violations or u.summary != r.summary:
            tags = drv.script_tags(log, consts, final, deco['term'], True)
            viols += u.violations
        if not u.violations and u.summary != r.summary:
            viols.append(('ChunkIndependent',
                          f'cut into chunks: {r.summary}; unsplit: '
                          f'{u.summary}', -1))
    bad = ndiv = 0
    replay = {'log': log, 'final': final, 'consts': consts, 'deco': deco}
    for clause, what, i in viols:
        play = sorted((j, t) for t, j in tags.items() if i < 0 or j <= i)
        defect = play[0][1] if play else 'none'
        key = (clause, defect)
        counters[key] = counters.get(key, 0) + 1
        if defect == 'none':
            bad += 1
        if counters[key] > 2:
            continue
        sig = {'module': 'Editor', 'clause': clause, 'defect': defect,
               'n': counters[key]}
        if defect == 'none':
            sig['script'] = compact(log)
        if ctx is not None:
            ctx.violation(sig, f'{clause} [{deco["term"]}, widths '
                               f'{consts["W1"]}/{consts["W2"]}] {what} '
                               f'script: {compact(log)}', replay=replay)
    if not viols:
        for what, i in r.divergences[:1]:
            play = sorted((j, t) for t, j in tags.items() if j <= i)
            if play:
                # the model has the repaired rule: where a reported defect
                # of the pinned tree is in play the code cannot follow it
                key = ('unmodelled', play[0][1])
                counters[key] = counters.get(key, 0) + 1
            else:
                ndiv += 1
                if ctx is not None:
                    ctx.divergence(f'Editor step {i}: {what} script: '
                                   f'{compact(log)}')
    return bad, ndiv, r


# ---------------------------------------------------------------------------
# negative controls
# ---------------------------------------------------------------------------

def mutants():
    from asyncssh import editor as E
    L = E.SSHLineEditor

    def m_left(self):
        if self._pos > 0:
            self._reposition(self._pos - 1, self._cursor - 1)
        else:
            self._ring_bell()

    def m_kill(self):
        pos = self._pos
        self._line = self._line[:pos]
        self._update_input(pos, self._cursor, pos)

    orig_pi = L.process_input

    def m_keystate(self, data, datatype):
        self._key_state = self._keymap
        orig_pi(self, data, datatype)

    orig_end = L._end_line

    def m_hist(self):
        if not self._echo and self._history_size and self._line:
            self._history.append(self._line)
        orig_end(self)

    def m_endline(self):
        keep = self._line
        self._line = self._line[:self._pos] if self._pos else keep
        orig_end(self)

    def m_mode(self, line_mode):
        self._reset_pending()
        if self._line and not line_mode:
            self._erase_input()
            self._reset_line()
        self._line_mode = line_mode

    def m_bell(self):
        pass

    orig_out = L._output

    def m_output(self, data, pos=None):
        n = len(self._outbuf)
        orig_out(self, data, pos)
        if self._outbuf[-1] == ' \b' and len(self._outbuf) > n:
            self._outbuf.pop()

    def m_right(self):
        if self._pos < len(self._line):
            self._reposition(self._pos + 1, self._cursor + 1)
        else:
            self._ring_bell()

    def m_next(self):
        if self._history_index < len(self._history):
            self._history_index += 1
            if self._history_index < len(self._history):
                self._line = self._history[self._history_index]
            self._update_input(0, self._start_column, len(self._line))
        else:
            self._ring_bell()

    return [
        ('left ignores wide characters', L, '_move_left', m_left),
        ('right ignores wide characters', L, '_move_right', m_right),
        ('^K does not remember the text', L, '_erase_to_end', m_kill),
        ('key state reset with every chunk', L, 'process_input', m_keystate),
        ('hidden lines remembered in the history', L, '_end_line', m_hist),
        ('Enter delivers up to the cursor', L, '_end_line', m_endline),
        ('pending input dropped at set_line_mode', L, 'set_line_mode',
         m_mode),
        ('no bell', L, '_ring_bell', m_bell),
        ('no forced wrap at the right margin', L, '_output', m_output),
        ('history-next past the end keeps the line', L, '_history_next',
         m_next),
    ]


class Patched:
    """a method of SSHLineEditor replaced for a while (the key map is built
    from the function objects in _keylist, so that is patched as well)"""

    def __init__(self, cls, attr, fn):
        self.cls, self.attr, self.fn = cls, attr, fn

    def __enter__(self):
        cls = self.cls
        self.orig = cls.__dict__[self.attr]
        self.keylist = cls._keylist
        setattr(cls, self.attr, self.fn)
        cls._keylist = tuple((self.fn if f is self.orig else f, keys)
                             for f, keys in self.keylist)

    def __exit__(self, *exc):
        setattr(self.cls, self.attr, self.orig)
        self.cls._keylist = self.keylist


def self_test(ctx, drv, pools):
    """every mutant must be caught on the scripts of the general pool"""
    caught = {}
    for name, cls, attr, fn in mutants():
        hit = None
        n = 0
        with Patched(cls, attr, fn):
            for consts, scripts in pools:
                world = drv.World.for_consts(consts)
                try:
                    for log, final in scripts:
                        n += 1
                        bad, _d, _r = judge(None, drv, world, log, final,
                                            consts, {'term': 'ansi'}, {},
                                            has_inner_cut(log))
                        if bad:
                            hit = compact(log)
                            break
                finally:
                    world.stop()
                if hit:
                    break
        caught[name] = (hit, n)
        ctx.require(hit is not None,
                    f'negative control not caught: {name} ({n} scripts)')
    ctx.notes.append('negative controls caught: ' + '; '.join(
        f'{k} (script {n})' for k, (_h, n) in caught.items()))


# ---------------------------------------------------------------------------
# bounded work: the part that checks/c10.py runs as well
# ---------------------------------------------------------------------------

WORK_KEYS = ['n', 'm', 'ctrlu', 'ctrlk', 'ctrly', 'ctrlb', 'ctrla', 'cr',
             'ctrlp', 'ctrln', 'bs', 'tab', 'bang']
WORK_API = ['setinput3', 'reg_tab_repl', 'reg_bang_true', 'prompt']


def editor_work_cases(ctx, quick=True, seed=None):
    """max_line_length bounds what hostile input can make of the input line
    (every key redraws it): Editor.tla with max_line_length = 3 / 4 checked
    for LineBounded (+ the variant YankUnclamped that TLC must reject), then
    behaviours that lengthen the line in every way the editor has (typed
    text, yank, history, key handlers, set_input) replayed into the real
    editor one byte per chunk with the monitors LineBounded and WorkBounded
    (and the other X06 monitors).  No wide characters: the listed early-wrap
    finding of X06 stays out of play.  Violations go to ctx (C10 or X06)."""
    from harness.drivers import editor as drv
    seed = ctx.seed if seed is None else seed
    rnd = random.Random(seed * 131 + 7)
    os.makedirs(tlc.WORK, exist_ok=True)
    counters = {}
    num = 1 if quick else 6
    base = dict(MaxLine=8, MaxCuts=0, HistSize=2, W1=7, W2=11)
    sims = [
        ('w_mix', 380 * num, dict(base, MaxLen=3, MaxKeys=14, MaxApi=3,
                                  KeySet=S(*WORK_KEYS), ApiSet=S(*WORK_API))),
        # the ways a line doubles: kill + yank + yank, again and again
        ('w_yank', 120 * num, dict(base, MaxLen=4, MaxKeys=18, MaxApi=1,
                                   MaxLine=12,
                                   KeySet=S('n', 'ctrlu', 'ctrlk', 'ctrly',
                                            'ctrla'),
                                   ApiSet=S('setinput3'))),
        ('w_pump', 120 * num, dict(base, MaxLen=4, MaxKeys=30, MaxApi=0,
                                   MaxLine=12,
                                   KeySet=S('n', 'ctrlu', 'ctrly'))),
        ('w_hist', 120 * num, dict(base, MaxLen=3, MaxKeys=16, MaxApi=2,
                                   KeySet=S('n', 'cr', 'ctrlp', 'ctrln',
                                            'ctrly', 'ctrlu', 'tab'),
                                   ApiSet=S('setinput3', 'reg_tab_repl'))),
    ]
    ex = concurrent.futures.ThreadPoolExecutor(max_workers=5)
    f_sim = [ex.submit(simulate, f'{ctx.pid}{n}', kw, cnt, seed * 1000 + 17 + i,
                       160)
             for i, (n, cnt, kw) in enumerate(sims)]
    small = dict(MaxLen=2, MaxLine=6, MaxKeys=5, MaxApi=1, MaxCuts=0,
                 KeySet=S('n', 'ctrlu', 'ctrly', 'cr', 'ctrlp', 'tab'),
                 ApiSet=S('setinput3', 'reg_tab_repl'))
    f_ok = ex.submit(mc, f'{ctx.pid}w_design', small, INVS, 2)
    f_bad = ex.submit(mc, f'{ctx.pid}w_unclamped',
                      dict(small, YankUnclamped='TRUE'), ['LineBounded'], 2)
    total = 0
    work = 0.0
    longest = 0
    for (name, cnt, kw), fut in zip(sims, f_sim):
        lines, res, d = fut.result()
        ctx.require(res.violation is None and not res.error,
                    f'Editor simulate {name}: {res.violation} {res.error}\n' +
                    res.output[-2000:])
        ctx.add_tlc(f'Editor work simulate {name} {kw}', res)
        ctx.require(len(lines) > cnt // 2,
                    f'{name}: only {len(lines)} behaviours')
        rnd.shuffle(lines)
        world = drv.World.for_consts(d)
        try:
            for line in lines[:cnt]:
                log, final = parse_line(line)
                if any(st['nid'] > drv.MAXID for _l, st, _c in log):
                    continue
                _b, _d, r = judge(ctx, drv, world, log, final, d,
                                  {'term': 'ansi'}, counters, False,
                                  percut=True)
                total += 1
                work = max(work, r.work_max)
                longest = max([longest] + [len(st['line'])
                                           for _l, st, _c in log])
                ctx.count(('editor-work', name, compact(log)),
                          nontrivial=any(len(st['line']) >= int(d['MaxLen'])
                                         for _l, st, _c in log))
        finally:
            world.stop()
    ctx.require_tlc_ok(f'Editor work design {small}', f_ok.result())
    ctx.require_tlc_ok('Editor work variant YankUnclamped', f_bad.result(),
                       expect_violation='LineBounded')
    ex.shutdown()
    ctx.traces_validated(total)
    ctx.require(total >= 500 * num, f'only {total} editor behaviours')
    ctx.notes.append(
        f'editor: {total} behaviours (max_line_length 3 / 4, longest model '
        f'line {longest}) replayed one byte per chunk; largest output / '
        f'allowance of a key {work:.2f}; violations ' + (', '.join(
            f'{c}/{dd}={n}' for (c, dd), n in sorted(counters.items())
            if c != 'unmodelled') or 'none'))
    ctx.assumptions.append(
        'line editor: one key / API call may cost 32 + 3 * terminal width + '
        '2 * (UTF-8 bytes + columns of the longest line involved) bytes of '
        'output; max_line_length bounds the line except for text the '
        'application itself sets (set_input, key handlers)')
    return total


# ---------------------------------------------------------------------------

def main(ctx):
    from harness.drivers import editor as drv
    quick = ctx.tier == 'quick'
    rnd = random.Random(ctx.seed * 7919 + 606)
    os.makedirs(tlc.WORK, exist_ok=True)
    counters = {}

    if ctx.replay_path:
        with open(ctx.replay_path) as f:
            rp = json.load(f)['replay']
        world = drv.World.for_consts(rp['consts'])
        try:
            _b, _d, r = judge(ctx, drv, world, rp['log'], rp['final'],
                              rp['consts'], rp['deco'], counters, True)
        finally:
            world.stop()
        print('replayed:', compact(rp['log']), 'violations', r.violations,
              'divergences', r.divergences, 'summary', r.summary)
        ctx.count(('replay', ctx.replay_path))
        return

    W = 2 if quick else 4
    k = 0 if quick else 1
    # ---- TLC jobs ----------------------------------------------------------
    # (name, constants): exhaustive design checks, one focus each; the ones
    # in `emits` also print their behaviours (replayed)
    designs = [
        ('d_edit', dict(MaxKeys=4 + k, MaxLine=3,
                        KeySet=S('n', 'w', 'bs', 'delr', 'ctrlb', 'ctrlf',
                                 'ctrla', 'ctrlk', 'ctrlu', 'ctrly',
                                 'ctrld'))),
        ('d_hist', dict(MaxKeys=6 + k, MaxLine=2, MaxCuts=k,
                        KeySet=S('n', 'w', 'cr', 'ctrlp', 'ctrln', 'bs'))),
        ('d_echo', dict(MaxKeys=4 + k, MaxApi=2 + k, MaxLine=2,
                        KeySet=S('n', 'cr', 'ctrlu', 'ctrly', 'ctrlp',
                                 'ctrlr'),
                        ApiSet=S('echo_off', 'echo_on', 'prompt'))),
        ('d_mode', dict(MaxKeys=4 + k, MaxApi=2 + k, MaxLine=2,
                        KeySet=S('n', 'cr', 'ctrld', 'ctrlc', 'ctrlb'),
                        ApiSet=S('raw', 'cooked', 'prompt'))),
        ('d_esc', dict(MaxKeys=3 + k, MaxCuts=3, MaxLine=3,
                       KeySet=S('up', 'home1', 'delr', 'brk33', 'kpenter',
                                'esc', 'junk', 'n', 'm', 'w'))),
        ('d_hook', dict(MaxKeys=3 + k, MaxApi=2, MaxLine=3,
                        KeySet=S('n', 'tab', 'bang', 'stab', 'ctrlb'),
                        ApiSet=S(*REG))),
        ('d_maxlen', dict(MaxKeys=4 + k, MaxApi=2, MaxLine=4, MaxLen=2,
                          KeySet=S('n', 'w', 'ctrlu', 'ctrly', 'bang',
                                   'tab'),
                          ApiSet=S('setinput3', 'reg_bang_true',
                                   'reg_tab_repl'))),
        ('d_lecho', dict(MaxKeys=4 + k, MaxApi=2 + k, MaxLine=2,
                         LineEcho='FALSE',
                         KeySet=S('n', 'cr', 'ctrlp', 'ctrlb'),
                         ApiSet=S('echoback', 'prompt', 'echo_off',
                                  'echo_on', 'raw'))),
        ('d_resize', dict(MaxKeys=3 + k, MaxApi=2 + k, MaxLine=3,
                          KeySet=S('n', 'w', 'ctrlb', 'cr'),
                          ApiSet=S('resize', 'prompt', 'echo_off'))),
        # -coverage: every action of the specification must have fired
        ('d_cover', dict(MaxKeys=3, MaxApi=1, MaxLine=2,
                         KeySet=S('n', 'up', 'cr'), ApiSet=S('prompt'))),
    ]
    # smaller versions of the same, printed for replay (terminal widths that
    # make short lines wrap)
    emits = [
        ('e_edit', dict(MaxKeys=4, MaxLine=4, W1=6, W2=9,
                        KeySet=S('n', 'w', 'm', 'bs', 'delr', 'ctrlb',
                                 'ctrlf', 'ctrla', 'ctrle', 'ctrlk', 'ctrlu',
                                 'ctrly', 'ctrld'))),
        ('e_hist', dict(MaxKeys=5, MaxLine=2, MaxCuts=0, W1=4, W2=9,
                        KeySet=S('n', 'w', 'cr', 'ctrlp', 'ctrln', 'bs',
                                 'ctrlr'))),
        ('e_echo', dict(MaxKeys=4, MaxApi=3, MaxLine=2,
                        KeySet=S('n', 'cr', 'ctrlu', 'ctrly', 'ctrlp'),
                        ApiSet=S('echo_off', 'echo_on', 'prompt'))),
        ('e_mode', dict(MaxKeys=4, MaxApi=2, MaxLine=2,
                        KeySet=S('n', 'cr', 'ctrld', 'ctrlc'),
                        ApiSet=S('raw', 'cooked', 'outln'))),
        ('e_esc', dict(MaxKeys=3, MaxCuts=2, MaxLine=3, W1=5, W2=9,
                       KeySet=S('up', 'home1', 'delr', 'brk33', 'kpenter',
                                'esc', 'junk', 'n', 'w', 'm'))),
        ('e_hook', dict(MaxKeys=3, MaxApi=2, MaxLine=3,
                        KeySet=S('n', 'tab', 'bang', 'stab', 'ctrlb'),
                        ApiSet=S(*REG))),
        ('e_lecho', dict(MaxKeys=4, MaxApi=2, MaxLine=2, LineEcho='FALSE',
                         KeySet=S('n', 'w', 'cr', 'ctrlp'), W1=5, W2=9,
                         ApiSet=S('echoback', 'prompt', 'echo_off'))),
    ]
    num = 1 if quick else 8
    sims = [
        # (name, terminal type, number of behaviours, constants)
        ('s_all', 'ansi', 600 * num,
         dict(MaxKeys=9, MaxApi=4, MaxCuts=3, MaxLine=6, HistSize=3,
              KeySet=S(*ALLKEYS), ApiSet=S(*ALLAPI))),
        ('s_wrap', 'xterm', 400 * num,
         dict(MaxKeys=12, MaxApi=2, MaxCuts=2, MaxLine=9, W1=5, W2=7,
              KeySet=S(*(EDIT + MOVES + ['cr', 'up', 'ctrln', 'ctrlr'])),
              ApiSet=S('prompt', 'outln', 'setinput1'))),
        ('s_echo', 'ansi', 300 * num,
         dict(MaxKeys=10, MaxApi=5, MaxCuts=2, MaxLine=4,
              KeySet=S('n', 'w', 'cr', 'ctrlu', 'ctrlk', 'ctrly', 'ctrlp',
                       'ctrln', 'ctrlr', 'ctrlb', 'bs', 'up'),
              ApiSet=S('echo_off', 'echo_on', 'prompt', 'outln'))),
        ('s_secret', 'ansi', 300 * num,
         dict(MaxKeys=6, MaxApi=3, MaxCuts=1, MaxLine=4,
              KeySet=S('n', 'w', 'ctrlu', 'ctrlk', 'ctrly', 'cr'),
              ApiSet=S('echo_off', 'echo_on', 'prompt'))),
        ('s_mode', 'vt100', 300 * num,
         dict(MaxKeys=9, MaxApi=5, MaxCuts=3, MaxLine=4,
              KeySet=S('n', 'm', 'cr', 'ctrld', 'ctrlc', 'ctrlb', 'esc',
                       'up', 'tab'),
              ApiSet=S('raw', 'cooked', 'prompt', 'outln', 'reg_tab_sig',
                       'echo_off', 'echo_on'))),
        ('s_maxlen', 'ansi', 200 * num,
         dict(MaxKeys=10, MaxApi=4, MaxCuts=2, MaxLine=5, MaxLen=3,
              KeySet=S('n', 'w', 'm', 'cr', 'ctrlu', 'ctrlk', 'ctrly',
                       'ctrlp', 'ctrlb', 'ctrlf', 'bs', 'bang', 'tab',
                       'ctrla'),
              ApiSet=S('prompt', 'setinput0', 'setinput1', 'setinput3',
                       'clear', 'reg_tab_true', 'reg_tab_repl',
                       'reg_bang_true', 'reg_bang_false', 'unreg_bang'))),
        ('s_lecho', 'ansi', 300 * num,
         dict(MaxKeys=9, MaxApi=4, MaxCuts=2, MaxLine=5, LineEcho='FALSE',
              HistSize=1, W1=6, W2=9,
              KeySet=S('n', 'w', 'cr', 'lf', 'ctrlp', 'ctrln', 'ctrlb',
                       'ctrlu', 'ctrly', 'ctrlc', 'ctrld'),
              ApiSet=S('echoback', 'prompt', 'outln', 'echo_off', 'echo_on',
                       'raw', 'cooked', 'clear'))),
        ('s_dumb', 'dumb', 300 * num,
         dict(MaxKeys=9, MaxApi=3, MaxCuts=2, MaxLine=6, W1=40, W2=50,
              KeySet=S(*ALLKEYS),
              ApiSet=S('echo_off', 'echo_on', 'prompt', 'outln', 'raw',
                       'cooked', 'setinput1', 'resize'))),
    ]
    small = dict(MaxKeys=4, MaxApi=2, MaxLine=3, MaxCuts=1,
                 KeySet=S('n', 'w', 'm', 'cr', 'up', 'ctrlu', 'ctrlk',
                          'ctrly', 'ctrlb'),
                 ApiSet=S('echo_off', 'echo_on', 'raw', 'prompt'))
    variants = [
        # (name, expected violation, constants, invariants)
        ('v_pend', 'ChunkIndependent', dict(small, KeepPend='FALSE'), INVS),
        ('v_dec', 'ChunkIndependent', dict(small, KeepDec='FALSE'), INVS),
        ('v_histhidden', 'NoSecretShown',
         dict(HistSkipsHidden='FALSE', MaxKeys=3, MaxApi=2, MaxCuts=0,
              KeySet=S('n', 'cr', 'ctrlp'), ApiSet=S('echo_off', 'echo_on')),
         INVS),
        ('v_handover', 'RawHoldsNothing',
         dict(small, HandoverClears='FALSE'), INVS),
        ('v_yank', 'KillYankRestores',
         dict(YankAtCursor='FALSE', MaxKeys=5, MaxCuts=0,
              KeySet=S('n', 'w', 'ctrlb', 'ctrlk', 'ctrly')), INVS),
        ('v_down', 'HistoryLossless',
         dict(DownRight='FALSE', MaxKeys=7, MaxCuts=0,
              KeySet=S('n', 'w', 'cr', 'ctrlp', 'ctrln')), INVS),
        ('v_yankclamp', 'LineBounded',
         dict(YankUnclamped='TRUE', MaxLen=2, MaxLine=6, MaxKeys=5, MaxCuts=0,
              KeySet=S('n', 'ctrlu', 'ctrly')), ['LineBounded']),
        # the pinned tree's own rules (reported defects): rejected as well
        ('pinned_kill', 'NoSecretShown',
         dict(small, ScrubKill='FALSE', MaxKeys=3), INVS),
        ('pinned_switch', 'RawHoldsNothing',
         dict(small, SwitchAtOnce='FALSE'), ['RawHoldsNothing']),
        ('pinned_switch_chunks', 'ChunkIndependent',
         dict(small, SwitchAtOnce='FALSE'), ['ChunkIndependent']),
        ('pinned_cursor', 'CursorInRange',
         dict(small, HandoverResets='FALSE'), INVS),
        ('pinned_room', 'InsertBounded',
         dict(ClampRoom='FALSE', MaxLen=2, MaxApi=1, MaxLine=4,
              ApiSet=S('setinput3'), KeySet=S('n', 'ctrlu', 'ctrly')), INVS),
        ('pinned_resize', 'NoSkew',
         dict(small, ResizeAtCursor='FALSE', ApiSet=S('resize')), INVS),
        # witnesses (expected to be violated: the situation is reachable)
        ('wit_editlost', 'EditSurvives',
         dict(MaxKeys=5, MaxCuts=0, KeySet=S('n', 'cr', 'ctrlp', 'ctrln')),
         ['EditSurvives']),
        ('wit_callback', 'NeverCallback', dict(small), ['NeverCallback']),
        ('wit_splitesc', 'NeverSplitEsc', dict(small), ['NeverSplitEsc']),
        ('wit_splitutf', 'NeverSplitUtf', dict(small), ['NeverSplitUtf']),
        ('wit_hiddenkill', 'NeverHiddenKill', dict(small, ScrubKill='FALSE'),
         ['NeverHiddenKill']),
    ]

    ex = concurrent.futures.ThreadPoolExecutor(max_workers=6)
    f_emit = [ex.submit(emit, n, kw, W) for n, kw in emits]
    f_sim = [ex.submit(simulate, n, kw, cnt, ctx.seed * 1000 + 61 + i)
             for i, (n, _t, cnt, kw) in enumerate(sims)]
    f_des = [ex.submit(mc, n, kw, INVS, W, n == 'd_cover')
             for n, kw in designs]
    f_var = [ex.submit(mc, n, kw, invs, 2) for n, _e, kw, invs in variants]

    total = 0
    stats = {'chunks': 0, 'bytes': 0, 'unsplit': 0}
    seen_keys, seen_api, seen_cbapi = set(), set(), set()
    pools = []
    t_replay = time.time()

    def replay_group(name, term, lines, d, budget):
        nonlocal total
        rnd.shuffle(lines)
        world = drv.World.for_consts(d)
        kept = []
        try:
            for line in lines[:budget]:
                log, final = parse_line(line)
                ctx.require(d['UniqueIds'] == 'TRUE' and
                            all(st['nid'] <= drv.MAXID for _l, st, _c in log),
                            f'{name}: more typed characters than glyphs')
                unsplit = has_inner_cut(log) or total % 5 == 0
                _b, _d, r = judge(ctx, drv, world, log, final, d,
                                  {'term': term}, counters, unsplit)
                total += 1
                stats['work'] = max(stats.get('work', 0), r.work_max)
                stats['chunks'] += r.chunks
                stats['bytes'] += r.nbyte
                stats['unsplit'] += unsplit
                for lbl, _st, c in log:
                    if lbl[0] == 'T':
                        seen_keys.add(lbl[1])
                    elif lbl[0] == 'Api':
                        seen_api.add(lbl[1])
                        if c == 'cb':
                            seen_cbapi.add(lbl[1])
                ctx.count((name, compact(log)), nontrivial=len(log) > 3)
                if total % 397 == 3:
                    ctx.sample({'run': name, 'term': term,
                                'script': compact(log),
                                'delivered': r.summary['out'],
                                'screen': r.summary['rows']})
                if len(kept) < 400:
                    kept.append((log, final))
        finally:
            world.stop()
        return kept

    # ---- replay: BFS behaviours --------------------------------------------
    budget_e = 120 if quick else 2500
    for (name, kw), fut in zip(emits, f_emit):
        lines, res, d = fut.result()
        ctx.require_tlc_ok(f'Editor {name} (design check + behaviours) {kw}',
                           res)
        ctx.require(len(lines) > 50, f'{name}: only {len(lines)} behaviours')
        lines.sort()
        replay_group(name, 'ansi', lines, d, budget_e)
    # ---- replay: simulation ------------------------------------------------
    for (name, term, cnt, kw), fut in zip(sims, f_sim):
        lines, res, d = fut.result()
        ctx.require(res.violation is None and not res.error,
                    f'Editor simulate {name}: {res.violation} {res.error}\n' +
                    res.output[-2000:])
        ctx.add_tlc(f'Editor simulate {name} {kw}', res)
        ctx.require(len(lines) > cnt // 2,
                    f'{name}: only {len(lines)} behaviours')
        kept = replay_group(name, term, lines, d, cnt)
        if name in ('s_all', 's_echo', 's_mode', 's_wrap'):
            pools.append((d, kept))
    t_replay = time.time() - t_replay
    ctx.traces_validated(total)

    # ---- TLC verdicts -------------------------------------------------------
    for (name, kw), fut in zip(designs, f_des):
        res = fut.result()
        ctx.require_tlc_ok(f'Editor {name} {kw}', res)
        if name == 'd_cover':
            for act in ('Type', 'More', 'Cut', 'Call', 'Eof'):
                ctx.require(res.coverage.get(act, (0, 0))[0] > 0,
                            f'action {act} never taken in {name}: '
                            f'{res.coverage}')
    for (name, exp, kw, _invs), fut in zip(variants, f_var):
        ctx.require_tlc_ok(f'Editor {name} {kw}', fut.result(),
                           expect_violation=exp)
    ex.shutdown()

    # ---- bounded work (also the "editor" part of C10) ------------------------
    editor_work_cases(ctx, quick)

    # ---- negative controls --------------------------------------------------
    self_test(ctx, drv, pools)

    ctx.notes.append(f'{total} behaviours replayed in {t_replay:.0f}s '
                     f'({stats["bytes"]} bytes in {stats["chunks"]} chunks; '
                     f'{stats["unsplit"]} also sent unsplit); largest output '
                     f'/ allowance of a chunk {stats.get("work", 0):.2f}')
    for (tag, defect), n in sorted((k_, v) for k_, v in counters.items()
                                   if k_[0] == 'unmodelled'):
        ctx.notes.append(f'{n} behaviours touching the reported defect '
                         f'{defect} leave the (repaired) model without '
                         f'breaking a property; not counted as divergences')
    ctx.notes.append('violations by (clause, defect): ' + ', '.join(
        f'{c}/{d}={n}' for (c, d), n in sorted(counters.items())
        if c != 'unmodelled'))
    ctx.require(total >= (3000 if quick else 20000),
                f'only {total} behaviours were replayed')
    missing = set(ALLKEYS) - seen_keys
    ctx.require(not missing, f'keys never typed in a replay: {missing}')
    missing = set(ALLAPI + ['echoback']) - seen_api
    ctx.require(not missing, f'API calls never made in a replay: {missing}')
    ctx.require({'echo_off', 'raw', 'prompt'} <= seen_cbapi,
                f'API calls from inside a callback: only {seen_cbapi}')
    ctx.assumptions += [
        'the terminal understands CR, LF, BS, BEL and CSI n A/B/C/D; a wide '
        'character that does not fit in the last column wraps as a whole; '
        'two flavours are emulated: wrap deferred until the next character '
        '(xterm, VT100) and immediate wrap',
        'no combining (zero-width) characters: the editor counts every '
        'printable character as one or two columns',
        'resize only while prompt + input + 1 fit in one row of both widths '
        '(what a terminal does with wrapped rows on resize differs between '
        'terminals)',
        'terminal types that do not wrap ("dumb") only with rows wide enough '
        'for the whole input (the horizontal scrolling window is not '
        'specified)',
        'redraws caused by an API call (set_echo, set_input, set_line_mode, '
        'terminal size) reach the terminal with the next input or output; '
        'the screen is compared when something was sent',
        'the application handles one callback at a time and calls the '
        'channel API between two chunks or from inside the callback of a '
        'completed line, a break, a soft EOF or a signal',
        'harness: SSHLineEditor._build_printable (25 ms per call) runs once '
        'per distinct set of bound first characters, its result is reused',
    ]


if __name__ == '__main__':
    run_check('X06', main)
