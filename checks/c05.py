"""C05 - access is granted exactly when a credential check succeeded.

1. TLC checks the Auth specification (model of the code as it is now)
   exhaustively at small constants: AuthSound, AuthSoundObs, GateUntilAuth,
   GrantStable; a sensitivity run shows that the same specification with the
   pre-repair rules (Fixed = FALSE) violates AuthSound, so the invariant is
   not vacuous.
2. Behaviours sampled by TLC (-simulate) from several constant sets are
   replayed step by step against a real SSHServerConnection (raw peer with
   real passwords and signatures, harness-controlled executor and
   application validators); after every external step the implementation's
   observable state is compared with the specification's (conformance), and
   the property monitors are evaluated on the observations (verdict).
3. Fixed regression schedules (the counterexamples TLC found) and a sweep of
   signature-binding variants are replayed.
4. The converse direction: real clients with valid credentials are admitted.
5. "The restrictions attached to the accepted credential are the ones
   enforced afterwards": specs/Auth/Restrict.tla is the decision table
   (credential kind x authorized_keys options incl. restrict / no-* / permit
   words / command= / permitopen / from= / principals= x certificate
   extensions incl. the empty set / force-command / source-address /
   validity) -> which of pty, agent, X11, direct-tcpip, tcpip-forward, UNIX
   forwards, and which command, are allowed; TLC checks 13 invariants over
   the table and rejects four wrong-rule variants; every row is replayed
   against a real server with real keys and certificates
   (checks/c05_restrict.py).
6. The converse clause in general: specs/Auth/AuthClient.tla models how the
   client walks through authentication (method lists that change, partial
   success, preferred_auth, agent keys before client keys, certificate then
   plain key, the RSA certificate key-type retry, password used once,
   keyboard-interactive with the password fallback); TLC checks
   ValidAdmitted / Terminates / EachCredentialOnce / NoCredentialLeak ...
   and rejects seven wrong-rule variants; every configuration is replayed
   with a real client against a real server or a scripted raw server and
   the sequence of requests it sends is compared with the model
   (checks/c05_client.py).
"""

import os
import random

from harness import tlc
from harness.framework import run_check, MachineryError, VERIF

SPEC = os.path.join(VERIF, 'specs', 'Auth')


def cfg_text(**kw):
    d = dict(Users='{A, B}', Bad='Bad', NULL='NULL', MaxMsg=3,
             Methods='{"none", "password", "pks"}', SigKinds='{"ok", "bad"}',
             NoAuth='{}', PkMode='"callback"', NoKeys='{}',
             ReloadResets='TRUE', AllowSync='TRUE',
             AllowAsync='TRUE', Probes='TRUE', Fixed='TRUE')
    d.update(kw.pop('consts', {}))
    lines = ['CONSTANTS'] + [f'  {k} = {v}' for k, v in d.items()]
    lines += ['SPECIFICATION Spec', 'CHECK_DEADLOCK FALSE']
    for inv in kw.get('invariants', []):
        lines.append(f'INVARIANT {inv}')
    for p in kw.get('properties', []):
        lines.append(f'PROPERTY {p}')
    if kw.get('view', True):
        lines.append('VIEW view')
    return '\n'.join(lines) + '\n'


def write_cfg(name, **kw):
    path = os.path.join(SPEC, name)
    with open(path, 'w') as f:
        f.write(cfg_text(**kw))
    return name


INVS = ['TypeOK', 'AuthSound', 'AuthSoundObs', 'ChecksTruthful',
        'GateUntilAuth', 'SuccessNamesGranted']
PROPS = ['GateAction', 'GrantStable']

R = lambda u, m, c='Bad', s='na': dict(kind='req', user=u, method=m, cred=c,
                                       sig=s)
RESP = lambda c: dict(kind='resp', user='NULL', method='kbdint', cred=c,
                      sig='na')
PROBE = dict(kind='probe', user='NULL', method='na', cred='Bad', sig='na')

# Regression schedules: (name, world kwargs, script).
REGRESSIONS = [
    ('F1 user switch while password validator pending', {}, [
        ('send', R('A', 'password', 'A')), ('modes', ['sync', 'async']),
        ('chunk', 1), ('exec', 0), ('send', R('B', 'none')), ('chunk', 1),
        ('val', 0), ('exec', 0)]),
    ('F1b same-user request overtakes reload, then switch', {}, [
        ('send', R('A', 'none')), ('send', R('A', 'password', 'A')),
        ('modes', ['async']), ('chunk', 2),
        ('send', R('B', 'password', 'A')), ('chunk', 1), ('val', 0),
        ('exec', 0), ('exec', 0)]),
    ('F1c user switch while async begin_auth of a no-auth user pending',
     {'noauth': ['A']}, [
         ('send', R('A', 'none')), ('modes', ['async']), ('chunk', 1),
         ('exec', 0), ('send', R('B', 'none')), ('chunk', 1), ('val', 0),
         ('modes', ['sync']), ('exec', 0)]),
    ('F1d stale reload_config applies other user\'s authorized keys',
     {'pkmode': 'config'}, [
         ('send', R('A', 'none')), ('chunk', 1),
         ('send', R('B', 'none')), ('chunk', 1),
         ('modes', ['sync']), ('exec', 1), ('modes', ['sync']), ('exec', 0),
         ('send', R('B', 'pks', 'A', 'ok')), ('chunk', 1)]),
    ('user switch while kbdint response validator pending', {}, [
        ('send', R('A', 'kbdint')), ('modes', ['sync', 'sync']),
        ('chunk', 1), ('exec', 0), ('send', RESP('A')),
        ('modes', ['async']), ('chunk', 1), ('send', R('B', 'none')),
        ('chunk', 1), ('val', 0), ('modes', ['sync']), ('exec', 0)]),
    ('user switch while public key validator pending', {}, [
        ('send', R('A', 'pks', 'A', 'ok')), ('modes', ['sync', 'async']),
        ('chunk', 1), ('exec', 0), ('send', R('B', 'none')), ('chunk', 1),
        ('val', 0), ('modes', ['sync']), ('exec', 0)]),
    ('probe before auth is fatal', {}, [
        ('send', PROBE), ('chunk', 1)]),
    ('probe pipelined behind a valid request', {}, [
        ('send', R('A', 'password', 'A')), ('send', PROBE), ('chunk', 2),
        ('modes', ['sync', 'sync']), ('exec', 0)]),
]


def sim_traces(ctx, name, consts, num, depth, seed):
    cfg = write_cfg(f'_sim_{name}.cfg', consts=consts, view=False)
    tag = f'c05_sim_{name}'
    d = tlc.workdir(tag + '_out')
    res = tlc.run(SPEC, 'Auth', cfg, tag, workers=4, timeout=600,
                  simulate=f'file={d}/tr,num={num}', depth=depth, seed=seed)
    if res.error and res.error != 'timeout':
        raise MachineryError(f'simulate {name}: {res.error}\n' +
                             res.output[-2000:])
    out = []
    for fname, steps in tlc.read_sim_traces(d, 'tr_'):
        out.append([(st['lbl'], st) for _, st in steps[1:]])
    tlc.cleanup(tag + '_out')
    tlc.cleanup(tag)
    os.remove(os.path.join(SPEC, cfg))
    return out, res


def main(ctx):
    from harness.drivers import auth
    quick = ctx.tier == 'quick'
    rnd = random.Random(ctx.seed)

    # ---- 1. design check ------------------------------------------------
    if quick:
        runs = [('callback', dict(MaxMsg=3, PkMode='"callback"')),
                ('config', dict(MaxMsg=3, PkMode='"config"',
                                Methods='{"none", "pks"}', NoAuth='{A}'))]
    else:
        runs = [('callback', dict(MaxMsg=3, PkMode='"callback"',
                                  Methods='{"none", "password", "pks", "pkq"}')),
                ('kbdint', dict(MaxMsg=4, Methods='{"none", "kbdint", "password"}',
                                Probes='FALSE', SigKinds='{"ok"}')),
                ('noauth', dict(MaxMsg=3, NoAuth='{A}',
                                Methods='{"none", "password"}')),
                ('config', dict(MaxMsg=4, PkMode='"config"',
                                Methods='{"none", "pks"}', NoAuth='{A}'))]
    for name, consts in runs:
        cfg = write_cfg(f'_mc_{name}.cfg', consts=consts, invariants=INVS,
                        properties=PROPS)
        res = tlc.run(SPEC, 'Auth', cfg, f'c05_mc_{name}', timeout=3000,
                      coverage=False)
        ctx.require_tlc_ok(f'Auth exhaustive {name} {consts}', res)
        tlc.cleanup(f'c05_mc_{name}')
        os.remove(os.path.join(SPEC, cfg))
    # keys installed by begin_auth(): a user without keys after one with keys
    begin = dict(MaxMsg=3 if quick else 4, PkMode='"begin"', NoKeys='{B}',
                 Methods='{"none", "pks"}', Probes='FALSE')
    for name, consts, expect in (
            ('begin', begin, None),
            ('begin_noreset', dict(begin, MaxMsg=3, ReloadResets='FALSE'),
             'AuthSound')):
        cfg = write_cfg(f'_mc_{name}.cfg', consts=consts,
                        invariants=INVS if expect is None else ['AuthSound'],
                        properties=PROPS if expect is None else [])
        res = tlc.run(SPEC, 'Auth', cfg, f'c05_mc_{name}', timeout=3000)
        ctx.require_tlc_ok(f'Auth {name} {consts}', res,
                           expect_violation=expect)
        tlc.cleanup(f'c05_mc_{name}')
        os.remove(os.path.join(SPEC, cfg))
    # sensitivity: the pre-repair rules must violate AuthSound
    cfg = write_cfg('_mc_unfixed.cfg', consts=dict(Fixed='FALSE', MaxMsg=2,
                    Methods='{"none", "password"}', Probes='FALSE'),
                    invariants=['AuthSound'])
    res = tlc.run(SPEC, 'Auth', cfg, 'c05_mc_unfixed', timeout=600)
    ctx.require_tlc_ok('Auth pre-repair rules (expected to violate AuthSound)',
                       res, expect_violation='AuthSound')
    tlc.cleanup('c05_mc_unfixed')
    os.remove(os.path.join(SPEC, cfg))
    # vacuity witnesses: each must be violated (= the situation is reachable)
    for w in ['NeverGranted', 'NeverCancelled']:
        cfg = write_cfg('_mc_wit.cfg', consts=dict(MaxMsg=2,
                        Methods='{"none", "password"}'), invariants=[w])
        res = tlc.run(SPEC, 'Auth', cfg, 'c05_mc_wit', timeout=600)
        ctx.require_tlc_ok(f'witness {w}', res, expect_violation=w)
        tlc.cleanup('c05_mc_wit')
        os.remove(os.path.join(SPEC, cfg))

    # ---- 2. replay of TLC behaviours -------------------------------------
    S = lambda **kw: dict(Users='{"A", "B"}', **kw)
    n = 60 if quick else 600
    sims = [
        ('all', dict(MaxMsg=4, Methods='{"none", "password", "pks", "pkq", "kbdint"}'),
         {}, n, 40),
        ('pw', dict(MaxMsg=3, Methods='{"none", "password"}', Probes='FALSE'),
         {}, n, 40),
        ('pk', dict(MaxMsg=3, Methods='{"pks", "pkq"}', Probes='FALSE'),
         {}, n, 40),
        ('noauth', dict(MaxMsg=3, Methods='{"none", "password"}', NoAuth='{A}'),
         {'noauth': ['A']}, n, 40),
        ('config', dict(MaxMsg=4, Methods='{"none", "pks"}', PkMode='"config"',
                        Probes='FALSE'), {'pkmode': 'config'}, n, 40),
        ('kbd', dict(MaxMsg=4, Methods='{"kbdint", "none"}', Probes='FALSE'),
         {}, n, 40),
        ('begin', dict(MaxMsg=4, Methods='{"none", "pks"}', PkMode='"begin"',
                       NoKeys='{B}', Probes='FALSE'),
         {'pkmode': 'begin', 'nokeys': ['B']}, n, 40),
        ('nokeys', dict(MaxMsg=3, Methods='{"none", "pks", "pkq"}',
                        NoKeys='{B}', Probes='FALSE'),
         {'nokeys': ['B']}, n // 2, 40),
    ]
    total = 0
    for name, consts, wkw, num, depth in sims:
        traces, res = sim_traces(ctx, name, consts, num, depth,
                                 ctx.seed + 17)
        ctx.require(len(traces) > 0, f'no simulation traces for {name}')
        for steps in traces:
            if not any(l[0] == 'chunk' for l, _ in steps):
                continue
            variant = rnd.choice(auth.SIG_VARIANTS)
            pk = rnd.choice(['open', 'global'])
            kw = dict(wkw, sig_variant=variant, probe_kind=pk,
                      workdir=tlc.WORK)
            r = auth.replay(steps, **kw)
            total += 1
            key = tuple(str(x) for x in r['script'])
            nontrivial = r['obs']['authDone'] or r['obs']['closed'] or \
                len(r['obs']['out']) > 0
            ctx.count((name, key), nontrivial)
            if total % 97 == 1:
                ctx.sample({'config': name, 'script': r['script'],
                            'observed': r['obs']})
            if r['l1']:
                ctx.violation({'module': 'Auth', 'msgs': r['msgs'],
                               'clauses': sorted(set(c.split(':')[0]
                                                     for c in r['l1']))},
                              '; '.join(r['l1']),
                              replay={'kind': 'behaviour', 'world': kw,
                                      'script': r['script']})
            elif r['diverged']:
                ctx.divergence(f'{name}: {r["diverged"]} script='
                               f'{r["script"]}')
            if r['loop_exceptions']:
                ctx.violation({'module': 'Auth', 'loop_exception':
                               r['loop_exceptions'][0][:80]},
                              f'exception escaped to the event loop: '
                              f'{r["loop_exceptions"][0]}',
                              replay={'kind': 'behaviour', 'world': kw,
                                      'script': r['script']})
    ctx.traces_validated(total)

    # ---- 3. regression schedules and signature variants -------------------
    os.makedirs(tlc.WORK, exist_ok=True)
    for name, wkw, script in REGRESSIONS:
        kw = dict(wkw, workdir=tlc.WORK)
        r = auth.run_script(script, **kw)
        ctx.count(('regression', name))
        if r['l1']:
            ctx.violation({'module': 'Auth', 'schedule': name},
                          f'{name}: ' + '; '.join(r['l1']),
                          replay={'kind': 'script', 'world': kw,
                                  'script': script})
    for variant in auth.SIG_VARIANTS:
        for user, cred in [('A', 'A'), ('B', 'A')]:
            script = [('send', R(user, 'pks', cred, 'bad')),
                      ('modes', ['sync', 'sync']), ('chunk', 1), ('exec', 0)]
            r = auth.run_script(script, sig_variant=variant)
            ctx.count(('sigvariant', variant, user, cred))
            if r['l1'] or r['obs']['authDone']:
                ctx.violation({'module': 'Auth', 'sig_variant': variant,
                               'user': user, 'cred': cred},
                              f'signature not bound ({variant}) accepted',
                              replay={'kind': 'script', 'world':
                                      {'sig_variant': variant},
                                      'script': script})
    # positive control: a correct signature IS accepted (so the monitors are
    # not trivially quiet)
    r = auth.run_script([('send', R('A', 'pks', 'A', 'ok')),
                         ('modes', ['sync', 'sync']), ('chunk', 1),
                         ('exec', 0)])
    ctx.require(r['obs']['authDone'] and r['obs']['granted'] == 'A',
                'positive control: valid signed request was not accepted')

    # ---- 4. ClientAdmitted -------------------------------------------------
    from harness.drivers import auth_client
    for case, ok, detail in auth_client.admitted_cases(ctx.tier):
        ctx.count(('admitted', case))
        if not ok:
            ctx.violation({'module': 'AuthClient', 'case': case},
                          f'client with valid credential not admitted: '
                          f'{case}: {detail}',
                          replay={'kind': 'admitted', 'case': case})

    # ---- 5. restrictions of the accepted credential (specs/Auth/Restrict.tla)
    from checks import c05_restrict
    c05_restrict.run(ctx, ctx.tier == 'quick')

    # ---- 6. the client side of the dialogue (specs/Auth/AuthClient.tla) ----
    from checks import c05_client
    c05_client.run(ctx, ctx.tier == 'quick')
    # ---- 7. host-based authentication, server side (HostBased.tla) ----
    from checks import c05_hostbased
    c05_hostbased.run(ctx, ctx.tier == 'quick')

    ctx.assumptions += [
        'application validators are truthful functions of (user, credential)',
        'run-to-completion scheduling: external events are taken when the '
        'ready queue is empty (exact for selector-driven events)',
        'raw peer reuses asyncssh transport code for its own side of the '
        'encrypted pipe; the judged endpoint is a separate connection object',
    ]


if __name__ == '__main__':
    run_check('C05', main)
