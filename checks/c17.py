"""C17 - trust-file lookups follow the documented matching rules.

1. TLC enumerates the decision tables of specs/TrustFiles exhaustively at
   small bounds (every case is an initial state) and checks the rule's own
   properties on every case: WildIsRef, NegationExcludes, PositiveNeeded,
   DamagedLineIsLocal, FallbackRule, RevocationKept, MarkerPartition,
   OrderFree, TokPlain,
   TokQuotes, AllMustMatch, FirstEntryWins.  Sensitivity runs: the same
   specification with a deliberately wrong rule (negation ignored, fallback
   always, one from= suffices) must violate the matching property; witness
   runs show that fallback / negated exclusion are reachable.
2. The same runs print one line per case (case + predicted result).  Every
   printed case is materialised (real ed25519 keys, real HMAC-SHA1 hashed
   names, real damaged key blobs) and run through asyncssh.match_known_hosts,
   import_known_hosts().match, read_known_hosts, import_authorized_keys /
   read_authorized_keys().validate; the returned key / option sets are
   compared with the prediction.
3. Damage sweep: every damage class x API x position; a damaged line must
   not change the result for the other lines (DamagedLineIsLocal on the
   real code).
3b. Histories: 2-3 lookups / validate() calls one after the other on ONE
   loaded object (known_hosts and authorized_keys); each must equal the
   lookup on a freshly loaded object (HistoryFree).
4. Second opinion (advisory): `ssh-keygen -F` on a sample of the known_hosts
   cases; it can veto a violation (spec != ssh-keygen => reported as a model
   divergence) but never raises one.
"""

import concurrent.futures as cf
import os
import shutil
import tempfile

from harness import tlc
from harness.framework import run_check, MachineryError, VERIF

SPEC = os.path.join(VERIF, 'specs', 'TrustFiles')

DEF = dict(Mode='"pat"', Emit='FALSE', MaxPat=2, MaxSubj=2, MaxItems=1,
           Upper='FALSE', MaxLines=1, HFSel=[1], MarkSel=[1], KeySel=[1],
           QSel=list(range(1, 13)),
           MaxTok=2, MaxEntries=1, MaxOpts=1, OptSel=[1], SampleMod=1,
           SampleRem=0, NegIgnored='FALSE', NoHostLiteralCidr='FALSE', FallbackAlways='FALSE',
           AnyFromSuffices='FALSE', DropPortRevoked='FALSE',
           IndexAliased='FALSE', MaxHist=2,
           CaseFold='FALSE')

# many small single-worker JVMs run side by side: keep each one narrow
JVM_ENV = {'JDK_JAVA_OPTIONS': '-XX:ParallelGCThreads=2 -XX:CICompilerCount=2'}

ALL_HF = list(range(1, 29))
ALL_OPT = list(range(1, 19))
ALL_Q = list(range(1, 34))

INVS = {
    'pat': ['WildIsRef', 'NegationExcludes', 'PositiveNeeded'],
    'kh': ['NegationExcludes', 'DamagedLineIsLocal', 'FallbackRule',
           'LiteralHostIsAddress',
           'RevocationKept', 'MarkerPartition', 'OrderFree'],
    'tok': ['TokPlain', 'TokQuotes'],
    'ak': ['NegationExcludes', 'AllMustMatch', 'FirstEntryWins'],
    'hist': ['HistoryFree'],
    'akhist': [],
}


def write_cfg(name, invs, **kw):
    d = dict(DEF)
    d.update(kw)
    lines = ['CONSTANTS']
    for k, v in d.items():
        if isinstance(v, (list, tuple, set)):
            v = '{' + ', '.join(str(x) for x in sorted(v)) + '}'
        lines.append(f'  {k} = {v}')
    lines += ['SPECIFICATION Spec', 'CHECK_DEADLOCK FALSE']
    lines += [f'INVARIANT {i}' for i in invs]
    with open(os.path.join(SPEC, name), 'w') as f:
        f.write('\n'.join(lines) + '\n')
    return name


def run_tlc(name, invs, timeout=1500, **kw):
    # unique per process: several runs of this check may be active at once
    cfg = write_cfg(f'_c17_{os.getpid()}_{name}.cfg', invs, **kw)
    tag = f'c17_{os.getpid()}_{name}'
    try:
        res = tlc.run(SPEC, 'TrustFiles', cfg, tag, workers=1,
                      timeout=timeout, java_heap='2g', env=JVM_ENV)
        if res.error and not res.violation and not res.timed_out:
            # a starved / killed JVM on the shared machine: one more try
            res = tlc.run(SPEC, 'TrustFiles', cfg, tag, workers=1,
                          timeout=timeout, java_heap='2g', env=JVM_ENV)
        return res
    finally:
        tlc.cleanup(tag)
        try:
            os.remove(os.path.join(SPEC, cfg))
        except OSError:
            pass


def plan(ctx):
    """(name, mode, constants) of the emitting runs."""
    q = ctx.tier == 'quick'
    r = ctx.seed

    def smp(mod):
        return dict(SampleMod=mod, SampleRem=r % mod)
    runs = [
        ('pat2x2', 'pat', dict(MaxPat=2, MaxSubj=2 if q else 3, MaxItems=2)),
        ('pat3', 'pat', dict(MaxPat=3, MaxSubj=3, MaxItems=1)),
        ('kh1', 'kh', dict(MaxLines=1, HFSel=ALL_HF, MarkSel=[1, 2, 3],
                           KeySel=[1, 2, 3])),
        ('kh2', 'kh', dict(MaxLines=2, HFSel=ALL_HF, MarkSel=[1, 2, 3],
                           KeySel=[1, 2, 3], **smp(24 if q else 1))),
        ('kh2port', 'kh', dict(MaxLines=2, HFSel=[1, 7, 8, 9, 16, 18],
                               MarkSel=[1, 2, 3], KeySel=[1, 2])),
        ('kh2addr', 'kh', dict(MaxLines=2, HFSel=[10, 11, 12, 13, 14, 15, 17, 19, 20],
                               MarkSel=[1, 3], KeySel=[1, 3])),
        # the lookup triple as a dimension: host a name / IPv4 / IPv6 literal
        # / bracketed, peer address none / same / other / other family,
        # default / other port x exact, wildcard, negated, CIDR v4 / v6,
        # hashed, [host]:port lines, plain / @cert-authority / @revoked
        ('kh1q', 'kh', dict(MaxLines=1, HFSel=ALL_HF, MarkSel=[1, 2, 3],
                            KeySel=[1, 2, 3], QSel=ALL_Q)),
        ('kh2q', 'kh', dict(MaxLines=2, MarkSel=[1, 3], KeySel=[1], QSel=ALL_Q,
                            HFSel=[4, 10, 11, 13, 14, 17, 21, 22, 23, 24, 25,
                                   26, 27, 28], **smp(2 if q else 1))),
        ('patU', 'pat', dict(MaxPat=2, MaxSubj=2, MaxItems=1, Upper='TRUE')),
        ('kh3', 'kh', dict(MaxLines=3, HFSel=[1, 4, 6, 8], MarkSel=[1, 3],
                           KeySel=[1, 3], **smp(12 if q else 1))),
        ('tok', 'tok', dict(MaxTok=5 if q else 6)),
        # HISTORIES: 2-3 lookups one after the other on ONE loaded object
        # (consecutive lookups differ in address / port / host form); each
        # must give what a freshly loaded object gives
        ('hist', 'hist', dict(MaxLines=2, MaxHist=3, MarkSel=[1, 3], KeySel=[1],
                              HFSel=[1, 2, 4, 10, 11, 12, 14, 20, 26],
                              QSel=[1, 3, 5, 7, 9, 13, 14], **smp(10 if q else 1))),
        ('akhist', 'akhist', dict(MaxEntries=2, MaxOpts=1, MaxHist=3,
                                  OptSel=[1, 2, 3, 4, 5, 7, 17],
                                  **smp(150 if q else 6))),
        ('ak1', 'ak', dict(MaxEntries=1, MaxOpts=2, OptSel=ALL_OPT,
                           **smp(12 if q else 1))),
        ('ak2', 'ak', dict(MaxEntries=2, MaxOpts=1, OptSel=ALL_OPT,
                           **smp(30 if q else 2))),
    ]
    if not q:
        runs += [
            ('kh3b', 'kh', dict(MaxLines=3, HFSel=[3, 9, 16, 18],
                                MarkSel=[1, 2], KeySel=[1, 2, 3],
                                **smp(3))),
            ('kh3c', 'kh', dict(MaxLines=3, HFSel=[10, 11, 12, 14, 17],
                                MarkSel=[1, 3], KeySel=[1, 3], **smp(3))),
            ('ak3', 'ak', dict(MaxEntries=3, MaxOpts=1,
                               OptSel=[1, 2, 4, 6, 7, 15], **smp(4))),
        ]
    return runs


SENSITIVITY = [
    ('neg_pat', 'pat', dict(MaxPat=2, MaxSubj=2, MaxItems=2,
                            NegIgnored='TRUE'), 'NegationExcludes'),
    ('neg_kh', 'kh', dict(MaxLines=1, HFSel=ALL_HF, NegIgnored='TRUE'),
     'NegationExcludes'),
    ('neg_ak', 'ak', dict(MaxEntries=1, MaxOpts=1, OptSel=ALL_OPT,
                          NegIgnored='TRUE'), 'NegationExcludes'),
    ('hostliteral', 'kh', dict(MaxLines=1, HFSel=[11, 14, 22, 26],
                               MarkSel=[1, 3], QSel=ALL_Q,
                               NoHostLiteralCidr='TRUE'),
     'LiteralHostIsAddress'),
    ('fallback', 'kh', dict(MaxLines=2, HFSel=[1, 8], FallbackAlways='TRUE'),
     'FallbackRule'),
    ('droprev', 'kh', dict(MaxLines=2, HFSel=[1, 8], MarkSel=[1, 3],
                           DropPortRevoked='TRUE'), 'RevocationKept'),
    ('aliased', 'hist', dict(MaxLines=2, MaxHist=2, HFSel=[1, 11, 26],
                             QSel=[1, 3, 5], IndexAliased='TRUE'),
     'HistoryFree'),
    ('anyfrom', 'ak', dict(MaxEntries=1, MaxOpts=2, OptSel=[1, 2, 3, 4, 17, 18],
                           AnyFromSuffices='TRUE'), 'AllMustMatch'),
    ('wit_fallback', 'kh', dict(MaxLines=1, HFSel=[1, 8]), 'NeverFallsBack'),
    ('wit_neg', 'pat', dict(MaxPat=1, MaxSubj=1, MaxItems=2),
     'NeverNegExcluded'),
]


# --------------------------------------------------------------------------

class Replayer:
    def __init__(self, ctx, tf, menu, workdir):
        self.ctx = ctx
        self.tf = tf
        self.menu = menu
        self.workdir = workdir
        self.n = 0
        self.dmg_names = sorted(tf.damage_classes())
        self.exc_types = {}
        self.second = []          # kh cases eligible for ssh-keygen

    # ---- verdict helpers ----
    def damage_violation(self, dmg, api, what, replay):
        """One report per (damage class, API); repeats are only counted."""
        key = (dmg, api)
        self.ctx.dmg_hits[key] = self.ctx.dmg_hits.get(key, 0) + 1
        if self.ctx.dmg_hits[key] == 1:
            self.ctx.violation({'module': 'TrustFiles', 'damage': dmg,
                                'api': api}, what, replay=replay)

    def vetoed_by_ssh_keygen(self, text, file, qi, one):
        """True if ssh-keygen contradicts the specification on this case."""
        host, addr, port = self.menu.query(qi)
        if self.menu.host_kind(qi) != 'n':
            return False        # ssh-keygen has no CIDR / literal handling
        if addr or any(self.menu.keys[k - 1] == 'D' for _, _, k in file):
            return False
        name = f'[{host}]:{port}' if port else host
        got = self.tf.ssh_keygen_lines(text, name, self.workdir, 'veto')
        return got is not None and got != sorted(one)

    # ---- known_hosts ----
    def pat(self, rec):
        _, pl, s, matched = rec
        tf = self.tf
        hostfield = ','.join(('!' if n else '') + tf.S(t) for n, t in pl)
        subj = tf.S(s)
        text = f'{hostfield} {tf.key_text("k1")}\n'
        api = ('bytes', 'object')[self.n % 2]
        self.n += 1
        r = tf.kh_run(text, (subj, '', None), api)
        self.ctx.count(('pat', hostfield, subj), nontrivial=bool(matched))
        if r[0] == 'exc':
            self.ctx.violation(
                {'module': 'TrustFiles', 'api': 'known_hosts',
                 'hostfield': hostfield, 'host': subj, 'exception': r[1]},
                f'known_hosts line "{hostfield} <key>" lookup of {subj!r} '
                f'raised {r[1]}: {r[2]}',
                replay={'kind': 'pat', 'text': text, 'host': subj})
            return
        got = 1 if r[1][0] else 0
        if got != matched or r[1][1] or r[1][2] or r[2]:
            if self.tf.ssh_keygen_lines(text, subj, self.workdir, 'veto') \
                    not in (None, [1] if matched else []):
                self.ctx.divergence(f'pat: spec and ssh-keygen disagree on '
                                    f'{hostfield!r} vs {subj!r}')
                return
            self.ctx.violation(
                {'module': 'TrustFiles', 'api': 'known_hosts',
                 'hostfield': hostfield, 'host': subj},
                f'known_hosts pattern list {hostfield!r} looked up with '
                f'host {subj!r}: rule says '
                f'{"match" if matched else "no match"}, asyncssh returned '
                f'{r[1]}',
                replay={'kind': 'pat', 'text': text, 'host': subj,
                        'expected': matched})
        elif self.n % 29 == 0 and 'A' not in hostfield + subj:
            self.second.append((text, subj, [1] if matched else [],
                                f'{hostfield} ? {subj}'))

    def kh(self, rec):
        _, file, qi, host, ca, rev, one = rec
        tf, menu = self.tf, self.menu
        self.n += 1
        has_d = any(menu.keys[k - 1] == 'D' for _, _, k in file)
        dmg = self.dmg_names[self.n % len(self.dmg_names)] if has_d else None
        text = tf.kh_text(menu, file, dmg, salt_variant=self.n % 5)
        q = menu.query(qi)
        api = ('bytes', 'object', 'file', 'files')[
            self.n % 4 if self.n % 16 < 2 else self.n % 2]
        r = tf.kh_run(text, q, api, self.workdir)
        desc = [[menu.hostfield(h) if menu.hf[h - 1][0] == 'l'
                 else '|1|HMAC(' + tf.S(menu.hf[h - 1][1]) + ')',
                 menu.markers[m - 1], menu.keys[k - 1]] for h, m, k in file]
        self.ctx.count(('kh', str(file), qi),
                       nontrivial=bool(host or ca or rev))
        if self.n % 1500 == 1:
            self.ctx.sample({'known_hosts': desc, 'query': q,
                             'predicted': [host, ca, rev],
                             'observed': r[1] if r[0] == 'ok' else r})
        replay = {'kind': 'kh', 'text': text, 'query': q, 'api': api,
                  'expected': [host, ca, rev]}
        if r[0] == 'exc':
            if has_d:
                self.damage_violation(
                    dmg, 'known_hosts',
                    f'one known_hosts line with a damaged key ({dmg}) makes '
                    f'the whole file unusable: {r[1]}: {r[2]}', replay)
            else:
                self.ctx.violation(
                    {'module': 'TrustFiles', 'api': 'known_hosts',
                     'file': desc, 'query': q, 'exception': r[1]},
                    f'known_hosts lookup raised {r[1]}: {r[2]}',
                    replay=replay)
            return
        got = r[1]
        sets_equal = all(set(g) == set(p) for g, p in
                         zip(got, (host, ca, rev))) and not r[2]
        if not sets_equal:
            if self.vetoed_by_ssh_keygen(text, file, qi, one):
                self.ctx.divergence(f'kh: spec and ssh-keygen disagree on '
                                    f'{desc} query {q}')
                return
            sig = {'module': 'TrustFiles', 'api': 'known_hosts',
                   'file': desc, 'query': list(q)}
            if has_d:
                sig['damaged_line_class'] = dmg
            self.ctx.violation(
                sig, f'known_hosts {desc} looked up with {q}: rule selects '
                f'host keys {host}, CA keys {ca}, revoked {rev}; asyncssh '
                f'returned {got}', replay=replay)
        elif [list(x) for x in got] != [host, ca, rev]:
            self.ctx.divergence(f'kh: same key sets but different '
                                f'order/multiplicity: {desc} {q}: '
                                f'{got} vs {[host, ca, rev]}')
        elif not has_d and not q[1] and self.n % 7 == 0 and \
                menu.host_kind(qi) == 'n':
            name = f'[{q[0]}]:{q[2]}' if q[2] else q[0]
            self.second.append((text, name, one, f'{desc} ? {name}'))

    # ---- authorized_keys: tokenizer ----
    def tok(self, rec):
        _, s, out, opts = rec
        tf = self.tf
        self.n += 1
        text = tf.tok_text(s)
        api = 'file' if self.n % 40 == 0 else 'object'
        r = tf.tok_run(text, api, self.workdir)
        optstr = tf.S(s)
        self.ctx.count(('tok', optstr), nontrivial=(out == 'ok' and
                                                    bool(opts)))
        pred = {tf.S(n): (True if flag else [tf.S(v) for v in vals])
                for n, flag, vals in opts}
        ok = (r[0] == out and (out != 'ok' or r[2] == pred) and
              (out == 'err' or r[1]))
        if r[0] == 'err' and r[1] != 'ValueError':
            self.exc_types.setdefault(r[1], optstr)
        if self.n % 2500 == 1:
            self.ctx.sample({'authorized_keys options': optstr,
                             'predicted': [out, pred], 'observed': r})
        if not ok:
            self.ctx.violation(
                {'module': 'TrustFiles', 'api': 'authorized_keys',
                 'options': optstr},
                f'authorized_keys option string {optstr!r}: quoting rules '
                f'give {out} {pred if out == "ok" else ""}, asyncssh gave '
                f'{r}', replay={'kind': 'tok', 'text': text,
                                'expected': [out, pred]})

    # ---- authorized_keys: option semantics ----
    def ak(self, rec):
        _, file, q, r_idx, pred = rec
        tf, menu = self.tf, self.menu
        self.n += 1
        text = tf.ak_text(menu, file)
        api = 'file' if self.n % 40 == 0 else 'object'
        r = tf.ak_run(menu, text, q, api, self.workdir)
        entries = text.replace(tf.key_text('k1'), '<k1>').replace(
            tf.key_text('k2'), '<k2>').splitlines()
        self.ctx.count(('ak', str(file), str(q)), nontrivial=r_idx != 0)
        expected = None if r_idx == 0 else tf.ak_predicted(pred)
        if self.n % 2500 == 1:
            self.ctx.sample({'authorized_keys': entries, 'query': q,
                             'predicted': expected, 'observed': r})
        ok = (r[0] == 'none' and r_idx == 0) or \
             (r[0] == 'opts' and r_idx != 0 and r[1] == expected)
        if not ok:
            qd = {'key': menu.akkeys[q[0] - 1],
                  'host': 'a' if q[1] == 1 else 'b',
                  'addr': f'10.0.0.{q[2]}', 'principals': menu.princ[q[3] - 1]
                  if q[3] == 1 else [tf.S(x) for x in menu.princ[q[3] - 1]],
                  'ca': bool(q[4])}
            self.ctx.violation(
                {'module': 'TrustFiles', 'api': 'authorized_keys',
                 'entries': entries, 'query': qd},
                f'authorized_keys {entries} validated with {qd}: rule '
                f'selects entry {r_idx} {expected}, asyncssh returned {r}',
                replay={'kind': 'ak', 'text': text, 'query': qd,
                        'expected': expected})

    # ---- histories: several lookups on ONE loaded object ----
    def hist(self, rec):
        _, file, qs, preds = rec
        import asyncssh
        tf, menu = self.tf, self.menu
        self.n += 1
        text = tf.kh_text(menu, file, None, salt_variant=self.n % 5)
        desc = [[menu.hostfield(h) if menu.hf[h - 1][0] == 'l'
                 else '|1|HMAC(' + tf.S(menu.hf[h - 1][1]) + ')',
                 menu.markers[m - 1], menu.keys[k - 1]] for h, m, k in file]
        queries = [menu.query(qi) for qi in qs]
        self.ctx.count(('hist', str(file), str(qs)), nontrivial=True)
        try:
            obj = asyncssh.import_known_hosts(text)
            got = []
            for i, (host, addr, port) in enumerate(queries):
                r = obj.match(host, addr, port) if (self.n + i) % 2 else \
                    asyncssh.match_known_hosts(obj, host, addr, port)
                got.append([[tf.key_id(k) for k in lst] for lst in r[:3]])
            fresh = [[[tf.key_id(k) for k in lst] for lst in
                      asyncssh.import_known_hosts(text).match(*q)[:3]]
                     for q in queries]
        except Exception as exc:        # pylint: disable=broad-except
            got = fresh = f'{type(exc).__name__}: {exc}'
        if self.n % 1500 == 1:
            self.ctx.sample({'known_hosts': desc, 'lookups on one object':
                             queries, 'predicted': preds, 'observed': got})
        want = [[list(x) for x in p] for p in preds]
        if got != want or fresh != want:
            def sets(rs):
                return [[sorted(set(x)) for x in r] for r in rs] \
                    if isinstance(rs, list) else rs
            if sets(got) == sets(want) and sets(fresh) == sets(want):
                self.ctx.divergence(f'hist: same key sets, other multiplicity:'
                                    f' {desc} {queries}: {got} vs {want}')
                return
            which = 'the used object' if fresh == want else 'a fresh object'
            self.ctx.violation(
                {'module': 'TrustFiles', 'api': 'known_hosts', 'file': desc,
                 'history': [list(q) for q in queries]},
                f'known_hosts {desc}, lookups {queries} one after the other '
                f'on ONE loaded object: each must give what a freshly loaded '
                f'object gives, {want}; {which} gave {got}',
                replay={'kind': 'hist', 'text': text,
                        'queries': [list(q) for q in queries],
                        'expected': want})

    def akhist(self, rec):
        _, file, steps = rec
        import asyncssh
        tf, menu = self.tf, self.menu
        self.n += 1
        text = tf.ak_text(menu, file)
        entries = text.replace(tf.key_text('k1'), '<k1>').replace(
            tf.key_text('k2'), '<k2>').splitlines()
        self.ctx.count(('akhist', str(file), str([s[0] for s in steps])),
                       nontrivial=any(s[1] for s in steps))
        want, got, qds = [], [], []
        try:
            obj = asyncssh.import_authorized_keys(text)
        except Exception as exc:        # pylint: disable=broad-except
            obj = None
            got = f'{type(exc).__name__}: {exc}'
        for q, r_idx, pred in steps:
            want.append(None if r_idx == 0 else tf.ak_predicted(pred))
            p = menu.princ[q[3] - 1]
            qd = {'key': menu.akkeys[q[0] - 1],
                  'host': 'a' if q[1] == 1 else 'b', 'addr': f'10.0.0.{q[2]}',
                  'principals': None if p == 'none' else [tf.S(x) for x in p],
                  'ca': bool(q[4])}
            qds.append(qd)
            if obj is not None:
                try:
                    r = obj.validate(tf.keys()[qd['key']][0], qd['host'],
                                     qd['addr'], qd['principals'], qd['ca'])
                    got.append(None if r is None else tf.ak_normal(r))
                except Exception as exc:    # pylint: disable=broad-except
                    got.append(f'{type(exc).__name__}: {exc}')
        if got != want:
            self.ctx.violation(
                {'module': 'TrustFiles', 'api': 'authorized_keys',
                 'entries': entries, 'history': qds},
                f'authorized_keys {entries}, validate() called with {qds} '
                f'one after the other on ONE loaded object: expected {want} '
                f'(what a fresh object gives each time), got {got}',
                replay={'kind': 'akhist', 'text': text, 'queries': qds,
                        'expected': want})

    def dispatch(self, rec):
        getattr(self, rec[0])(rec)


class _Capped:
    """ctx proxy: after MAXV reported violations further ones are only
    counted (a broken rule fails thousands of cases)."""
    MAXV = 40

    def __init__(self, ctx):
        self._ctx = ctx
        self.suppressed = 0

    def __getattr__(self, name):
        return getattr(self._ctx, name)

    def violation(self, signature, what, replay=None):
        if len(self._ctx.violations) >= self.MAXV:
            self.suppressed += 1
            return True
        return self._ctx.violation(signature, what, replay=replay)


def damage_sweep(ctx, tf, menu, workdir):
    """Every damage class x API x position: the result for the undamaged
    lines must be what it is without the damaged line."""
    k1, k2 = tf.key_text('k1'), tf.key_text('k2')
    pub1, pub2 = tf.keys()['k1'][0], tf.keys()['k2'][0]
    n = 0

    def report(cls, api, what, replay):
        key = (cls, api)
        ctx.dmg_hits[key] = ctx.dmg_hits.get(key, 0) + 1
        if ctx.dmg_hits[key] == 1:
            ctx.violation({'module': 'TrustFiles', 'damage': cls,
                           'api': api}, what, replay=replay)
    for cls, bad in sorted(tf.damage_classes().items()):
        for pos in range(3):
            # known_hosts
            lines = [f'a {k1}', f'@revoked a* {k2}']
            lines.insert(pos, f'a,b {bad}')
            text = '\n'.join(lines) + '\n'
            for api in ('bytes', 'object', 'file'):
                r = tf.kh_run(text, ('a', '', None), api, workdir)
                n += 1
                ctx.count(('dmg', 'kh', cls, pos, api))
                if r[0] == 'exc' or r[1] != (['k1'], [], ['k2']) or r[2]:
                    report(
                        cls, 'known_hosts',
                        f'known_hosts with one damaged key line ({cls}, '
                        f'line {pos + 1} of 3): expected the other two lines '
                        f'to be returned, got {r}',
                        {'kind': 'kh', 'text': text,
                         'query': ['a', '', None], 'api': api})
            # authorized_keys
            lines = [f'command="x" {k1}', f'no-pty {k2}']
            lines.insert(pos, f'from="a" {bad}' if pos == 1 else bad)
            text = '\n'.join(lines) + '\n'
            for api in ('object', 'file'):
                try:
                    if api == 'object':
                        import asyncssh
                        ak = asyncssh.import_authorized_keys(text)
                    else:
                        import asyncssh
                        path = os.path.join(workdir, 'ak_dmg')
                        with open(path, 'w') as f:
                            f.write(text)
                        ak = asyncssh.read_authorized_keys(path)
                    o1 = ak.validate(pub1, 'a', '10.0.0.4')
                    o2 = ak.validate(pub2, 'a', '10.0.0.4')
                    r = (dict(o1) if o1 is not None else None,
                         dict(o2) if o2 is not None else None)
                    good = r == ({'command': 'x'}, {'no-pty': True})
                except Exception as exc:    # pylint: disable=broad-except
                    r = (type(exc).__name__, str(exc)[:100])
                    good = False
                n += 1
                ctx.count(('dmg', 'ak', cls, pos, api))
                if not good:
                    report(
                        cls, 'authorized_keys',
                        f'authorized_keys with one damaged key line ({cls}, '
                        f'line {pos + 1} of 3): expected the other two '
                        f'entries to validate, got {r}',
                        {'kind': 'ak_dmg', 'text': text, 'api': api})
    return n


def second_opinion(ctx, tf, cases, workdir, limit):
    """ssh-keygen -F on a sample; only reports."""
    step = max(1, len(cases) // limit)
    todo = cases[::step][:limit]
    agree = differ = 0

    def one(i):
        text, name, exp, desc = todo[i]
        return tf.ssh_keygen_lines(text, name, workdir, f'so{i}'), exp, desc
    with cf.ThreadPoolExecutor(max_workers=6) as ex:
        for got, exp, desc in ex.map(one, range(len(todo))):
            if got is None:
                continue
            if got == sorted(exp):
                agree += 1
            else:
                differ += 1
                ctx.divergence(f'second opinion: ssh-keygen -F selects lines '
                               f'{got}, the specification {sorted(exp)}: '
                               f'{desc}')
    ctx.notes.append(f'ssh-keygen -F second opinion: {agree} agree, '
                     f'{differ} differ (of {len(todo)} sampled cases)')


def replay_one(ctx, tf, path, workdir):
    """./check C17 --replay FILE: run the recorded input again."""
    import json
    import asyncssh
    with open(path) as f:
        doc = json.load(f)
    rp, sig = doc['replay'], doc['signature']
    kind = rp['kind']
    if kind in ('kh', 'pat'):
        q = rp.get('query') or [rp['host'], '', None]
        got = tf.kh_run(rp['text'], tuple(q), rp.get('api', 'bytes'), workdir)
        exp = rp.get('expected')
        if kind == 'pat':
            exp = [['k1'] if exp else [], [], []]
        good = got[0] == 'ok' and (exp is None or [set(x) for x in got[1]] ==
                                   [set(x) for x in exp]) and not got[2]
        if exp is None:         # damage sweep file
            good = got[0] == 'ok' and got[1] == (['k1'], [], ['k2'])
    elif kind == 'hist':
        obj = asyncssh.import_known_hosts(rp['text'])
        got = [[[tf.key_id(k) for k in lst]
                for lst in obj.match(q[0], q[1], q[2])[:3]]
               for q in rp['queries']]
        good = got == rp['expected']
    elif kind == 'akhist':
        obj = asyncssh.import_authorized_keys(rp['text'])
        got = []
        for q in rp['queries']:
            r = obj.validate(tf.keys()[q['key']][0], q['host'], q['addr'],
                             q['principals'], q['ca'])
            got.append(None if r is None else tf.ak_normal(r))
        good = got == rp['expected']
    elif kind == 'tok':
        got = tf.tok_run(rp['text'])
        exp = rp['expected']
        good = got[0] == exp[0] and (exp[0] != 'ok' or got[2] == exp[1])
    elif kind == 'ak':
        q = rp['query']
        try:
            ak = asyncssh.import_authorized_keys(rp['text'])
            pr = q['principals']
            r = ak.validate(tf.keys()[q['key']][0], q['host'], q['addr'],
                            None if pr == 'none' else pr, q['ca'])
            got = None if r is None else tf.ak_normal(r)
        except Exception as exc:        # pylint: disable=broad-except
            got = f'{type(exc).__name__}: {exc}'
        good = got == rp['expected']
    else:                       # ak_dmg
        try:
            ak = asyncssh.import_authorized_keys(rp['text'])
            got = [ak.validate(tf.keys()[k][0], 'a', '10.0.0.4')
                   for k in ('k1', 'k2')]
            good = got == [{'command': 'x'}, {'no-pty': True}]
        except Exception as exc:        # pylint: disable=broad-except
            got, good = f'{type(exc).__name__}: {exc}', False
    ctx.count(('replay', path))
    ctx.traces_validated(1)
    ctx.level = 'exploration'
    print(f'replay {path}: observed {got}')
    if not good:
        ctx.violation(sig, doc['what'] + f' [replayed: {got}]', replay=rp)


def main(ctx):
    from harness.drivers import trust_files as tf
    import asyncssh
    ctx.notes.append(f'asyncssh from {os.path.dirname(asyncssh.__file__)}')
    os.makedirs(tlc.WORK, exist_ok=True)
    workdir = tempfile.mkdtemp(prefix='c17_files_', dir=tlc.WORK)
    try:
        if getattr(ctx, 'replay_path', None):
            replay_one(ctx, tf, ctx.replay_path, workdir)
        else:
            _main(ctx, tf, workdir)
    finally:
        shutil.rmtree(workdir, ignore_errors=True)


def _main(real_ctx, tf, workdir):
    real_ctx.dmg_hits = {}
    ctx = _Capped(real_ctx)
    quick = ctx.tier == 'quick'
    runs = plan(ctx)
    results = {}
    with cf.ThreadPoolExecutor(max_workers=6 if quick else 5) as ex:
        futs = {}
        for name, mode, consts in runs:
            futs[ex.submit(run_tlc, name, INVS[mode] + ['EmitCase'],
                           Mode=f'"{mode}"', Emit='TRUE', **consts)] = name
        sens = {}
        for name, mode, consts, prop in SENSITIVITY:
            sens[ex.submit(run_tlc, name, [prop], Mode=f'"{mode}"',
                           **consts)] = (name, prop)
        for f in cf.as_completed(list(futs) + list(sens)):
            if f in futs:
                results[futs[f]] = f.result()
            else:
                name, prop = sens[f]
                ctx.require_tlc_ok(f'TrustFiles {name} (wrong rule / witness:'
                                   f' must violate {prop})', f.result(),
                                   expect_violation=prop)

    import time
    t_tlc = time.time() - real_ctx.t0
    menu = None
    total = 0
    replayer = None
    for name, mode, consts in runs:
        res = results[name]
        ctx.require_tlc_ok(f'TrustFiles {name} {mode} {consts}', res)
        recs = tf.records(res.output)
        ctx.require(recs and recs[0][0] == 'menu',
                    f'{name}: menu line missing in TLC output')
        if menu is None:
            menu = tf.Menu(recs[0])
            replayer = Replayer(ctx, tf, menu, workdir)
        cases = [r for r in recs[1:] if r and r[0] == mode]
        ctx.require(len(cases) == res.distinct,
                    f'{name}: parsed {len(cases)} case lines, TLC reports '
                    f'{res.distinct} states')
        for rec in cases:
            replayer.dispatch(rec)
        total += len(cases)
        res.output = ''
    ctx.traces_validated(total)

    n = damage_sweep(ctx, tf, menu, workdir)
    ctx.traces_validated(n)

    second_opinion(ctx, tf, replayer.second, workdir, 700 if quick else 4000)

    ctx.notes.append(f'phases: TLC {t_tlc:.1f}s, replay+sweep+second opinion '
                     f'{time.time() - real_ctx.t0 - t_tlc:.1f}s')
    if ctx.suppressed:
        ctx.notes.append(f'{ctx.suppressed} further violations not written '
                         f'out (cap {ctx.MAXV})')
    if ctx.dmg_hits:
        ctx.notes.append('damaged-key cases that broke the whole file, per '
                         '(class, api): ' + str(sorted(
                             (k[0], k[1], v) for k, v in
                             ctx.dmg_hits.items())))
    if replayer.exc_types:
        ctx.notes.append('option strings rejected with an exception other '
                         'than ValueError (counted as "rejected"): ' +
                         str(replayer.exc_types))
    real_ctx.level = 'model_checking'
    real_ctx.assumptions += [
        'names over a lower-case alphabet (OpenSSH folds case, asyncssh '
        'matches case-sensitively: constant CaseFold, recorded, not alarmed)',
        'the address CIDR patterns are applied to is the peer address, or the '
        'host itself when it is an IP literal and no peer address is known '
        '(tunnel, proxy command, non-IP socket); with a peer address DIFFERENT '
        'from an IP-literal host only the peer address is used (as the code '
        'does; a connection to a literal normally has that very address); '
        'IPv4 and IPv6, eight addresses each; ssh-keygen is only consulted '
        'for host NAMES (it knows no CIDR)',
        'CIDR host patterns are an asyncssh extension in known_hosts; they '
        'match the address also when a [host]:port lookup is made',
        'the plain-name fallback of a [host]:port lookup happens when no '
        'trusted (host or CA) entry matched; @revoked entries of the '
        '[host]:port lookup stay in the revoked list (as repaired in /repo '
        'commit 7258cd0; RevocationKept)',
        'option tokenizer modelled as implemented (a backslash escapes any '
        'character, also outside quotes; OpenSSH only knows \\" inside '
        'quotes); a malformed option string rejects the whole file '
        '(ValueError) by design',
        'hashed names: HMAC-SHA1 treated as injective',
        'a loaded SSHKnownHosts / SSHAuthorizedKeys object is immutable: '
        'histories of 2-3 lookups on one object (consecutive lookups differ) '
        'must each give what a freshly loaded object gives (HistoryFree; '
        'variant IndexAliased = seed C17-r10)',
    ]


if __name__ == '__main__':
    run_check('C17', main)
