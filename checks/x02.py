"""X02 (extra module) - request / reply discipline of SSH channel requests and
global requests (asyncssh/channel.py, asyncssh/connection.py).

1. TLC checks specs/Requests/Requests.tla (requester with per-scope waiter
   lists, serving side with per-scope request queues served one at a time,
   slow handlers, cancellation, CHANNEL_CLOSE from either side, connection
   loss, unsolicited replies) exhaustively at small constants against
   MatchOwn, ResultRight, OneReplyEach, RepliesInOrder, ServedInOrder,
   OneAtATime, WaitersResolve, AllAnswered, NoReplyAfterClose,
   NoServiceAfterGone, UnsolicitedFatal, NoProtocolError, StreamsSane and,
   under weak fairness, Terminates.  Every action must be covered.  Ten
   sensitivity variants (wrong rules TLC must reject): LIFO matching, reply
   for no-reply requests, concurrent service, cancelled waiter removed, queue
   of a dead channel served on (the rule of the pinned tree), CLOSE / loss
   not failing the waiters, reply after the own CLOSE, unsolicited reply
   ignored, no reply for a failing handler.
2. Behaviours (BFS: one shortest behaviour per quiescent final state;
   simulation for volume and depth, seeded by VERIF_SEED) are replayed
   (harness/drivers/requests.py) into a real client/server pair ('api') and
   into a real server driven by the raw peer ('raw') with manual delivery and
   driver-controlled handler completion; the projected state is compared
   with the model after every step (L2), the monitors look at observations
   (L1).  A fixed schedule without any gate (the real agent-forwarding
   handler; auth-agent-req + another request + CHANNEL_CLOSE in one read).
3. Self-test: six deliberately broken copies of the rules (monkeypatched
   into asyncssh for the duration of the test) must each be caught.
"""

import concurrent.futures
import json
import os
import random

from harness import tlc
from harness.framework import run_check, VERIF

SPEC = os.path.join(VERIF, 'specs', 'Requests')
INVS = ['TypeOK', 'MatchOwn', 'ResultRight', 'OneReplyEach', 'RepliesInOrder',
        'ServedInOrder', 'OneAtATime', 'WaitersResolve', 'AllAnswered',
        'NoReplyAfterClose', 'NoServiceAfterGone', 'UnsolicitedFatal',
        'NoProtocolError', 'StreamsSane']
ACTIONS = ['AMake', 'ACancel', 'ADeliverRequest', 'AHandlerCompletes',
           'ADeliverReply', 'ACloseChannel', 'ADeliverClose', 'ACut',
           'ASendUnsolicited', 'ADeliverUnsolicited']

BASE = dict(Chans='{"a"}', GlobalOn='TRUE', MaxReq=3, MaxSlow=1,
            WantSet='{TRUE, FALSE}', KindSet='{"ok", "fail", "slow"}',
            ReqRole='"code"', AllowCancel='TRUE', AllowClose='TRUE',
            AllowCut='TRUE', AllowUnsol='FALSE', KeepLog='FALSE',
            Fifo='TRUE', OnlyWanted='TRUE', Serial='TRUE', CancelKeeps='TRUE',
            DropOnGone='TRUE', CloseResolves='TRUE', CutResolves='TRUE',
            SilentAfterClose='TRUE', UnsolFatal='TRUE', FailReplies='TRUE')
FREE = dict(ReqRole='"free"', AllowCancel='FALSE', AllowUnsol='TRUE')
PID = os.getpid()

JVM = {'_JAVA_OPTIONS': '-XX:TieredStopAtLevel=1 -XX:ParallelGCThreads=2 '
                        '-XX:CICompilerCount=1'}


def write_cfg(name, consts, invs=(), view=True, spec='Spec', prop=None):
    d = dict(BASE)
    d.update(consts)
    lines = ['CONSTANTS'] + [f'  {k} = {v}' for k, v in d.items()]
    lines += [f'SPECIFICATION {spec}', 'CHECK_DEADLOCK FALSE']
    if view:
        lines.append('VIEW view')
    lines += [f'INVARIANT {i}' for i in invs]
    if prop:
        lines.append(f'PROPERTY {prop}')
    with open(os.path.join(SPEC, name), 'w') as f:
        f.write('\n'.join(lines) + '\n')
    return name


def mc(name, consts, invs=INVS, workers=2, timeout=1500, prop=None,
       coverage=False):
    tag = f'X02_{name}_{PID}'
    cfg = write_cfg(f'_{tag}.cfg', consts, invs=invs, view=prop is None,
                    spec='FairSpec' if prop else 'Spec', prop=prop)
    try:
        return tlc.run(SPEC, 'Requests', cfg, tag, workers=workers,
                       timeout=timeout, java_heap='3g', env=JVM,
                       coverage=coverage)
    finally:
        tlc.cleanup(tag)
        os.remove(os.path.join(SPEC, cfg))


def _lines(res):
    return [l for l in res.output.splitlines()
            if l.startswith('"<<\\"SCRIPT')]


def emit(name, consts, workers=2, timeout=1500):
    """exhaustive run with the invariants AND one printed behaviour per
    quiescent final state; returns (raw lines, TLCResult)"""
    tag = f'X02_{name}_{PID}'
    cfg = write_cfg(f'_{tag}.cfg', dict(consts, KeepLog='TRUE'),
                    invs=INVS + ['EmitScript'])
    try:
        res = tlc.run(SPEC, 'Requests', cfg, tag, workers=workers,
                      timeout=timeout, java_heap='3g', env=JVM)
    finally:
        tlc.cleanup(tag)
        os.remove(os.path.join(SPEC, cfg))
    return _lines(res), res


def simulate(name, consts, num, seed, depth=40, timeout=600):
    tag = f'X02_{name}_{PID}'
    cfg = write_cfg(f'_{tag}.cfg', dict(consts, KeepLog='TRUE'),
                    invs=INVS + ['EmitScript'], view=False)
    try:
        res = tlc.run(SPEC, 'Requests', cfg, tag, workers=1, timeout=timeout,
                      java_heap='2g', env=JVM, simulate=f'num={num}',
                      depth=depth, seed=seed)
    finally:
        tlc.cleanup(tag)
        os.remove(os.path.join(SPEC, cfg))
    if res.error and res.error != 'timeout' and not res.violation:
        if 'Error:' not in res.output:
            res.error = None
            res.ok = res.violation is None
    return sorted(set(_lines(res))), res


def parse_line(line):
    v = tlc.parse_value(tlc.parse_value(line))
    return v[1], v[2]


def labels(script):
    return [l for l, _ in script]


def drop_prefixes(lines):
    """simulation prints every quiescent point of a behaviour: keep the
    longest ones only (decided on the text: parsing is the expensive part)"""
    keyed = sorted((l[:l.index(', [reqs |->')], l) for l in lines)
    out = []
    for n, (k, l) in enumerate(keyed):
        if n + 1 < len(keyed) and keyed[n + 1][0].startswith(k[:-2] + ', '):
            continue
        out.append(l)
    return out


def compact(script):
    out = []
    for l in labels(script):
        if l[0] == 'make':
            out.append(f'make{l[4]}:{l[1]}{"+" if l[2] else "-"}{l[3]}'
                       f'{"" if l[5] else "(closed)"}')
        else:
            out.append(':'.join(str(x) for x in l))
    return ' '.join(out)


def defect_of(clause, r):
    if clause == 'NoLateEffect':
        return 'listener_kept_after_connection_lost'
    if clause in ('NoBlowUp', 'NoProtocolError') and \
            'queue_served_after_channel_close' in r['defects']:
        return 'queue_served_after_channel_close'
    return 'none'


def report(ctx, setup, script, deco, r, counters):
    known = False
    for clause, text in r['violations']:
        defect = defect_of(clause, r)
        if defect != 'none':
            known = True
        key = (clause, setup, defect)
        counters[key] = counters.get(key, 0) + 1
        if counters[key] > 2:
            continue
        sig = {'module': 'Requests', 'clause': clause, 'setup': setup,
               'defect': defect, 'n': counters[key]}
        ctx.violation(sig, f'{clause} [{setup}] {text}; script: '
                           f'{compact(script)}; requests: {deco.d["real"]}',
                      replay={'setup': setup, 'script': script,
                              'deco': deco.d})
    if known and r['divergences']:
        # the model has the repaired rule: where a reported defect of the
        # pinned tree is in play the code cannot follow it step by step
        counters[('unmodelled',)] = counters.get(('unmodelled',), 0) + 1
        return
    for d in r['divergences']:
        ctx.divergence(f'Requests [{setup}] {d}; script: {compact(script)}; '
                       f'requests: {deco.d["real"]}; batch: '
                       f'{deco.d["batch"]}')


# ---------------------------------------------------------------------------
# self-test: broken rules, monkeypatched into asyncssh
# ---------------------------------------------------------------------------
def mutants():
    import asyncio
    import asyncssh
    from asyncssh import channel as ch, connection as cn
    from asyncssh.constants import (MSG_CHANNEL_SUCCESS, MSG_CHANNEL_FAILURE,
                                    MSG_REQUEST_SUCCESS, MSG_REQUEST_FAILURE)
    Chan, Conn = ch.SSHChannel, cn.SSHConnection

    class Patch:
        def __init__(self, name, setups, items):
            self.name, self.setups, self.items = name, setups, items
            self.saved = []

        def __enter__(self):
            for obj, attr, new in self.items:
                if isinstance(obj, dict):
                    self.saved.append((obj, attr, obj[attr]))
                    obj[attr] = new
                else:
                    self.saved.append((obj, attr, obj.__dict__[attr]))
                    setattr(obj, attr, new)

        def __exit__(self, *exc):
            for obj, attr, old in reversed(self.saved):
                if isinstance(obj, dict):
                    obj[attr] = old
                else:
                    setattr(obj, attr, old)
            self.saved = []
            return False

    def lifo_chan(self, pkttype, _pktid, packet):
        packet.check_end()
        if self._request_waiters:
            waiter = self._request_waiters.pop()
            if not waiter.cancelled():
                waiter.set_result(pkttype == MSG_CHANNEL_SUCCESS)
        else:
            raise asyncssh.ProtocolError('Unexpected channel response')

    def lifo_glob(self, pkttype, _pktid, packet):
        if self._global_request_waiters:
            waiter = self._global_request_waiters.pop()
            if not waiter.cancelled():
                waiter.set_result((pkttype, packet))
        else:
            raise asyncssh.ProtocolError('Unexpected global response')

    def reply_unwanted(self, result):
        request, _, _want = self._request_queue.pop(0)
        if self._send_state not in {'close_pending', 'closed'}:
            self.send_packet(MSG_CHANNEL_SUCCESS if result
                             else MSG_CHANNEL_FAILURE)
        if self._request_queue:
            self._service_next_request()

    def concurrent(self, _pkttype, _pktid, packet):
        # the "is anything being served" test is gone
        request = packet.get_string().decode('ascii')
        want_reply = packet.get_boolean()
        self._request_queue.append((request, packet, want_reply))
        self._service_next_request()

    async def cancel_removes(self, request, *args):
        if not self._transport:
            return MSG_REQUEST_FAILURE, cn.SSHPacket(b'')
        waiter = self._loop.create_future()
        self._global_request_waiters.append(waiter)
        self._send_global_request(request, *args, want_reply=True)
        try:
            return await waiter
        except asyncio.CancelledError:
            if waiter in self._global_request_waiters:
                self._global_request_waiters.remove(waiter)
            raise

    def no_failure(self, result):
        _, _, want_reply = self._global_request_queue.pop(0)
        if want_reply and result:
            response = b'' if result is True else result
            self.send_packet(MSG_REQUEST_SUCCESS, response)
        if self._global_request_queue:
            self._service_next_global_request()

    def eager_global(self, _pkttype, _pktid, packet):
        request = packet.get_string().decode('ascii')
        want_reply = packet.get_boolean()
        name = '_process_' + cn.map_handler_name(request) + '_global_request'
        handler = getattr(self, name, None)
        self._global_request_queue.append((handler, packet, want_reply))
        self._service_next_global_request()

    return [
        Patch('LIFO matching of channel replies', ('api',),
              [(Chan, '_process_response', lifo_chan),
               (Chan._packet_handlers, MSG_CHANNEL_SUCCESS, lifo_chan),
               (Chan._packet_handlers, MSG_CHANNEL_FAILURE, lifo_chan)]),
        Patch('LIFO matching of global replies', ('api',),
              [(Conn, '_process_global_response', lifo_glob),
               (Conn._packet_handlers, MSG_REQUEST_SUCCESS, lifo_glob),
               (Conn._packet_handlers, MSG_REQUEST_FAILURE, lifo_glob)]),
        Patch('reply for want_reply = FALSE channel requests',
              ('api', 'raw'), [(Chan, '_report_response', reply_unwanted)]),
        Patch('channel request served at arrival (concurrent service)',
              ('api', 'raw'),
              [(Chan, '_process_request', concurrent),
               (Chan._packet_handlers, 98, concurrent)]),
        Patch('global request served at arrival (concurrent service)',
              ('api', 'raw'),
              [(Conn, '_process_global_request', eager_global),
               (Conn._packet_handlers, 80, eager_global)]),
        Patch('cancelled caller removed from the global waiter list',
              ('api',), [(Conn, '_make_global_request', cancel_removes)]),
        Patch('no FAILURE reply for a failing global handler',
              ('api', 'raw'),
              [(Conn, '_report_global_response', no_failure)]),
    ]


def selftest(ctx, drv, pool, rnd):
    """every broken rule must be caught by replaying model behaviours"""
    caught = {}
    for patch in mutants():
        found = None
        tried = 0
        with patch:
            for setup, script in pool:
                if setup not in patch.setups:
                    continue
                tried += 1
                deco = drv.Deco.pick(rnd, script, setup)
                r = drv.replay(setup, script, deco)
                bad = [v for v in r['violations']
                       if defect_of(v[0], r) == 'none']
                if bad:
                    found = (tried, bad[0][0])
                    break
                if tried >= 600:
                    break
        ctx.require(found is not None,
                    f'self-test: the broken rule "{patch.name}" was not '
                    f'caught by {tried} replays')
        caught[patch.name] = found
    ctx.notes.append('self-test (broken rule -> replays needed, clause): ' +
                     '; '.join(f'{k} -> {v[0]}, {v[1]}'
                               for k, v in caught.items()))


def main(ctx):
    from harness.drivers import requests as drv
    quick = ctx.tier == 'quick'
    rnd = random.Random(ctx.seed * 7919 + 211)
    os.makedirs(tlc.WORK, exist_ok=True)
    counters = {}

    if ctx.replay_path:
        with open(ctx.replay_path) as f:
            rp = json.load(f)['replay']
        if rp['setup'] == 'agent_close':
            bad, seen = drv.agent_close_case(*rp['case'])
            print('replayed:', bad, seen)
            ctx.count(('replay', ctx.replay_path))
            for clause, text in bad:
                ctx.violation({'module': 'Requests', 'clause': clause,
                               'setup': 'agent_close', 'defect':
                               'queue_served_after_channel_close'
                               if rp['case'][2] else 'none', 'n': 1},
                              f'{clause} [agent_close] {text}', replay=rp)
            return
        deco = drv.Deco(rp['deco'])
        r = drv.replay(rp['setup'], rp['script'], deco)
        print('replayed:', {k: (sorted(v) if isinstance(v, set) else v)
                            for k, v in r.items()})
        ctx.count(('replay', ctx.replay_path))
        report(ctx, rp['setup'], rp['script'], deco, r, counters)
        return

    W = 2 if quick else 4
    CH = dict(GlobalOn='FALSE')
    GL = dict(Chans='{}', AllowClose='FALSE')
    # ---- TLC jobs ------------------------------------------------------------
    checks = [
        # (name, expected violation or None, constants, property, coverage)
        ('d_chan3', None, dict(CH, MaxReq=3, MaxSlow=2), None, True),
        ('d_glob3', None, dict(GL, MaxReq=3, MaxSlow=2), None, False),
        ('d_both2', None, dict(MaxReq=2, MaxSlow=2), None, False),
        ('d_free', None, dict(FREE, **GL, MaxReq=3, MaxSlow=1), None, True),
        ('d_2chan', None, dict(CH, Chans='{"a", "b"}', MaxReq=2, MaxSlow=1,
                               AllowCancel='FALSE',
                               AllowCut='FALSE' if quick else 'TRUE'),
         None, False),
        ('live', None, dict(CH, MaxReq=2, MaxSlow=1), 'Terminates', False),
        ('live_g', None, dict(GL, MaxReq=2 if quick else 3, MaxSlow=1),
         'Terminates', False),
        # sensitivity: wrong rules that TLC must reject (one invariant per
        # run: with several broken at once the first one reported depends on
        # the worker threads)
        ('lifo', 'MatchOwn', dict(GL, MaxReq=2, Fifo='FALSE',
                                  invs=['MatchOwn']), None, False),
        ('unwanted', 'OneReplyEach', dict(GL, MaxReq=2, OnlyWanted='FALSE',
                                          invs=['OneReplyEach']),
         None, False),
        ('concurrent', 'OneAtATime', dict(GL, MaxReq=2, Serial='FALSE',
                                          MaxSlow=2, invs=['OneAtATime']),
         None, False),
        ('concurrent_r', 'RepliesInOrder',
         dict(GL, MaxReq=2, Serial='FALSE', invs=['RepliesInOrder']), None,
         False),
        ('cancelrm', 'MatchOwn', dict(GL, MaxReq=2, CancelKeeps='FALSE',
                                      invs=['MatchOwn']), None, False),
        ('cancelrm_p', 'NoProtocolError',
         dict(GL, MaxReq=2, CancelKeeps='FALSE', invs=['NoProtocolError']),
         None, False),
        ('pinned_queue', 'NoServiceAfterGone',
         dict(CH, MaxReq=2, DropOnGone='FALSE', invs=['NoServiceAfterGone']),
         None, False),
        ('closekeeps', 'WaitersResolve',
         dict(CH, MaxReq=2, CloseResolves='FALSE', invs=['WaitersResolve']),
         None, False),
        ('cutkeeps', 'WaitersResolve', dict(GL, MaxReq=2, CutResolves='FALSE',
                                            invs=['WaitersResolve']),
         None, False),
        ('lateply', 'NoReplyAfterClose',
         dict(CH, MaxReq=2, SilentAfterClose='FALSE',
              invs=['NoReplyAfterClose']), None, False),
        ('unsolok', 'UnsolicitedFatal',
         dict(FREE, MaxReq=1, UnsolFatal='FALSE', invs=['UnsolicitedFatal']),
         None, False),
        ('nofail', 'AllAnswered', dict(GL, MaxReq=2, FailReplies='FALSE',
                                       invs=['AllAnswered']), None, False),
        # vacuity witnesses (reachable = reported violated)
        ('wit_queue', 'NeverQueued',
         dict(GL, MaxReq=3, invs=['NeverQueued']), None, False),
        ('wit_cancel', 'NeverCancelledReply',
         dict(GL, MaxReq=2, invs=['NeverCancelledReply']), None, False),
        ('wit_orphan', 'NeverOrphan',
         dict(CH, MaxReq=2, invs=['NeverOrphan']), None, False),
        ('wit_close', 'NeverCloseWhileWaiting',
         dict(CH, MaxReq=2, invs=['NeverCloseWhileWaiting']), None, False),
    ]
    if not quick:
        checks += [
            ('d_both3', None, dict(MaxReq=3, MaxSlow=2), None, False),
            ('d_chan4', None, dict(CH, MaxReq=4, MaxSlow=1), None, False),
            ('d_glob4', None, dict(GL, MaxReq=4, MaxSlow=2), None, False),
            ('d_free3', None, dict(FREE, MaxReq=3, MaxSlow=1), None, False),
            ('d_2chan3', None, dict(CH, Chans='{"a", "b"}', MaxReq=3,
                                    MaxSlow=1, AllowCancel='FALSE',
                                    AllowCut='FALSE'), None, False),
        ]
    emits = [
        # (name, setup, constants, replay budget)
        ('e_both2', 'api', dict(MaxReq=2, MaxSlow=1), 500),
        ('e_chan3', 'api', dict(CH, MaxReq=3, MaxSlow=1, AllowCut='FALSE',
                                AllowCancel='FALSE'), 400),
        ('e_glob3', 'api', dict(GL, MaxReq=3, MaxSlow=1), 400),
        ('e_free2', 'raw', dict(FREE, MaxReq=2, MaxSlow=1), 350),
        ('e_free3', 'raw', dict(FREE, **CH, MaxReq=3, MaxSlow=1,
                                AllowCut='FALSE', WantSet='{TRUE}'), 250),
    ]
    k = 1 if quick else 8
    DEEP = dict(Chans='{"a", "b"}', MaxReq=5, MaxSlow=2)
    sims = [
        # (name, setup, number of random behaviours, constants, budget)
        ('s_api', 'api', 400 * k, dict(DEEP, AllowCut='FALSE'), 200 * k),
        ('s_api_c', 'api', 250 * k, dict(DEEP), 100 * k),
        ('s_raw', 'raw', 400 * k, dict(DEEP, **FREE, AllowCut='FALSE'),
         200 * k),
        ('s_raw_c', 'raw', 250 * k, dict(DEEP, **FREE), 100 * k),
    ]

    def one_check(item):
        name, _exp, kw, prop, cov = item
        kw = dict(kw)
        invs = kw.pop('invs', INVS)
        if prop:
            return mc(name, kw, invs=[], workers=W, prop=prop)
        return mc(name, kw, invs=invs, workers=W, coverage=cov)

    def one_sim(item):
        i, (name, _setup, num, kw, _b) = item
        return simulate(name, kw, num, ctx.seed * 1000 + 17 + i)

    ex = concurrent.futures.ThreadPoolExecutor(max_workers=6)
    f_emit = [ex.submit(emit, n, kw, W) for n, _s, kw, _b in emits]
    f_sim = [ex.submit(one_sim, it) for it in enumerate(sims)]
    f_chk = [ex.submit(one_check, it) for it in checks]

    total = 0
    outcomes = {}
    pool = []               # (setup, script) for the self-test
    import time
    t_start = time.time()
    marks = []

    def run_scripts(name, setup, scripts, budget):
        nonlocal total
        done = 0
        for script, _final in scripts:
            if done >= budget:
                break
            if not script:
                continue
            deco = drv.Deco.pick(rnd, script, setup)
            r = drv.replay(setup, script, deco)
            done += 1
            total += 1
            lbls = labels(script)
            ctx.count((setup, json.dumps(lbls), json.dumps(deco.d['real'],
                                                           sort_keys=True)),
                      nontrivial=len(lbls) >= 4)
            kinds = {l[0] for l in lbls}
            for tag in ('cancel', 'close', 'cut', 'unsol', 'done'):
                if tag in kinds:
                    outcomes[(setup, tag)] = outcomes.get((setup, tag), 0) + 1
            if r['defects']:
                for dname in r['defects']:
                    outcomes[(setup, dname)] = \
                        outcomes.get((setup, dname), 0) + 1
            if total % 397 == 11:
                ctx.sample({'setup': setup, 'script': compact(script),
                            'requests': deco.d['real'],
                            'violations': r['violations'][:2]})
            report(ctx, setup, script, deco, r, counters)
        return done

    # ---- (a) one behaviour per final state ------------------------------------
    for (name, setup, kw, budget), fut in zip(emits, f_emit):
        lines, res = fut.result()
        ctx.require_tlc_ok(f'Requests {name} (design check + behaviours) '
                           f'{kw}', res)
        ctx.require(len(lines) > 200, f'{name}: only {len(lines)} behaviours')
        lines.sort()
        rnd.shuffle(lines)
        budget = budget if quick else budget * 6
        parsed = [parse_line(l) for l in lines[:budget * 3 // 2]]
        ordered = tlc.novelty_order([(labels(sc), (sc, fin))
                                     for sc, fin in parsed])
        scripts = [st for _lb, st in ordered]
        run_scripts(name, setup, scripts, budget)
        marks.append(f'{name}@{time.time() - t_start:.0f}s')
        pool += [(setup, sc) for sc, _ in scripts[:250]]
    # ---- (b) random deep behaviours -------------------------------------------
    for (name, setup, _num, kw, budget), fut in zip(sims, f_sim):
        lines, res = fut.result()
        ctx.require(res.violation is None and not res.error,
                    f'Requests simulate {name}: {res.violation} {res.error}\n'
                    + res.output[-2000:])
        ctx.add_tlc(f'Requests simulate {name} {kw}', res)
        lines = drop_prefixes(lines)
        ctx.require(len(lines) > 50, f'{name}: only {len(lines)} behaviours')
        rnd.shuffle(lines)
        lines.sort(key=lambda l: -len(l))       # the longer half first
        head = lines[:budget * 2 // 3]
        tail = lines[budget * 2 // 3:]
        rnd.shuffle(tail)
        head = [parse_line(l) for l in head]
        tail = [parse_line(l) for l in tail[:budget - len(head) + 5]]
        run_scripts(name, setup, head + tail, budget)
        marks.append(f'{name}@{time.time() - t_start:.0f}s')
        pool += [(setup, sc) for sc, _ in head[:150]]

    # ---- (c) fixed schedule: the real agent-forwarding handler, no gates -------
    nfixed = 0
    for queued in ('signal', 'winch', 'break', 'pty', 'exec', 'env'):
        for want in (False, True):
            for same in (True, False):
                for started in (True, False):
                    bad, seen = drv.agent_close_case(queued, want, same,
                                                     started)
                    nfixed += 1
                    ctx.count(('agent_close', queued, want, same, started))
                    for clause, text in bad:
                        defect = 'queue_served_after_channel_close' \
                            if same and clause in ('NoBlowUp',
                                                   'NoProtocolError') \
                            else 'none'
                        key = (clause, 'agent_close', defect)
                        counters[key] = counters.get(key, 0) + 1
                        if counters[key] > 2:
                            continue
                        ctx.violation(
                            {'module': 'Requests', 'clause': clause,
                             'setup': 'agent_close', 'defect': defect,
                             'n': counters[key]},
                            f'{clause} [agent_close] {text}; one read: '
                            f'auth-agent-req(no reply), {queued}'
                            f'({"reply" if want else "no reply"})'
                            f'{", CHANNEL_CLOSE" if same else ""}; session '
                            f'{"started" if started else "not started"}; '
                            f'callbacks: {seen}',
                            replay={'setup': 'agent_close',
                                    'case': [queued, want, same, started]})
    marks.append(f'fixed@{time.time() - t_start:.0f}s')

    # ---- design checks ---------------------------------------------------------
    covered = {}
    for (name, exp, kw, prop, cov), fut in zip(checks, f_chk):
        res = fut.result()
        ctx.require_tlc_ok(f'Requests {name} {prop or ""} {kw}', res,
                           expect_violation=exp)
        if cov:
            for a, (d, _t) in res.coverage.items():
                covered[a] = covered.get(a, 0) + d
    for a in ACTIONS:
        ctx.require(covered.get(a, 0) > 0,
                    f'action {a} was never taken in the covered design '
                    f'checks: {covered}')
    ex.shutdown()
    marks.append(f'tlc@{time.time() - t_start:.0f}s')
    ctx.traces_validated(total)
    ctx.notes.append('replays: ' + ', '.join(
        f'{s}/{t}={n}' for (s, t), n in sorted(outcomes.items())))
    n_un = counters.get(('unmodelled',), 0)
    if n_un:
        ctx.notes.append(f'{n_un} behaviours touching a reported defect end '
                         f'differently from the (repaired) model; judged by '
                         f'the monitors only, not counted as divergences')
    unknown = [v for v in ctx.violations
               if v[0].get('defect', 'none') == 'none']
    if not unknown:
        # (with an unlisted violation of another kind the tree is not sane
        # enough for the expectations below)
        rnd.shuffle(pool)
        selftest(ctx, drv, pool, rnd)
        marks.append(f'selftest@{time.time() - t_start:.0f}s')
        ctx.notes.append('timeline: ' + ' '.join(marks))
        ctx.require(total >= (2200 if quick else 13000),
                    f'only {total} behaviours were replayed')
        for setup in ('api', 'raw'):
            for tag in ('close', 'cut', 'done') + \
                    (('cancel',) if setup == 'api' else ('unsol',)):
                ctx.require(outcomes.get((setup, tag), 0) > 20,
                            f'{setup}: too few behaviours with {tag}: '
                            f'{outcomes}')
    ctx.assumptions += [
        'the connection is a reliable FIFO stream in each direction until '
        'it is lost (both ends at once)',
        'run-to-completion: external events (API call, delivery of packets, '
        'completion of a handler, cancellation, loss) happen when the event '
        'loop is idle; several packets may arrive in one read',
        'at most 5 requests per behaviour (3 in the exhaustive runs), one '
        'global scope and up to two channels; only the requester makes '
        'requests (the serving side of the real client is not driven)',
        'slow channel handlers: attach_x11_listener / create_agent_listener '
        'of the server connection object are replaced by gates of the '
        'driver (the listeners themselves belong to C20); slow global '
        'handlers: server_requested / unix_server_requested return '
        'awaitables of the driver and hand over listener objects of the '
        'driver',
        'cancel-tcpip-forward / cancel-streamlocal-forward and the '
        'client-side handlers (hostkeys-00, exit-status ...) are not driven',
    ]


if __name__ == '__main__':
    run_check('X02', main)
