"""C13 - file serving and downloading never leave their directory.

1. TLC checks the PathConfine specifications exhaustively at small bounds:
   (i)   PathConfine   : map_path on every path string over {"a","b","",".",
                         ".."} (<= 5/6 components): MapUnderRoot holds for the
                         strip-all-slashes rule, and TLC rejects the rule as
                         written ("//x" keeps its second slash) and the rule
                         without normalisation;
   (ii)  PathConfineFS : request sequences over a file system with symbolic
                         links; AllTouchedUnderRoot holds with absolute link
                         targets, is rejected without the target rewrite, and
                         is rejected for the server as written once relative
                         links can be relocated / re-contextualised (every
                         escaping request history is printed);
   (iii) PathConfineDL : every SCP record sequence / hostile directory
                         listing; AllCreatedUnderDest.
2. The cases TLC enumerated (mapping table, escaping histories, simulated
   behaviours, download case tables) are replayed against the real code in a
   fresh directory under .work: real SFTPServer(chroot=...) behind a real
   SFTPClient, the real SCP sink fed by a hand-written hostile source, the real
   SFTPClient.get(recurse=True) against a scripted hostile SFTP server.
3. Verdict (L1): a system-call monitor (audit hook) resolves every path the
   process hands to the kernel; a location outside the root / destination is a
   violation.  Differences between the model's prediction and the code that
   do not break the property are reported as model divergences.
"""

import json
import os
from concurrent.futures import ThreadPoolExecutor

from harness import tlc
from harness.framework import run_check, MachineryError, VERIF

SPEC = os.path.join(VERIF, 'specs', 'PathConfine')
ALLOPS = ['open_r', 'open_w', 'stat', 'lstat', 'mkdir', 'rmdir', 'remove',
          'rename', 'posix_rename', 'symlink', 'link', 'readlink', 'realpath',
          'opendir', 'setstat']
NOMOVE = [o for o in ALLOPS if o not in ('rename', 'posix_rename', 'link')]


# --------------------------------------------------------------------------
# TLC plumbing
# --------------------------------------------------------------------------

def P(s):
    """path string -> TLA+ sequence of components"""
    return '<<' + ', '.join('"%s"' % c.replace('\\', '\\\\')
                            for c in s.split('/')) + '>>'


def PS(strs):
    return '{' + ', '.join(P(s) for s in strs) + '}'


def SS(strs):
    return '{' + ', '.join('"%s"' % s for s in strs) + '}'


def B(v):
    return 'TRUE' if v else 'FALSE'


def run_mc(base, name, consts, defs, invs, view=False, spec='Spec', **kw):
    """Write MC_c13_<name>.tla/.cfg (constants that are not plain cfg values
    are defined in the MC module), run TLC, remove them."""
    mod = f'MC_c13_{name}'
    lines = [f'---- MODULE {mod} ----', f'EXTENDS {base}']
    cfg = ['CONSTANTS']
    for k, v in consts.items():
        cfg.append(f'  {k} = {v}')
    for k, v in defs.items():
        if v.startswith('<-'):
            cfg.append(f'  {k} <- {v[2:]}')
        else:
            lines.append(f'c_{k} == {v}')
            cfg.append(f'  {k} <- c_{k}')
    lines.append('====')
    cfg += [f'SPECIFICATION {spec}', 'CHECK_DEADLOCK FALSE']
    if view:
        cfg.append('VIEW ' + (view if isinstance(view, str) else 'view'))
    cfg += [f'INVARIANT {i}' for i in invs]
    tla, cf = os.path.join(SPEC, mod + '.tla'), os.path.join(SPEC, mod + '.cfg')
    with open(tla, 'w') as f:
        f.write('\n'.join(lines) + '\n')
    with open(cf, 'w') as f:
        f.write('\n'.join(cfg) + '\n')
    sim_dir = kw.pop('sim_dir', None)
    try:
        res = tlc.run(SPEC, mod, mod + '.cfg', f'c13_{name}', **kw)
        if sim_dir:
            res.sim = [steps for _n, steps in
                       tlc.read_sim_traces(sim_dir, 'tr_')]
        return res
    finally:
        for p in (tla, cf):
            if os.path.exists(p):
                os.remove(p)
        tlc.cleanup(f'c13_{name}')
        if sim_dir:
            tlc.cleanup(os.path.basename(sim_dir))


def printed_blocks(res, tag):
    """Values printed with PrintT(<<tag, ...>>) (possibly multi-line)."""
    out = res.output
    vals = []
    key = f'<< "{tag}"'
    key2 = f'<<"{tag}"'
    i = 0
    while True:
        a, b = out.find(key, i), out.find(key2, i)
        cand = [x for x in (a, b) if x >= 0]
        if not cand:
            break
        j = min(cand)
        p = tlc._P(out)                 # pylint: disable=protected-access
        p.i = j
        try:
            vals.append(p.value()[1:])
            i = p.i
        except (ValueError, IndexError):
            i = j + 4
    return vals


def fs_consts(maxreq, maxnodes, ops, rule='asis', rewrite='asis', emit=False,
              bias='all', randk=1, emit_tr=False):
    return dict(Names=SS(['a', 'b']), Depth=2, Ops=SS(ops), MaxNodes=maxnodes,
                MaxReq=maxreq, MapRule=f'"{rule}"', Rewrite=f'"{rewrite}"',
                Fuel=8, EmitEsc=B(emit), Bias=f'"{bias}"', RandK=randk,
                EmitTr=B(emit_tr))


def spellings(p):
    """non-normal spellings of a relative client path that map to the same
    place: trailing '/', trailing '/.', 'x/..' suffix, './' prefix, doubled
    slashes, an 'a/../' detour, a detour through a name that may be a link"""
    return [p + '/', p + '/.', p + '/a/..', './' + p,
            p.replace('/', '//') if '/' in p else p + '//',
            'a/../' + p, 'b/../' + p]


def ent(name, typ, t='', sub=()):
    return dict(name=name, type=typ, t=t, sub=list(sub))


def ent_tla(e):
    return ('[name |-> %s, type |-> "%s", t |-> %s, sub |-> <<%s>>]' %
            (P(e['name']), e['type'], P(e['t']) if e['t'] else '<<>>',
             ', '.join(ent_tla(s) for s in e['sub'])))


def dl_consts(mode, check, maxrec, dests=('dir', 'none', 'file'),
              conts=(True, False), globfilter=False, keepdots=False,
              recs=(True,)):
    return dict(Mode=f'"{mode}"', CheckNames=B(check), FilterNames=B(check),
                DestKinds=SS(dests), Conts='{' + ', '.join(B(c) for c in conts) + '}',
                MaxRec=maxrec, Fuel=8, GlobFilter=B(globfilter),
                CacheKeepsDots=B(keepdots),
                Recs='{' + ', '.join(B(c) for c in recs) + '}')


# glob patterns below the searched directory "s": wildcard segments and runs
# of literal components
GLOB_PATTERNS = ['*', '?', '[ab]', '**', 'a*', '*/a', '**/a', '*/*']
MGET_NAMES = ['a', 'b', 'x/..', '../x', '/x', 'a/b', '.', '..', '', '../..',
              'x/.']
WILD = '*?[]'


def pat_segments(pat):
    """the way SFTPGlob._split() cuts a pattern (after the plain prefix)"""
    segs, plain = [], []
    for cur in pat.split('/'):
        if any(c in cur for c in WILD):
            if plain:
                segs.append(('lit', plain))
                plain = []
            segs.append(('w', cur))
        else:
            plain.append(cur)
    if plain:
        segs.append(('lit', plain))
    return segs


def pat_tla(pat):
    out = []
    for k, v in pat_segments(pat):
        if k == 'w':
            out.append('[k |-> "w", v |-> <<"%s">>]' % v)
        else:
            out.append('[k |-> "lit", v |-> <<%s>>]' %
                       ', '.join('"%s"' % c for c in v))
    return '<<' + ', '.join(out) + '>>'


# lists of patterns handed to one mget()/glob() call: one SFTPGlob object and
# its listing cache serve the whole list, so patterns that share directories
# replay cached listings ('a*' + '*', '*' twice, '*/a' + '*/*', '**' forms;
# '**/*' replays within a single pattern)
GLOB_LISTS = [[p_] for p_ in GLOB_PATTERNS] + [
    ['**/*'], ['a*', '*'], ['*', '*'], ['*/a', '*/*'], ['**', '*'],
    ['?', '[ab]'], ['*', '**/a']]
GLOB_LISTS3 = [['a*', '*', '?'], ['*/*', '*', '**'], ['*', '*', '*']]


def pats_of_model(pats):
    return ['/'.join('/'.join(x['v']) for x in segs) for segs in pats]


def pat_of_model(segs):
    return '/'.join('/'.join(x['v']) for x in segs)


def mget_defs(entries, lists=None):
    import fnmatch
    lists = lists or GLOB_LISTS
    wilds = sorted({v for l_ in lists for p in l_ for k, v in pat_segments(p)
                    if k == 'w'})
    names = sorted({e['name'] for e in entries} |
                   {s_['name'] for e in entries for s_ in e['sub']})
    rel = [(w, n) for w in wilds for n in names
           if fnmatch.fnmatch(n.encode(), w.encode())]
    return dict(SNames='{}', Backslash='{}',
                Entries='{' + ', '.join(ent_tla(e) for e in entries) + '}',
                Patterns='{' + ', '.join(
                    '<<' + ', '.join(pat_tla(p) for p in l_) + '>>'
                    for l_ in lists) + '}',
                Matches='{' + ', '.join('<<<<"%s">>, %s>>' % (w, P(n))
                                        for w, n in rel) + '}')


def mget_entries():
    sub = [ent('evil', 'file')]
    return [ent(n, 'file') for n in MGET_NAMES] + \
        [ent(n, 'dir', sub=sub) for n in MGET_NAMES]


SCP_NAMES = ['a', '..', '.', 'a/b', '/a', 'a\\b', '']
GET_NAMES = ['a', '..', '../../x', '/x', 'a/b', '.', '']


def get_entries(links, subs=True):
    sub1 = [ent('a', 'file')]
    es = [ent(n, 'file') for n in GET_NAMES]
    es += [ent(n, 'dir', sub=sub1) for n in GET_NAMES]
    if subs:
        es += [ent('a', 'dir', sub=[ent('../x', 'file')]),
               ent('b', 'dir', sub=[ent('/x', 'file')])]
    if links:
        es += [ent('a', 'link', t) for t in ('..', '/T/x', '../..', '/T/Dx')]
        es += [ent('b', 'dir', sub=[ent('a', 'link', '/T'), ent('a', 'dir', sub=[])])]
    return es


# --------------------------------------------------------------------------
def main(ctx):
    from harness.drivers import path_confine as pc
    if getattr(ctx, 'replay_path', None):
        return replay_saved(ctx, pc)
    quick = ctx.tier == 'quick'
    W = 4
    jobs = {}

    # ---- 0. which of the modelled rule variants does the code follow? ----
    variant = probe_variants(pc)
    ctx.notes.append(f'code follows: {variant}')
    if os.environ.get('C13_DEBUG'):
        print('  variants', variant)

    # ---- 1. TLC: design checks and case generation (run concurrently) ----
    maxlen = 5 if quick else 6
    mapc = lambda rule, emit, ml=maxlen: dict(
        Comps=SS(['a', 'b', '', '.', '..']), MaxLen=ml, MapRule=f'"{rule}"',
        Emit=B(emit))
    jobs['map strip (exhaustive + table)'] = lambda: run_mc(
        'PathConfine', 'map_strip', mapc('strip', True), {},
        ['MapUnderRoot', 'MapNormal', 'Table'], workers=1)
    jobs['map as-written table'] = lambda: run_mc(
        'PathConfine', 'map_asis_t', mapc('asis', True), {}, ['Table'],
        workers=1)
    jobs['map as-written'] = lambda: run_mc(
        'PathConfine', 'map_asis', mapc('asis', False, 4), {},
        ['MapUnderRoot'], workers=1)
    jobs['map without normpath'] = lambda: run_mc(
        'PathConfine', 'map_nonorm', mapc('nonorm', False, 4), {},
        ['MapUnderRoot'], workers=1)

    rp = ['a', 'b', 'a/b', 'a/a', 'b/a', '/', '../a']
    rel_t = ['..', 'a', '../..', 'b/../..', '.']
    abs_t = ['/', '/a', '/a/b', '/..', '//a']
    if quick:
        full = (4, 3, ['a', 'b', 'a/b', 'a/a', '/'], ['..', 'b/../..', '/', '.'])
        absr = (3, 3, rp[:6], abs_t)
    else:
        full = (5, 4, rp, rel_t + ['/', '/a', '../a'])
        absr = (6, 4, rp + ['a/../b', '//a'], abs_t + ['/b'])
    fsdefs = lambda paths, targets, trees, norm=None: dict(
        ReqPaths=PS(paths), Targets=PS(targets), InitTrees='<-' + trees,
        NormPaths=PS(norm if norm is not None else paths))
    # one script per reachable file-system shape: breadth-first search over
    # the state-changing requests that build (and relocate) link chains
    build_ops = ['mkdir', 'symlink', 'rename', 'posix_rename', 'link']
    build_locs = ['a', 'b', 'a/b', 'a/a', 'b/a']
    build_tgts = ['/', '/a', '..', '../..', 'a', 'b', 'b/..', 'b/../..',
                  'b/../a', '../a', '../Rx', '../U', '../../Rx']
    if quick:
        build = (3, 3, build_ops)
    else:
        build = (4, 4, build_ops + ['remove', 'rmdir'])
    jobs['fs link-chain scripts'] = lambda: run_mc(
        'PathConfineFS', 'fs_scripts',
        fs_consts(build[0], build[1], build[2], rule='strip',
                  rewrite=variant['rewrite'], bias='chg'),
        fsdefs(build_locs, build_tgts, 'TreesSmall'),
        ['TypeOK', 'StateTable'], view='viewfs', workers=W, timeout=800)
    # the spelling of every path argument as a dimension: the last request of
    # a script with its path(s) in normal and non-normal forms (in a two-path
    # request one path at a time; for symlink every target x every spelling
    # of the link path, because the spelling of the link path decides the
    # directory in which the relative target is judged)
    spelled = sorted(set(build_locs + [x for p in build_locs
                                       for x in spellings(p)]))
    sp_tgts = ['..', '../..', '../Rx', './..', '..//..', 'b/..', 'b/../..',
               'a', '/', '../U', '../', '/a/', '../a', 'b/../a', '../../Rx']
    jobs['fs spelled requests'] = lambda: run_mc(
        'PathConfineFS', 'fs_spelled',
        fs_consts(2 if quick else 3, 3, build_ops, rule='strip',
                  rewrite=variant['rewrite'], bias='chg', emit_tr=True),
        fsdefs(spelled, sp_tgts if not quick else sp_tgts[:9], 'TreesSmall',
               norm=build_locs),
        ['TypeOK'], view='viewfs', workers=W, timeout=800)
    jobs['fs as written'] = lambda: run_mc(
        'PathConfineFS', 'fs_full_inv', fs_consts(4, 3, ALLOPS),
        fsdefs(rp[:5], rel_t[:3], 'TreesSmall'), ['AllTouchedUnderRoot'],
        view=True, workers=W)
    jobs['fs absolute link targets'] = lambda: run_mc(
        'PathConfineFS', 'fs_abs',
        fs_consts(absr[0], absr[1], ALLOPS, rule='strip'),
        fsdefs(absr[2], absr[3], 'TreesAll'),
        ['TypeOK', 'AllTouchedUnderRoot'], view=True, workers=W, timeout=800)
    jobs['fs repaired rewrite, plain relative targets, no relocation'] = \
        lambda: run_mc(
            'PathConfineFS', 'fs_realdir',
            fs_consts(4, 3, NOMOVE, rule='strip', rewrite='realdir'),
            fsdefs(rp + ['a//b/.'], ['..', '../..', '.', 'a', '../a', '../Rx',
                                     '../../Rx', '../U'], 'TreesAll'),
            ['TypeOK', 'AllTouchedUnderRoot'], view=True, workers=W,
            timeout=800)
    jobs['fs prefix test without separator'] = lambda: run_mc(
        'PathConfineFS', 'fs_prefix',
        fs_consts(3, 3, NOMOVE, rule='strip', rewrite='prefix'),
        fsdefs(['a', 'b', 'a/b'], ['..', '../Rx', '../U', 'a'], 'TreesSmall'),
        ['AllTouchedUnderRoot'], view=True, workers=2)
    jobs['fs without target rewrite'] = lambda: run_mc(
        'PathConfineFS', 'fs_norw',
        fs_consts(3, 3, NOMOVE, rule='strip', rewrite='none'),
        fsdefs(rp[:5], ['..', '/..', 'a'], 'TreesSmall'),
        ['AllTouchedUnderRoot'], view=True, workers=W)
    for wit in (() if quick else ('NeverLink', 'NeverMoved')):
        jobs[f'fs witness {wit}'] = (lambda wit=wit: run_mc(
            'PathConfineFS', f'fs_w_{wit}', fs_consts(3, 3, ALLOPS, rule='strip'),
            fsdefs(rp[:4], ['a', '/'], 'TreesAll'), [wit], view=True,
            workers=2))
    nsim = 60 if quick else 1500
    for bias in ('all', 'ok'):
        def sim(bias=bias):
            d = tlc.workdir(f'c13_sim_{bias}_out')
            return run_mc(
                'PathConfineFS', f'fs_sim_{bias}',
                fs_consts(8, 4, ALLOPS, bias=bias, rule='strip',
                          rewrite=variant['rewrite'],
                          randk=3 if bias == 'all' else 16),
                fsdefs(rp + ['a/../b', 'a//b/.'],
                       rel_t + ['/', '/a', '../a', 'a/b'], 'TreesAll'),
                [], workers=2, sim_dir=d, spec='SimSpec',
                simulate=f'file={d}/tr,num={nsim}', depth=9,
                seed=ctx.seed + 11)
        jobs[f'fs simulate {bias}'] = sim

    scpdefs = dict(SNames=PS(SCP_NAMES), Backslash=PS(['a\\b']),
                   Entries='{}', Patterns='{}', Matches='{}')
    jobs['scp sink (exhaustive + table)'] = lambda: run_mc(
        'PathConfineDL', 'scp', dl_consts('scp', True, 3), scpdefs,
        ['AllCreatedUnderDest', 'EmitAll'], workers=1, timeout=800)
    if not quick:
        jobs['scp sink, 4 records'] = lambda: run_mc(
            'PathConfineDL', 'scp4', dl_consts('scp', True, 4), scpdefs,
            ['AllCreatedUnderDest'], workers=W, timeout=800)
    jobs['scp sink without name check'] = lambda: run_mc(
        'PathConfineDL', 'scp_nochk', dl_consts('scp', False, 3), scpdefs,
        ['AllCreatedUnderDest'], workers=2)
    for wit in (() if quick else ('NeverNested', 'NeverCreated')):
        jobs[f'scp witness {wit}'] = (lambda wit=wit: run_mc(
            'PathConfineDL', f'scp_w_{wit}', dl_consts('scp', True, 3),
            scpdefs, [wit], workers=2))
    getdefs = lambda es: dict(SNames='{}', Backslash='{}', Entries='{' +
                              ', '.join(ent_tla(e) for e in es) + '}',
                              Patterns='{}', Matches='{}')
    nent = 2 if quick else 3
    gd = ('dir', 'none')
    jobs['get (table)'] = lambda: run_mc(
        'PathConfineDL', 'get_t',
        dl_consts('get', variant['get_filter'], 2 if quick else 3, gd),
        getdefs(get_entries(True)), ['EmitAll'], workers=1)
    jobs['get as written'] = lambda: run_mc(
        'PathConfineDL', 'get_asis', dl_consts('get', False, 2, gd),
        getdefs(get_entries(False)), ['AllCreatedUnderDest'], workers=2)
    jobs['get with name filter, no links'] = lambda: run_mc(
        'PathConfineDL', 'get_filt', dl_consts('get', True, nent, gd),
        getdefs(get_entries(False)), ['AllCreatedUnderDest'], workers=W)
    jobs['get with name filter, links'] = lambda: run_mc(
        'PathConfineDL', 'get_filt_l', dl_consts('get', True, 2, gd),
        getdefs(get_entries(True)), ['AllCreatedUnderDest'], workers=2)

    md = ('dir', 'none')
    mdefs = mget_defs(mget_entries(),
                      GLOB_LISTS + ([] if quick else GLOB_LISTS3))
    gf = variant['glob_filter']
    jobs['mget / glob (table)'] = lambda: run_mc(
        'PathConfineDL', 'mget_t',
        dl_consts('mget', variant['get_filter'], 1 if quick else 2, md,
                  globfilter=gf),
        mdefs, ['EmitM'], workers=1, timeout=800)
    # benign servers: "." and ".." listed in every position, lists of
    # patterns that replay the listing cache, recurse on / off
    benign = [ent('.', 'dir', sub=[ent('evil', 'file')]),
              ent('..', 'dir', sub=[ent('evil', 'file')]),
              ent('a', 'file'), ent('a', 'dir', sub=[ent('a', 'file')]),
              ent('b', 'file')]
    multi = [l_ for l_ in GLOB_LISTS + GLOB_LISTS3
             if len(l_) > 1 or l_ == ['**/*']]
    bdefs = mget_defs(benign, multi)
    jobs['mget / glob benign listings (table)'] = lambda: run_mc(
        'PathConfineDL', 'mget_b',
        dl_consts('mget', variant['get_filter'], 2 if quick else 3, ('dir',),
                  conts=(True,), globfilter=gf, recs=(True, False)),
        bdefs, ['EmitM', 'AllCreatedUnderDest', 'GlobNoDots', 'GlobUnion'],
        workers=1, timeout=800)
    jobs['mget with a listing cache that keeps . and ..'] = lambda: run_mc(
        'PathConfineDL', 'mget_dots',
        dl_consts('mget', True, 2, ('dir',), conts=(True,), globfilter=True,
                  keepdots=True), bdefs, ['AllCreatedUnderDest'], workers=2)
    jobs['glob with a listing cache that keeps . and ..'] = lambda: run_mc(
        'PathConfineDL', 'glob_dots',
        dl_consts('mget', True, 2, ('dir',), conts=(True,), globfilter=True,
                  keepdots=True), bdefs, ['GlobUnion'], workers=2)
    if not quick:
        jobs['mget as written'] = lambda: run_mc(
            'PathConfineDL', 'mget_asis', dl_consts('mget', True, 1, md),
            mdefs, ['AllCreatedUnderDest'], workers=2)
        jobs['glob names as written'] = lambda: run_mc(
            'PathConfineDL', 'glob_asis', dl_consts('mget', True, 1, md),
            mdefs, ['GlobNamesUnderSearched'], workers=2)
    jobs['mget / glob refusing listed names with a separator'] = lambda: run_mc(
        'PathConfineDL', 'mget_filt',
        dl_consts('mget', True, 1 if quick else 2, md, globfilter=True), mdefs,
        ['AllCreatedUnderDest', 'GlobNamesUnderSearched', 'GlobNoDots',
         'GlobUnion'], workers=W, timeout=800)
    expect = {
        'mget as written': 'AllCreatedUnderDest',
        'mget with a listing cache that keeps . and ..': 'AllCreatedUnderDest',
        'glob with a listing cache that keeps . and ..': 'GlobUnion',
        'glob names as written': 'GlobNamesUnderSearched',
        'map as-written': 'MapUnderRoot',
        'map without normpath': 'MapUnderRoot',
        'fs as written': 'AllTouchedUnderRoot',
        'fs without target rewrite': 'AllTouchedUnderRoot',
        'fs prefix test without separator': 'AllTouchedUnderRoot',
        'fs witness NeverLink': 'NeverLink',
        'fs witness NeverMoved': 'NeverMoved',
        'scp sink without name check': 'AllCreatedUnderDest',
        'scp witness NeverNested': 'NeverNested',
        'scp witness NeverCreated': 'NeverCreated',
        'get as written': 'AllCreatedUnderDest',
        'get with name filter, links': 'AllCreatedUnderDest',
    }
    if quick:
        # design runs that only re-establish history (rules as they were
        # before the repairs) or repeat a result at another bound: thorough
        for name in ('fs as written', 'fs absolute link targets',
                     'map as-written', 'get as written'):
            jobs.pop(name, None)
    with ThreadPoolExecutor(max_workers=5) as ex:
        futs = {name: ex.submit(fn) for name, fn in jobs.items()}
        results = {name: f.result() for name, f in futs.items()}
    for name, res in results.items():
        if name in expect and expect[name] is not None and name not in jobs:
            continue
        if os.environ.get('C13_DEBUG'):
            print(f'  tlc {name}: {res.wall:.1f}s distinct={res.distinct} '
                  f'violation={res.violation} error={res.error}')
        if name.startswith('fs simulate'):
            if res.error and res.error != 'timeout':
                raise MachineryError(f'{name}: {res.error}\n' + res.output[-2000:])
            ctx.add_tlc(name, res)
            continue
        ctx.require_tlc_ok(name, res, expect_violation=expect.get(name))
    if os.environ.get('C13_DEBUG'):
        import time
        print(f'  tlc phase done at {time.time() - ctx.t0:.1f}s')

    # ---- 2. part (i): the mapping --------------------------------------
    rule = replay_map(ctx, pc, results, quick)

    # ---- 3. part (ii): request sequences --------------------------------
    if os.environ.get('C13_DEBUG'):
        import time
        print(f'  map replay done at {time.time() - ctx.t0:.1f}s')
    replay_fs(ctx, pc, results, rule, quick)
    if os.environ.get('C13_DEBUG'):
        print(f'  fs replay done at {time.time() - ctx.t0:.1f}s')

    # ---- 4. part (iii): downloads ----------------------------------------
    replay_dl(ctx, pc, results, quick)
    replay_mget(ctx, pc, results, quick)

    ctx.assumptions += [
        'path alphabet {"a","b","",".",".."}; <= 5 (quick) / 6 components; '
        'names outside this alphabet (other bytes, very long names) are not '
        'explored',
        'file-system model: <= 4 client-created nodes, depth <= 2 below the '
        'root, <= 5 requests per history (TLC exhaustive), 8 requests in '
        'simulated behaviours; no concurrent requests',
        'only the client\'s requests create state below the root (no outward '
        'symbolic link placed by the administrator)',
        'touch = a path argument of a system call issued by the process, '
        'resolved by the harness\'s kernel walk; lstat/readlink calls made '
        'inside os.path.realpath() are not judged',
        'downloads: destination is a directory, a file or absent; names from '
        'the listed hostile alphabets; POSIX host',
    ]


# --------------------------------------------------------------------------
def probe_variants(pc):
    """Three tiny probes of the real code select which modelled variant the
    generated cases are compared with (the verdicts never depend on it)."""
    v = {}
    w = pc.ServerWorld()
    try:
        m = pc.real_map_path(w.area.root, [b'//a'])[0].decode()
        v['map'] = 'strip' if pc.under(w.area.root, m) else 'asis'
        r = pc.run_sequence(w, {}, [('symlink', b'.', b'a'),
                                    ('symlink', b'..', b'a/b'),
                                    ('opendir', b'b', b'')])
        v['rewrite'] = 'asis' if r['escapes'] else 'realdir'
    finally:
        w.close()
    d = pc.DownloadWorld()
    try:
        r = d.run_get([dict(name=b'../../x', type='file', t=b'', sub=[])],
                      'dir', True)
        v['get_filter'] = not (r['escapes'] or r['outside'])
        r = d.run_glob(b'*', [dict(name=b'x/../y', type='file', t=b'',
                                   sub=[])], True)
        v['glob_filter'] = not any(b'..' in n for n in (r['names'] or []))
    finally:
        d.close()
    return v


def table_of(res):
    tab = {}
    for v in printed_blocks(res, 'MAP'):
        if isinstance(v, list) and len(v) == 3:
            tab['/'.join(v[0])] = ('/'.join(v[1]), tuple(v[2]))
    return tab


def replay_map(ctx, pc, results, quick):
    strip = table_of(results['map strip (exhaustive + table)'])
    asis = table_of(results['map as-written table'])
    ctx.require(len(strip) > 3000 and len(strip) == len(asis),
                f'map tables incomplete: {len(strip)} / {len(asis)}')
    world = pc.ServerWorld()
    esc = MapEscapes()
    try:
        root = world.area.root
        paths = sorted(strip)
        real = pc.real_map_path(root, [p.encode() for p in paths])

        def concrete(mapped):
            if mapped.startswith('/T/R'):
                return root + mapped[4:]
            return mapped
        match = {'asis': 0, 'strip': 0}
        for p, r in zip(paths, real):
            r = r.decode()
            for name, tab in (('asis', asis), ('strip', strip)):
                if concrete(tab[p][0]) == r:
                    match[name] += 1
            loc, _err = pc.kwalk(r, True)
            ctx.count(('map', p), nontrivial=True)
            if not pc.under(root, loc):
                esc.add(p, 'map_path', [r, loc])
        if match['strip'] == len(paths):
            rule = 'strip'
        elif match['asis'] == len(paths):
            rule = 'asis'
        else:
            rule = 'strip'
            bad = [p for p, r in zip(paths, real)
                   if concrete(strip[p][0]) != r.decode()][:5]
            if not esc.forms:
                ctx.divergence(f'map_path differs from both modelled rules, '
                               f'e.g. on {bad}')
        ctx.sample({'part': 'map_path', 'paths': len(paths), 'rule_followed':
                    rule, 'example': [paths[7], real[7].decode()]})

        # every operation x every path, through real requests
        table = strip if rule == 'strip' else asis
        nreq = wire_sweep(ctx, pc, world, table, esc, paths,
                          3 if quick else 5, 2 if quick else 3, [])
    finally:
        world.close()
    world = pc.ServerWorld(sftp_version=6)      # open56, lsetstat, realpath+stat
    try:
        nreq += wire_sweep(ctx, pc, world, table, esc, paths,
                           2 if quick else 4, 1 if quick else 2,
                           ['realpath_stat'])
        ctx.traces_validated(nreq)
        esc.report(ctx)
    finally:
        world.close()
    return rule


def wire_sweep(ctx, pc, world, table, esc, paths, n1, n2, extra_ops):
    if True:
        ops1 = ['stat', 'lstat', 'open_r', 'open_w', 'open_x', 'open_a',
                'mkdir', 'rmdir', 'remove', 'readlink', 'realpath', 'opendir',
                'setstat', 'lsetstat', 'truncate', 'utime', 'statvfs'] + \
            extra_ops
        ops2 = ['rename', 'posix_rename', 'link', 'symlink']
        tree = {('a',): 'dir', ('a', 'b'): 'file', ('b',): 'file'}
        sweep = [p for p in paths if p.count('/') < n1]
        pairs = [p for p in paths if p.count('/') < n2]
        nreq = 0
        world.reset(tree)

        def outside(x):
            return table[x][1][:2] != ('T', 'R')

        def one(op, p, q=''):
            nonlocal nreq
            st, _detail, events = world.request(op, p.encode(), q.encode())
            nreq += 1
            bad = world.judge(events)
            if op in ('realpath', 'realpath_stat'):
                pred = False
            elif op == 'symlink':
                pred = outside(q)   # the target is stored, not touched
            elif op == 'rename':
                # os.path.exists(new) comes first and may end the request
                pred = outside(q)
            elif op in ops2:
                pred = outside(p) or outside(q)
            else:
                pred = outside(p)
            if bad:
                esc.add(p if not q else f'{p} {q}', op, bad[0].as_list())
            elif pred:
                ctx.divergence(f'{op} {p!r} {q!r}: model predicts a location '
                               f'outside the root, none observed')
            if (st == 'ok' and op in pc.MUTATING_OPS) or bad:
                world.reset(tree)
            ctx.count(('wire', op, p, q), nontrivial=True)
        for op in ops1:
            for p in sweep:
                one(op, p)
        small = [p for p in paths if p.count('/') < min(n2, 2)]
        for op in ops2:
            for p in pairs:
                for q in (pairs if len(pairs) <= 30 else small):
                    one(op, p, q)
            for p in small:
                for q in (pairs if len(pairs) > 30 else []):
                    one(op, p, q)
        out = pc.outside_changes(world.tree(), ('T', 'R'))
        if out:
            ctx.violation({'module': 'PathConfine', 'kind': 'outside-changed',
                           'part': 'wire sweep'},
                          f'entries outside the served root changed: {out}',
                          replay={'kind': 'note'})
        ctx.sample({'part': 'wire sweep', 'sftp_version': world.sftp_version,
                    'requests': nreq, 'ops': ops1 + ops2, 'paths': len(sweep),
                    'path_pairs': len(pairs) * len(small) * 2 if len(pairs) > 30
                    else len(pairs) ** 2})
        return nreq


def path_form(p):
    for part in p.split(' '):
        if part.startswith('//') and not part.startswith('///'):
            return 'exactly-two-leading-slashes'
    return 'other'


class MapEscapes:
    """Escapes caused by the textual mapping itself, grouped by the form of
    the offending path (one violation per form)."""

    def __init__(self):
        self.forms = {}

    def add(self, p, where, detail):
        f = self.forms.setdefault(path_form(p), {'n': 0, 'where': {}, 'ex': []})
        f['n'] += 1
        f['where'][where] = f['where'].get(where, 0) + 1
        if len(f['ex']) < 400:
            f['ex'].append((p, where, detail))

    def report(self, ctx):
        for form, f in sorted(self.forms.items()):
            ex = sorted(f['ex'], key=lambda x: (len(x[0]), x[0], x[1]))
            sig = {'module': 'PathConfine', 'kind': 'map-path', 'form': form}
            if form == 'other':
                sig['paths'] = sorted(set(e[0] for e in ex))[:3]
            ctx.violation(
                sig, f'chroot escape by path string alone: {f["n"]} case(s) '
                f'with a path of form {form} reached a location outside the '
                f'root ({f["where"]}); e.g. {ex[:3]}',
                replay={'kind': 'map', 'examples': ex[:10]})


# --------------------------------------------------------------------------
INIT_TREES = {
    (): 'empty',
}


def tree_from_model(mt):
    """model tree (initial state) -> Area.reset() tree"""
    return {loc[2:]: kind for loc, (kind, _t, _i) in mt.items()
            if loc[:2] == ('T', 'R')}


# the model's outside node "Rx" stands for the class of siblings whose name
# shares a prefix with the root's; every case that mentions it is materialised
# towards each member (real names, see path_confine.ROOT_SIBLINGS)
ROOT_SIBS = ['RRx', 'RR-old', 'R']


def conv_req(r, sib=None):
    def conv(comps):
        return '/'.join((sib or ROOT_SIBS[0]) if c == 'Rx' else c
                        for c in comps).encode()
    return (r[0], conv(r[1]), conv(r[2]))


def sib_variants(hist, quick=False):
    """[None] or the sibling names to materialise a request history with"""
    if any('Rx' in x[1] or 'Rx' in x[2] for x in hist):
        if quick and len(hist) >= 3:
            return [ROOT_SIBS[len(json.dumps(hist)) % 3]]
        return ROOT_SIBS
    return [None]


def replay_fs(ctx, pc, results, rule, quick):
    world = pc.ServerWorld()
    found = {}          # cause (kind, history) -> example
    cache = {}
    nseq = 0
    nprobe_extra = 0
    try:
        # (a) simulated behaviours: conformance step by step
        for name in ('fs simulate all', 'fs simulate ok'):
            for steps in getattr(results[name], 'sim', []):
                if len(steps) < 2:
                    continue
                init = tree_from_model(pc.model_tree(steps[0][1]['fs']))
                reqs, pred = [], []
                for _a, st in steps[1:]:
                    lbl = st['lbl']
                    reqs.append(conv_req(lbl))
                    pred.append((lbl[3], lbl[4], pc.model_tree(st['fs'])))
                r = pc.run_sequence(world, init, reqs, pred)
                nseq += 1
                key = tuple(s['req'] for s in r['steps'])
                ctx.count(('sim', key), nontrivial=any(
                    s['st'] == 'ok' for s in r['steps']))
                if nseq % 25 == 1:
                    ctx.sample({'part': 'fs behaviour',
                                'init': sorted('/'.join(k) for k in init),
                                'steps': r['steps']})
                if r['escapes']:
                    idx, causes, evs = r['escapes'][0]
                    note_escape(pc, world, found, cache,
                                init_requests(init) + reqs[:idx + 1],
                                causes, evs)
                if r['diverged']:
                    ctx.divergence(f'fs behaviour {key}: {r["diverged"]}')
                if not r['escapes'] and pc.suspicious(r):
                    done = reqs[:len(r['steps'])]
                    uses, _d, n = pc.probe_links(world, init, done, r)
                    nprobe_extra += n
                    for op, path, causes, evs in uses:
                        note_escape(pc, world, found, cache,
                                    init_requests(init) + done +
                                    [(op, path.encode(), b'')], causes, evs)
        # (b) one script per reachable file-system shape (TLC breadth-first
        #     search over link-building requests) + the probe battery
        res = results['fs link-chain scripts']
        states = printed_blocks(res, 'ST')
        ctx.require(len(states) > 50, 'no scripts from TLC')
        states.sort(key=lambda x: (len(x[0]), json.dumps(x[0])))
        nprobe = nlinks = nescaping = 0
        states = [st + [sib] for st in states
                  for sib in sib_variants(st[0], quick)]
        for hist, it, fs, esc, escset, sib in states:
            script = [conv_req(x, sib) for x in hist]
            init = tree_from_model(pc.model_tree(it))
            want = set((op, '/'.join(p)) for op, p in escset['$set'])
            final = pc.model_tree(fs)
            if esc:
                # the last building request itself leaves the root
                r = pc.run_sequence(world, init, script)
                nseq += 1
                ctx.count(('script', tuple(s['req'] for s in r['steps'])))
                if not r['escapes']:
                    ctx.divergence('model predicts an escape, none observed: '
                                   + '; '.join(pc.req_str(x) for x in script))
                else:
                    idx, causes, evs = r['escapes'][0]
                    note_escape(pc, world, found, cache,
                                init_requests(init) + script[:idx + 1],
                                causes, evs)
                continue
            # quick: the deepest shapes get the shorter battery
            short = quick and len(script) >= 3
            out = pc.run_script(world, init, script, final, want,
                                probes=QUICK_PROBES if short else None)
            nseq += 1
            nprobe += out['nprobes']
            nlinks += bool(out['nprobes'])
            ctx.count(('script', tuple(pc.req_str(x) for x in script)),
                      nontrivial=bool(out['nprobes']))
            if nseq % 60 == 1 and out['nprobes']:
                ctx.sample({'part': 'fs script + probes',
                            'script': [pc.req_str(x) for x in script],
                            'probes': out['nprobes'],
                            'escaping_probes': [(o, p_) for o, p_, _c, _e
                                                in out['uses']]})
            b = out['build']
            if b['escapes']:
                idx, causes, evs = b['escapes'][0]
                note_escape(pc, world, found, cache,
                            init_requests(init) + script[:idx + 1], causes, evs)
            nescaping += bool(out['uses'])
            for op, path, causes, evs in out['uses']:
                note_escape(pc, world, found, cache,
                            init_requests(init) + script +
                            [(op, path.encode(), b'')], causes, evs)
            for d in out['diverged'][:2]:
                ctx.divergence('script ' +
                               '; '.join(pc.req_str(x) for x in script) +
                               ': ' + d)
        # requests that would close a symbolic-link cycle (not explored
        # further by the model): replayed under the monitor alone
        loops = {json.dumps(x) for x in printed_blocks(res, 'LOOP')}
        for x in sorted(loops)[::3 if quick else 1]:
            hist, it = json.loads(x)
            script = [conv_req(h, ROOT_SIBS[nseq % 3]) for h in hist]
            init = tree_from_model(pc.model_tree(it))
            out = pc.run_script(world, init, script, None, set(),
                                probes=['stat', 'open_r', 'open_w', 'remove'])
            nseq += 1
            nprobe += out['nprobes']
            ctx.count(('loop', tuple(pc.req_str(q) for q in script)))
            b = out['build']
            if b['escapes']:
                idx, causes, evs = b['escapes'][0]
                note_escape(pc, world, found, cache,
                            init_requests(init) + script[:idx + 1], causes, evs)
            for op, path, causes, evs in out['uses']:
                note_escape(pc, world, found, cache,
                            init_requests(init) + script +
                            [(op, path.encode(), b'')], causes, evs)
        ctx.notes.append(f'link-chain scripts: {len(states)} file-system '
                         f'shapes ({nlinks} with links), {len(loops)} '
                         f'cycle-closing requests, {nprobe} probes, '
                         f'{nescaping} shapes with escaping probes')
        # (b2) spelled requests, through every protocol form of the request
        nseq += replay_spelled(ctx, pc, results, quick, found, cache, world)
        # (c) fixed regression histories (re-established findings)
        for name, reqs in REGRESSIONS:
            r = pc.run_sequence(world, {}, reqs)
            nseq += 1
            ctx.count(('regression', name))
            if r['escapes']:
                idx, causes, evs = r['escapes'][0]
                note_escape(pc, world, found, cache, reqs[:idx + 1], causes,
                            evs, prio=0)
        ctx.traces_validated(nseq)
        # report: one violation per cause = (kind, history shape)
        for (kind, hist), ex in sorted(found.items()):
            if kind == 'map-path':
                continue            # reported by the mapping part
            setup, use, where, _prio = ex
            ctx.notes.append(f'{kind} {list(hist)}: e.g. ' + '; '.join(setup)
                             + ' -> ' + use)
            ctx.violation(
                {'module': 'PathConfine', 'kind': kind, 'history': list(hist)},
                f'chroot escape ({kind}, history {list(hist)}): e.g. after '
                f'{list(setup)} the request {use} made the server touch '
                f'{where} (outside the root)',
                replay={'kind': 'server-seq',
                        'requests': list(setup) + [use]})
    finally:
        world.close()


def replay_spelled(ctx, pc, results, quick, found, cache, world3):
    """Every state-changing request TLC enumerated with its path arguments in
    normal and non-normal spellings: replayed (monitor after every step, the
    resulting tree compared with the model's); whenever code and model
    disagree or a link below the root physically resolves outside it, the
    probe battery runs as well.  The scripts are spread over the request
    forms of the protocol: v3 (FXP_SYMLINK standard order, hardlink@openssh),
    v3 with OpenSSH's reversed FXP_SYMLINK order, v6 (FXP_LINK with the
    symlink / hard-link flag)."""
    res = results['fs spelled requests']
    trs = printed_blocks(res, 'TR')
    ctx.require(len(trs) > 100, 'no spelled transitions from TLC')
    seen = set()
    cases = []
    for hist, it, fs, esc in trs:
        k = json.dumps(hist)
        if k not in seen:
            seen.add(k)
            cases.append((hist, it, fs, esc, True))
    for x in printed_blocks(res, 'LOOP'):
        k = json.dumps(x[0])
        if k not in seen:
            seen.add(k)
            cases.append((x[0], x[1], None, False, False))
    cases.sort(key=lambda c: (len(c[0]), json.dumps(c[0])))
    if quick and len(cases) > 1000:
        short = [c for c in cases if len(c[0]) <= 1]
        rest = [c for c in cases if len(c[0]) > 1]
        cases = short + rest[::len(rest) // 600 + 1]
    forms = [dict(sftp_version=3), dict(sftp_version=6),
             dict(sftp_version=3, openssh_order=True)]
    n = nprobes = nsusp = 0
    per_form = {}
    for fi, kw in enumerate(forms):
        world = world3 if fi == 0 else pc.ServerWorld(**kw)
        try:
            for ci, (hist, it, fs, esc, modelled) in enumerate(cases):
                linkreq = hist[-1][0] in ('symlink', 'link')
                if quick or not linkreq or len(hist) > 2:
                    if ci % len(forms) != fi:
                        continue        # round robin
                script = [conv_req(x, ROOT_SIBS[ci % 3]) for x in hist]
                init = tree_from_model(pc.model_tree(it))
                final = pc.model_tree(fs) if modelled else None
                n += 1
                per_form[world.form] = per_form.get(world.form, 0) + 1
                ctx.count(('spelled', world.form,
                           tuple(pc.req_str(x) for x in script)))
                if esc:
                    r = pc.run_sequence(world, init, script)
                    if not r['escapes']:
                        ctx.divergence(
                            f'[{world.form}] model predicts an escape, none '
                            'observed: ' + '; '.join(pc.req_str(x)
                                                     for x in script))
                    else:
                        idx, causes, evs = r['escapes'][0]
                        note_escape(pc, world, found, cache,
                                    init_requests(init) + script[:idx + 1],
                                    causes, evs)
                    continue
                out = pc.run_script(world, init, script, final, set(),
                                    always=False)
                nprobes += out['nprobes']
                nsusp += bool(out['nprobes'])
                b = out['build']
                if b['escapes']:
                    idx, causes, evs = b['escapes'][0]
                    note_escape(pc, world, found, cache,
                                init_requests(init) + script[:idx + 1],
                                causes, evs)
                for op, path, causes, evs in out['uses']:
                    note_escape(pc, world, found, cache,
                                init_requests(init) + script +
                                [(op, path.encode(), b'')], causes, evs)
                if modelled:
                    for d in out['diverged'][:1]:
                        ctx.divergence(f'[{world.form}] spelled request ' +
                                       '; '.join(pc.req_str(x) for x in script)
                                       + ': ' + d)
                if n % 250 == 1:
                    ctx.sample({'part': 'spelled request', 'form': world.form,
                                'script': [pc.req_str(x) for x in script],
                                'steps': b['steps'][-1:]})
        finally:
            if fi != 0:
                world.close()
    ctx.notes.append(f'spelled requests: {len(seen)} from TLC, {n} replayed '
                     f'{per_form}; probe battery triggered on {nsusp} '
                     f'({nprobes} probes)')
    return n


QUICK_PROBES = ['lstat', 'stat', 'readlink', 'open_r', 'open_w', 'remove',
                'rmdir']


def init_requests(init):
    """an initial tree as the requests that build it"""
    reqs = []
    for loc in sorted(init, key=lambda k: (len(k), k)):
        reqs.append(('mkdir' if init[loc] == 'dir' else 'open_w',
                     '/'.join(loc).encode(), b''))
    return reqs


def pc_two_slashes(b):
    return b.startswith(b'//') and not b.startswith(b'///')


REGRESSIONS = [
    ('F9 relative link moved by rename', [
        ('mkdir', b'a', b''), ('symlink', b'..', b'a/up'),
        ('rename', b'a/up', b'up'), ('opendir', b'up', b'')]),
    ('F9 create through moved link', [
        ('mkdir', b'a', b''), ('symlink', b'..', b'a/up'),
        ('rename', b'a/up', b'up'), ('open_w', b'up/new', b'')]),
    ('relative link hard-linked elsewhere', [
        ('mkdir', b'a', b''), ('symlink', b'..', b'a/up'),
        ('link', b'a/up', b'up'), ('opendir', b'up', b'')]),
    ('directory holding a relative link moved', [
        ('mkdir', b'a', b''), ('mkdir', b'a/b', b''),
        ('symlink', b'../..', b'a/b/up'), ('posix_rename', b'a/b', b'b'),
        ('opendir', b'b/up', b'')]),
    ('relative link moved by posix_rename', [
        ('mkdir', b'a', b''), ('symlink', b'..', b'a/up'),
        ('posix_rename', b'a/up', b'up'), ('opendir', b'up', b'')]),
    ('rewritten relative link moved by rename', [
        ('mkdir', b'a', b''), ('symlink', b'../..', b'a/up'),
        ('rename', b'a/up', b'up'), ('opendir', b'up', b'')]),
    ('directory holding a relative link moved by rename', [
        ('mkdir', b'a', b''), ('mkdir', b'a/b', b''),
        ('symlink', b'../..', b'a/b/up'), ('rename', b'a/b', b'b'),
        ('opendir', b'b/up', b'')]),
    ('link renamed onto a name a target passes through', [
        ('mkdir', b'a', b''), ('symlink', b'.', b'b'),
        ('symlink', b'b/../..', b'a/l'), ('rename', b'b', b'a/b'),
        ('stat', b'a/l', b'')]),
    ('link posix_renamed onto a name a target passes through', [
        ('mkdir', b'a', b''), ('symlink', b'.', b'b'),
        ('symlink', b'b/../..', b'a/l'), ('posix_rename', b'b', b'a/b'),
        ('stat', b'a/l', b'')]),
    ('link hard-linked onto a name a target passes through', [
        ('mkdir', b'a', b''), ('symlink', b'.', b'b'),
        ('symlink', b'b/../..', b'a/l'), ('link', b'b', b'a/b'),
        ('stat', b'a/l', b'')]),
    ('link created through a link to the root', [
        ('symlink', b'.', b'a'), ('symlink', b'..', b'a/b'),
        ('opendir', b'b', b'')]),
    ('target passes through a later link', [
        ('mkdir', b'a', b''), ('symlink', b'b/../..', b'a/l'),
        ('symlink', b'/', b'a/b'), ('opendir', b'a/l', b'')]),
]


def canon_names(reqs):
    """rename the names a/b by order of first appearance (x, y)"""
    order = []
    for _op, p, q in reqs:
        for s in (p, q):
            for c in s.split(b'/'):
                if c in (b'a', b'b') and c not in order:
                    order.append(c)
    m = {c: n for c, n in zip(order, (b'a', b'b'))}
    conv = lambda s: b'/'.join(m.get(c, c) for c in s.split(b'/'))
    return [(op, conv(p), conv(q)) for op, p, q in reqs]


def note_escape(pc, world, found, cache, seq, causes, evs, prio=1):
    """seq: requests from the empty root, the last one escaping for `causes`
    [(kind, history)].  Keeps, per cause, the best minimal example."""
    for cause in causes:
        old = found.get(cause)
        if old is not None and old[3] <= prio and len(old[0]) <= 3:
            continue                    # a short example is already known
        if cause[0] == 'map-path':
            found.setdefault(cause, ((), pc.req_str(seq[-1]), evs[0][2], prio))
            continue
        ck = (cause, tuple(seq))
        if ck not in cache:
            small = pc.minimise(world, {}, seq, cause) if len(seq) > 1 else seq
            cache[ck] = canon_names(small)
        small = cache[ck]
        setup = tuple(pc.req_str(x) for x in small[:-1])
        new = (setup, pc.req_str(small[-1]), evs[0][2], prio)
        if old is None or (prio, len(setup), setup) < (old[3], len(old[0]),
                                                       old[0]):
            found[cause] = new


# --------------------------------------------------------------------------
def conv_ent(e, area_top):
    t = '/'.join(e['t'])
    if t.startswith('/T'):
        t = area_top + t[2:]
    return dict(name='/'.join(e['name']).encode(), type=e['type'],
                t=t.encode(), sub=[conv_ent(s, area_top) for s in e['sub']])


def ent_str(e):
    s = f'{e["type"]} {e["name"].decode()!r}'
    if e['type'] == 'link':
        s += f' -> {e["t"].decode()!r}'
    if e['sub']:
        s += ' [' + ', '.join(ent_str(x) for x in e['sub']) + ']'
    return s


def dl_model_shape(tree_set):
    out = {}
    for loc, kind, t in tree_set:
        loc = tuple(loc)
        if loc[:1] != ('T',) or loc in (('T',), ('T', 'Dx')):
            continue
        out[loc] = (kind, '/'.join(t) if kind == 'link' else '')
    return out


def dl_real_shape(snap, area_top):
    out = {}
    for loc, (kind, data, _ino) in snap.items():
        if loc in DECOY_LOCS or loc[1:2] in SIB_NAMES:
            continue
        out[loc] = (kind, data if kind == 'link' else '')
    return out


DECOY_LOCS = {('T', 'secret'), ('T', 'sdir'), ('T', 'sdir', 'inner')}
SIB_NAMES = {('RRx',), ('RR-old',), ('R~',), ('Dx',), ('D-old',), ('U',)}


def replay_mget(ctx, pc, results, quick):
    """Client-side glob expansion: every sampled case of the two TLC tables
    (hostile listings x pattern lists; benign listings with "." and ".." in
    every position x pattern lists that replay the listing cache x recurse)
    through the real SFTPClient.mget() (what is created locally) and the real
    glob() / glob_sftpname() (the names returned)."""
    import posixpath
    world = pc.DownloadWorld()
    top = world.area.top
    found = {}
    n = 0

    def outside(x):
        return x.startswith(b'/') or not (
            posixpath.normpath(x) + b'/').startswith(b's/')

    def dotted(x):
        return posixpath.basename(x) in (b'.', b'..')
    try:
        cases = printed_blocks(results['mget / glob (table)'], 'MCASE')
        ctx.require(len(cases) > 100, 'no mget case table')
        cases.sort(key=lambda c: json.dumps(c, sort_keys=True))
        if len(cases) > (900 if quick else 2200):
            short = [c for c in cases if len(c[1]) <= 1]
            rest = [c for c in cases if len(c[1]) > 1]
            cases = short + rest[::len(rest) // (300 if quick else 1500) + 1]
        if quick:
            cases = [c for i, c in enumerate(cases)
                     if (c[0]['dest'] == 'dir' and c[0]['cont'] and i % 2 == 0)
                     or i % 8 == 0]
        ben = printed_blocks(results['mget / glob benign listings (table)'],
                             'MCASE')
        ctx.require(len(ben) > 100, 'no benign mget case table')
        ben.sort(key=lambda c: json.dumps(c, sort_keys=True))
        cap = 260 if quick else 1500
        if len(ben) > cap:
            ben = ben[::len(ben) // cap + 1]
        cases += ben

        def note(kind, cfg, hist, ex, run_again):
            seq = list(hist)
            i = 0
            while i < len(seq) and len(seq) > 1:
                cand = seq[:i] + seq[i + 1:]
                if run_again(cand):
                    seq = cand
                else:
                    i += 1
            pats = pats_of_model(cfg['pat'])
            shape = dl_history('get', seq, False) + (
                ('several patterns',) if len(pats) > 1 else ())
            key = (kind, shape)
            inp = (f'patterns={pats!r} dest={cfg["dest"]} recurse={cfg["rec"]}',)\
                + tuple(ent_str(conv_ent(e, '/T')) for e in seq)
            old = found.get(key)
            if old is None or (len(inp), inp) < (len(old[0]), old[0]):
                found[key] = (inp, ex, dict(mode='mget', cfg=cfg, hist=seq))

        for cfg, hist, _state, created, tree, names in cases:
            pat = [x.encode() for x in pats_of_model(cfg['pat'])]
            ents = [conv_ent(e, top) for e in hist]
            created = [tuple(l) for l in created['$set']]
            mesc = any(l[:2] != ('T', 'D') for l in created)
            r = world.run_mget(pat, ents, cfg['dest'], cfg['cont'],
                               recurse=cfg['rec'])
            n += 1
            desc = [ent_str(e) for e in ents]
            ctx.count(('mget', tuple(pat), cfg['dest'], cfg['cont'],
                       cfg['rec'], tuple(desc)), nontrivial=bool(created))
            if n % 150 == 1:
                ctx.sample({'part': 'mget', 'patterns':
                            ['s/' + x.decode() for x in pat],
                            'dest': cfg['dest'], 'recurse': cfg['rec'],
                            'listing': desc, 'exception': r['exc'],
                            'created': sorted('/'.join(k) for k in
                                              dl_real_shape(r['snap'], top))})
            resc = bool(r['escapes'] or r['outside'])
            plain = all(x in ('.', '..') or '/' not in x
                        for x in (e['name'].decode() for e in ents))
            if resc:
                ex = [e.as_list() for e in r['escapes'][:2]] or r['outside']
                ex = json.loads(json.dumps(ex).replace(top, '/T'))

                def again(h, cfg=cfg, pat=pat):
                    rr = world.run_mget(pat, [conv_ent(e, top) for e in h],
                                        cfg['dest'], cfg['cont'],
                                        recurse=cfg['rec'])
                    return bool(rr['escapes'] or rr['outside'])
                note('mget-dot-entry-copied' if plain else 'mget-hostile-name',
                     cfg, hist, ex, again)
            if resc != mesc:
                ctx.divergence(f'mget {pat!r} {cfg["dest"]} {desc}: creation '
                               f'outside dest observed={resc} predicted={mesc}')
            elif not resc:
                a = dl_real_shape(r['snap'], top)
                b = dl_model_shape(tree['$set'])
                if a != b:
                    ctx.divergence(f'mget {pat!r} {cfg["dest"]} cont='
                                   f'{cfg["cont"]} rec={cfg["rec"]} {desc}: '
                                   f'tree observed={a} predicted={b} '
                                   f'exc={r["exc"]}')
            # the names glob() hands to the application
            if cfg['dest'] == 'dir' and cfg['rec'] and \
                    (cfg['cont'] or not quick):
                g = world.run_glob(pat, ents, cfg['cont'], sftpname=n % 2 == 0)
                n += 1
                if g['names'] is not None:
                    got = [x.decode('utf-8', 'backslashreplace')
                           for x in g['names']]
                    want = ['/'.join(x) for x in names]
                    for kind, pred in (
                            ('glob-name-outside-searched-directory', outside),
                            ('glob-reports-dot-entry', dotted)):
                        bad = [x for x in g['names'] if pred(x)]
                        if kind.endswith('dot-entry') and not plain:
                            continue
                        if kind.startswith('glob-name') and plain:
                            bad = [x for x in bad if not dotted(x)]
                        if bad:
                            def again_g(h, cfg=cfg, pat=pat, pred=pred):
                                gg = world.run_glob(
                                    pat, [conv_ent(e, top) for e in h],
                                    cfg['cont'])
                                return any(pred(x) for x in gg['names'] or [])
                            note(kind, cfg, hist,
                                 [x.decode() for x in bad[:3]], again_g)
                    if got != want:
                        ctx.divergence(f'glob {pat!r} {desc}: names observed='
                                       f'{got} predicted={want}')
        ctx.traces_validated(n)
        for (kind, shape), (inp, ex, raw) in sorted(found.items()):
            ctx.notes.append(f'{kind} {list(shape)}: e.g. ' + '; '.join(inp))
            ctx.violation(
                {'module': 'PathConfine', 'kind': kind, 'history': list(shape)},
                f'client-side glob expansion ({kind}, history {list(shape)}): '
                f'e.g. {list(inp)} -> {ex}',
                replay=dict(raw, kind='mget'))
    finally:
        world.close()


def has_link(hist):
    return any(e.get('type') == 'link' or has_link(e.get('sub', []))
               for e in hist)


def replay_dl(ctx, pc, results, quick):
    world = pc.DownloadWorld()
    top = world.area.top
    found = {}
    cache = {}
    n = 0
    try:
        # fixed regression inputs (re-established findings, stable signatures)
        for hist in DL_REGRESSIONS:
            ents = [conv_ent(e, top) for e in hist]
            r = world.run_get(ents, 'dir', True)
            n += 1
            ctx.count(('get-regression', tuple(ent_str(e) for e in ents)))
            if r['escapes'] or r['outside']:
                note_dl(pc, world, found, cache, 'get',
                        {'dest': 'dir', 'cont': True}, hist, r, top, prio=0)
        for name, mode, cap in (('scp sink (exhaustive + table)', 'scp', 260),
                                ('get (table)', 'get', 260)):
            cases = [c[0] for c in printed_blocks(results[name], 'CASE')]
            ctx.require(len(cases) > 50, f'{name}: no case table')
            cases.sort(key=lambda c: json.dumps(c, sort_keys=True))
            if not quick:
                cap = 7000 if mode == 'scp' else 4000
            if len(cases) > cap:
                short = [c for c in cases if len(c[2]) <= 1]
                rest = [c for c in cases if len(c[2]) > 1]
                cases = short + rest[::len(rest) // cap + 1]
            for _mode, cfg, hist, _state, created, tree in cases:
                created = [tuple(l) for l in created['$set']]
                mesc = any(l[:2] != ('T', 'D') for l in created)
                if mode == 'scp':
                    script = scp_script(hist)
                    r = world.run_scp(script, cfg['dest'], cfg['cont'],
                                      preserve=(n % 2 == 1))
                    desc = [f'{a} {nm.decode()!r}' for a, nm in script]
                else:
                    ents = [conv_ent(e, top) for e in hist]
                    r = world.run_get(ents, cfg['dest'], cfg['cont'],
                                      preserve=(n % 3 == 2 and
                                                not has_link(hist)))
                    desc = [ent_str(e) for e in ents]
                n += 1
                ctx.count((mode, cfg['dest'], cfg['cont'], tuple(desc)),
                          nontrivial=bool(created))
                if n % 300 == 1:
                    ctx.sample({'part': mode, 'dest': cfg['dest'],
                                'error_handler': cfg['cont'], 'input': desc,
                                'exception': r['exc'], 'created': sorted(
                                    '/'.join(k) for k in dl_real_shape(
                                        r['snap'], top))})
                resc = bool(r['escapes'] or r['outside'])
                if resc:
                    note_dl(pc, world, found, cache, mode, cfg, hist, r, top)
                if resc != mesc:
                    if not resc:
                        ctx.divergence(f'{mode} {cfg} {desc}: model predicts '
                                       f'creation outside dest, none observed')
                    else:
                        ctx.divergence(f'{mode} {cfg} {desc}: creation outside '
                                       f'dest not predicted by the model: '
                                       f'{[e.as_list() for e in r["escapes"]]}'
                                       f' {r["outside"]}')
                elif not resc:
                    a = dl_real_shape(r['snap'], top)
                    b = dl_model_shape(tree['$set'])
                    if a != b:
                        ctx.divergence(f'{mode} {cfg} {desc}: tree observed='
                                       f'{a} predicted={b} exc={r["exc"]}')
        # fixed cases: attribute preservation through a planted link
        for hist in PRESERVE_CASES:
            ents = [conv_ent(e, top) for e in hist]
            r = world.run_get(ents, 'dir', True, preserve=True)
            n += 1
            ctx.count(('get-preserve', tuple(ent_str(e) for e in ents)))
            if r['escapes'] or r['outside']:
                note_dl(pc, world, found, cache, 'get',
                        {'dest': 'dir', 'cont': True}, hist, r, top,
                        preserve=True)
        ctx.traces_validated(n)
        for (kind, hist), (ex, _prio, raw, inp) in sorted(found.items()):
            ctx.notes.append(f'{kind} {list(hist)}: e.g. ' + '; '.join(inp))
            ctx.violation(
                {'module': 'PathConfine', 'kind': kind, 'history': list(hist)},
                f'download wrote outside the destination ({kind}, history '
                f'{list(hist)}): e.g. remote side sent {list(inp)}; local '
                f'effect {ex}',
                replay=dict(raw, kind='download'))
    finally:
        world.close()


def _m(e):
    """entry with model-style (sequence) fields"""
    return dict(name=e['name'].split('/'), type=e['type'],
                t=e['t'].split('/') if e['t'] else [],
                sub=[_m(x) for x in e['sub']])


DL_REGRESSIONS = [[_m(e) for e in h] for h in [
    [ent('../../x', 'file')],                                   # F4
    [ent('a', 'link', '/T/x'), ent('a', 'file')],               # F4b
    [ent('a', 'link', '../..'), ent('a', 'dir', sub=[ent('pwn', 'file')])],
    [ent('a', 'link', '/T/x'), ent('', 'dir', sub=[ent('a', 'file')])],
]]

PRESERVE_CASES = [[_m(e) for e in h] for h in [
    [ent('a', 'link', '/T/sdir'), ent('a', 'dir', sub=[])],
]]


def dl_history(mode, seq, preserve, rr_ev=None):
    """abstract shape of a minimal hostile input (the signature)"""
    def name_class(nm):
        nm = '/'.join(nm)
        return ('empty-name' if nm == '' else 'dot' if nm == '.' else
                'dotdot' if nm == '..' else
                'ends-in-dotdot' if nm.endswith('/..') else
                'absolute' if nm.startswith('/')
                else 'with-separator' if '/' in nm else
                'with-backslash' if '\\' in nm else 'plain')

    def ent_shape(e):
        if e['type'] == 'link':
            return 'link'
        sh = e['type']
        nc = name_class(e['name'])
        if nc != 'plain':
            sh += f'({nc})'
        if e['sub']:
            sh += '[' + ','.join(ent_shape(x) for x in e['sub']) + ']'
        return sh
    if mode == 'scp':
        out = [f'{x["a"]}({name_class(x["name"])})' if x['a'] in 'CD'
               else x['a'] for x in seq]
    else:
        out = [ent_shape(e) for e in seq]
    if preserve:
        out.append('preserve')
    return tuple(out)


def scp_script(hist):
    return [(x['a'], '/'.join(x['name']).encode() if x['a'] in 'CD' else b'')
            for x in hist]


def note_dl(pc, world, found, cache, mode, cfg, hist, r, top, preserve=False,
            prio=1):
    """classify + minimise an escaping download"""
    import posixpath
    dest = world.area.dest

    def run(h):
        if mode == 'scp':
            return world.run_scp(scp_script(h), cfg['dest'], cfg['cont'],
                                 False)
        return world.run_get([conv_ent(e, top) for e in h], cfg['dest'],
                             cfg['cont'], preserve=preserve)

    def kind_of(res):
        evs = res['escapes']
        base = 'scp' if mode == 'scp' else 'get'
        if not evs:
            return base + '-outside-changed' if res['outside'] else None
        textual = posixpath.normpath(evs[0].path)
        if evs[0].path.startswith('//') and not evs[0].path.startswith('///'):
            textual = textual[1:]
        if not pc.under(dest, textual):
            return base + '-hostile-name'
        return base + '-symlink-write-through'

    def names_of(h):
        out = []
        for x in h:
            if x.get('a', 'C') in 'CD' or 'type' in x:
                out.append('/'.join(x['name']))
            out += names_of(x.get('sub', []))
        return out
    kind = kind_of(r)
    ck = (mode, json.dumps(cfg, sort_keys=True), json.dumps(hist), preserve)
    if ck in cache:
        return
    cache[ck] = True
    seq = list(hist)
    i = 0
    while i < len(seq) and len(seq) > 1:
        cand = seq[:i] + seq[i + 1:]
        if kind_of(run(cand)) == kind:
            seq = cand
        else:
            i += 1
    if mode == 'scp':
        inp = tuple(f'{x["a"]} {"/".join(x["name"])!r}' for x in seq)
    else:
        inp = tuple(ent_str(conv_ent(e, '/T')) for e in seq)
    inp = (f'dest={cfg["dest"]}' + (' preserve' if preserve else ''),) + inp
    if kind.endswith('-hostile-name'):
        nm = names_of(seq)
        kind += (':separator' if any('/' in x for x in nm) else
                 ':dotdot' if any(x in ('.', '..') for x in nm) else ':other')
    hist = dl_history(mode, seq, preserve, rr_ev=None)
    key = (kind, hist)
    old = found.get(key)
    if old is not None and (old[1], len(old[3]), old[3]) <= (prio, len(inp), inp):
        return
    rr = run(seq)
    ex = [e.as_list() for e in rr['escapes'][:2]] or rr['outside']
    ex = json.loads(json.dumps(ex).replace(top, '/T'))
    found[key] = (ex, prio, dict(mode=mode, cfg=cfg, hist=seq,
                                 preserve=preserve), inp)


# --------------------------------------------------------------------------
def replay_saved(ctx, pc):
    """./check C13 --replay <file>: re-run one saved violation."""
    import ast
    with open(ctx.replay_path) as f:
        data = json.load(f)
    rp = data.get('replay') or {}
    print('replaying', json.dumps(data['signature']))
    again = False
    if rp.get('kind') == 'server-seq':
        world = pc.ServerWorld()
        try:
            reqs = []
            init = {}
            for s in rp['requests']:
                if s.startswith('init '):
                    for x, kind in ast.literal_eval(s[5:]):
                        init[tuple(x.split('/'))] = kind
                    continue
                op, rest = s.split(' ', 1)
                args = [a.encode() for a in
                        ast.literal_eval('[' + rest.replace("' '", "', '") + ']')]
                reqs.append((op, args[0], args[1] if len(args) > 1 else b''))
            r = pc.run_sequence(world, init, reqs)
            for s in r['steps']:
                print('  ', s)
            print('   escapes:', r['escapes'])
            again = bool(r['escapes'])
        finally:
            world.close()
    elif rp.get('kind') == 'download':
        world = pc.DownloadWorld()
        try:
            cfg = rp['cfg']
            if rp['mode'] == 'scp':
                r = world.run_scp(scp_script(rp['hist']), cfg['dest'],
                                  cfg['cont'], False)
            else:
                r = world.run_get([conv_ent(e, world.area.top)
                                   for e in rp['hist']], cfg['dest'],
                                  cfg['cont'], preserve=rp.get('preserve', False))
            print('   exception:', r['exc'])
            print('   escapes:', [e.as_list() for e in r['escapes']],
                  r['outside'])
            again = bool(r['escapes'] or r['outside'])
        finally:
            world.close()
    elif rp.get('kind') == 'mget':
        import posixpath
        world = pc.DownloadWorld()
        try:
            cfg = rp['cfg']
            pat = [x.encode() for x in pats_of_model(cfg['pat'])]
            ents = [conv_ent(e, world.area.top) for e in rp['hist']]
            r = world.run_mget(pat, ents, cfg['dest'], cfg['cont'],
                               recurse=cfg.get('rec', True))
            g = world.run_glob(pat, ents, True)
            bad = [x for x in (g['names'] or []) if x.startswith(b'/') or not (
                posixpath.normpath(x) + b'/').startswith(b's/') or
                posixpath.basename(x) in (b'.', b'..')]
            print('   mget escapes:', [e.as_list() for e in r['escapes']],
                  r['outside'])
            print('   glob names outside the searched directory:', bad)
            again = bool(r['escapes'] or r['outside'] or bad)
        finally:
            world.close()
    elif rp.get('kind') == 'map':
        world = pc.ServerWorld()
        try:
            for p, where, _detail in rp['examples']:
                if where == 'map_path':
                    m = pc.real_map_path(world.area.root, [p.encode()])[0]
                    loc, _e = pc.kwalk(m.decode(), True)
                    bad = not pc.under(world.area.root, loc)
                    print(f'   map_path({p!r}) = {m!r}  outside={bad}')
                else:
                    args = p.split(' ') + ['']
                    _st, _d, ev = world.request(where, args[0].encode(),
                                                args[1].encode())
                    bad = bool(world.judge(ev))
                    print(f'   {where} {p!r}: touched '
                          f'{[e.as_list() for e in world.judge(ev)]}')
                again = again or bad
        finally:
            world.close()
    else:
        print('  (no replay recipe stored for this entry)')
    if again:
        ctx.violation(data['signature'], data['what'], replay=rp)
    else:
        print('   not reproduced on this tree')


if __name__ == '__main__':
    run_check('C13', main)
