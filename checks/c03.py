"""C03 - key exchange binds the whole negotiation; no silent downgrade.

1. TLC checks specs/Handshake (symbolic cryptography, an adversary making up
   to two field edits on cleartext handshake messages, every pair of
   preference lists of length <= 2 over three names) against AgreeOrFail,
   BothOrNeither, NoDowngrade, FirstClientPref, EditDetected, Completion for
   the three message flows (fixed-group DH/ECDH/hybrid, group exchange, RSA);
   sensitivity runs (hash without the client's KEXINIT / the server's
   version, _choose_alg walking the server's list) must be rejected.
2. The finished handshakes TLC prints (configuration, edits, predicted
   outcome) are replayed into real client<->server connections through a
   parsing man-in-the-middle, for every key exchange family available; the
   property monitors are evaluated on what both real ends report.
3. Every pair of preference lists TLC enumerates is given to connect() /
   listen() with real algorithm names; negotiated names are compared with
   first-on-the-client's-list.
4. Byte level: every byte of every cleartext handshake message is flipped
   (quick: one family with short lists and a sample for the others;
   thorough: every family); this module's own parser decides whether the
   receiver's view of a hashed / verified field changed (must fail) or only
   unhashed bytes did (random padding, CR of the version line).
"""

import os
import random
import warnings

from harness import tlc
from harness.framework import run_check, MachineryError, VERIF

SPEC = os.path.join(VERIF, 'specs', 'Handshake')

ALL_MSGS = ('{"VC","VS","IC","IS","GREQ","GGRP","INIT","REPLY","PUBKEY",'
            '"SECRET","DONE","NKS","NKC"}')
ALL_FIELDS = ('{"v","eol","banner","tail","split","pad","cookie","kex","hostkey","enc_cs",'
              '"enc_sc","mac_cs","mac_sc","cmp_cs","cmp_sc","ff","strict",'
              '"rest","req","grp","e","f","ks","sig","kt","enc","menc"}')
INVS = ['AgreeOrFail', 'BothOrNeither', 'NoDowngrade', 'FirstClientPref',
        'EditDetected', 'Completion', 'ReportOnlyAfterVerify']


def write_cfg(name, invariants=(), **consts):
    d = dict(KexType='"dh"', MaxEdits=1, VaryCats='{}', VaryMode='"product"',
             EditListMode='"all"',
             TrustAllSet='{FALSE}', HashOmit='{}', PreferServer='FALSE',
             SignBlind='FALSE', ServerSkipsBanner='FALSE',
             ReportAtHostKey='FALSE',
             EditMsgs=ALL_MSGS, EditFields=ALL_FIELDS, Emit='FALSE')
    d.update(consts)
    lines = ['CONSTANTS'] + [f'  {k} = {v}' for k, v in d.items()]
    lines += ['SPECIFICATION Spec', 'CHECK_DEADLOCK FALSE']
    lines += [f'INVARIANT {i}' for i in invariants]
    with open(os.path.join(SPEC, name), 'w') as f:
        f.write('\n'.join(lines) + '\n')
    return name


_EX = [None]


def start_pool(ctx, n):
    """TLC runs are independent JVMs: they are started in the background
    (n at a time) and joined where their result is needed, so that they
    overlap with each other and with the replay into the implementation."""
    from concurrent.futures import ThreadPoolExecutor
    _EX[0] = ThreadPoolExecutor(n)
    ctx._pending = []


def submit(ctx, module, label, cfg, tag, workers, expect):
    def job():
        try:
            return tlc.run(SPEC, module, cfg, tag, workers=workers,
                           timeout=1500)
        finally:
            os.remove(os.path.join(SPEC, cfg))
            tlc.cleanup(tag)
    fut = _EX[0].submit(job)
    box = {}

    def resolve():
        if 'res' not in box:
            box['res'] = fut.result()
            ctx.require_tlc_ok(f'{module} {label}', box['res'],
                               expect_violation=expect)
        return box['res']
    ctx._pending.append(resolve)
    return resolve


def join_all(ctx):
    for r in getattr(ctx, '_pending', []):
        r()


def tlc_run(ctx, label, invariants=INVS, expect=None, workers=8, **consts):
    """-> callable that waits for the run and registers its verdict."""
    tag = 'c03_' + ''.join(ch if ch.isalnum() else '_' for ch in label)
    cfg = write_cfg(f'_{tag}.cfg', invariants, **consts)
    return submit(ctx, 'Handshake', label, cfg, tag, workers, expect)


def emit_cases(ctx, label, **consts):
    """-> callable returning the case table (memoised)."""
    run = tlc_run(ctx, label + ' (case table)', invariants=INVS + ['Emitted'],
                  workers=1, Emit='TRUE', **consts)
    box = {}

    def table():
        if 'cases' not in box:
            box['cases'] = _parse_cases(ctx, label, run())
        return box['cases']
    return table


def _parse_cases(ctx, label, res):
    cases = []
    from harness.drivers.handshake import printed_cases
    for v in printed_cases(res.output):
        if isinstance(v, list) and v and v[0] == 'case':
            cases.append(dict(c=v[1], s=v[2], trustall=v[3], edits=v[4],
                              done_c=v[5], done_s=v[6], chosen=v[7]))
    ctx.require(cases, f'no cases printed by TLC for {label}')
    # vacuity: handshakes complete, and edited ones fail, in the model
    ctx.require(any(c['done_c'] for c in cases), f'{label}: nothing completes')
    return cases


# abstract -> real algorithm names ("other" cipher is the AEAD one, as in
# the specification)
NAMES = {
    'enc': {'strong': 'aes256-ctr', 'weak': 'aes128-cbc',
            'other': 'chacha20-poly1305@openssh.com'},
    'mac': {'strong': 'hmac-sha2-256-etm@openssh.com', 'weak': 'hmac-sha1',
            'other': 'hmac-sha2-512'},
    'cmp': {'strong': 'none', 'weak': 'zlib@openssh.com', 'other': 'zlib'},
    'hostkey': {'strong': 'ssh-ed25519', 'weak': 'ecdsa-sha2-nistp256',
                'other': 'ecdsa-sha2-nistp384'},
}
API = {'kex': 'kex_algs', 'enc': 'encryption_algs', 'mac': 'mac_algs',
       'cmp': 'compression_algs'}


def names_for(kex, others):
    n = dict(NAMES)
    n['kex'] = {'strong': kex, 'weak': others[0], 'other': others[1]}
    return n


def real_lists(cfg, names):
    out = {}
    for cat, api in API.items():
        out[api] = [names[cat][a] for a in cfg[cat]]
    return out, [names['hostkey'][a] for a in cfg['hostkey']]


HK_INVS = ['SigAlgNegotiated', 'FailOnlyIfNoCommon', 'ClientOffered']


def hk_run(ctx, label, invariants=HK_INVS, expect=None, workers=8, **consts):
    d = dict(ServerKeySets='{{"rsa"}, {"rsa", "ed"}}',
             ClientAlgs='{"rsa1", "rsa256", "rsa512", "ed"}', MaxLen=2,
             NConn=2, Interleave='FALSE', Mode='"percopy"', Emit='FALSE')
    d.update(consts)
    tag = 'c03_hk_' + ''.join(ch if ch.isalnum() else '_' for ch in label)[:50]
    name = f'_{tag}.cfg'
    lines = ['CONSTANTS'] + [f'  {k} = {v}' for k, v in d.items()]
    lines += ['SPECIFICATION Spec', 'CHECK_DEADLOCK FALSE']
    lines += [f'INVARIANT {i}' for i in invariants]
    with open(os.path.join(SPEC, name), 'w') as f:
        f.write('\n'.join(lines) + '\n')
    return submit(ctx, 'HostKeyAlg', label, name, tag, workers, expect)


def hk_histories(ctx, label, **consts):
    run = hk_run(ctx, label + ' (history table)',
                 invariants=HK_INVS + ['Emitted'], workers=1, Emit='TRUE',
                 **consts)
    box = {}

    def table():
        if 'out' not in box:
            from harness.drivers.handshake import printed_cases
            out = []
            for v in printed_cases(run().output, 'hist'):
                out.append(dict(keys=sorted(v[1]['$set']), lists=v[2],
                                pred=v[3]))
            ctx.require(out, f'no histories printed by TLC for {label}')
            box['out'] = out
        return box['out']
    return table


def hk_discriminating(h):
    """A history on which one of the deviating rules of the specification
    (shared pair / sticky pair) would sign differently from the design."""
    return any(len(set(p.values())) > 1 for p in h['pred'])


def hostkey_tlc(ctx, quick):
    """Host key / signature algorithm as a negotiated dimension of its own:
    multi-algorithm keys, several keys, histories on one listener.
    Starts the TLC runs; -> history tables (callables)."""
    W = 2 if quick else 6
    allsets = ('{{"rsa"}, {"rsa", "ed"}, {"rsacert", "ed"}, '
               '{"rsa", "rsacert", "edcert", "ec"}}')
    allalgs = '{"rsa1", "rsa256", "rsa512", "ed", "c1", "c256", "c512"}'
    certsets = '{{"rsacert"}, {"rsacert", "rsa", "edcert"}}'
    certalgs = '{"c1", "c256", "c512", "rsa256", "ced"}'
    # design: any interleaving of the connections of one listener
    if quick:
        hk_run(ctx, 'design, 2 interleaved connections, plain and '
               'certificate keys',
               ServerKeySets='{{"rsa", "ed"}, {"rsacert", "rsa"}}',
               ClientAlgs='{"rsa1", "rsa512", "ed", "c1", "c256"}',
               Interleave='TRUE', workers=W)
    else:
        hk_run(ctx, 'design, 2 interleaved connections, plain and '
               'certificate keys', ServerKeySets=allsets, ClientAlgs=allalgs,
               Interleave='TRUE', workers=W)
    if not quick:
        hk_run(ctx, 'design, 3 interleaved connections', NConn=3,
               Interleave='TRUE', workers=W)
        hk_run(ctx, 'design, 2 interleaved connections, lists <= 3',
               ServerKeySets=allsets, ClientAlgs=allalgs, MaxLen=3,
               Interleave='TRUE', workers=W)
    # sensitivity: the rules that keep the choice in the shared key pair
    hk_run(ctx, 'sensitivity: choice kept in the shared pair, interleaved',
           Mode='"shared"', Interleave='TRUE', expect='SigAlgNegotiated',
           invariants=['SigAlgNegotiated'], workers=W)
    if not quick:
        hk_run(ctx, 'sensitivity: choice kept in the shared pair, certificate '
               'pair, one connection after the other', Mode='"shared"',
               ServerKeySets='{{"rsacert"}}', ClientAlgs='{"c1", "c256", "c512"}',
               expect='SigAlgNegotiated', invariants=['SigAlgNegotiated'],
               workers=W)
    hk_run(ctx, 'sensitivity: sticky pair, one connection after the other',
           Mode='"sticky"', expect='SigAlgNegotiated',
           invariants=['SigAlgNegotiated'], workers=W)

    tabs = [hk_histories(ctx, '3 connections, RSA and ed25519 keys',
                         NConn=3),
            hk_histories(ctx, '2 connections, certificate keys',
                         ServerKeySets=certsets, ClientAlgs=certalgs)]
    if not quick:
        tabs.append(hk_histories(
            ctx, '2 connections, lists <= 3, plain and certificate keys',
            ServerKeySets='{{"rsa", "rsacert", "edcert", "ec"}, '
                          '{"rsa", "ed"}}',
            ClientAlgs='{"rsa1", "rsa512", "c1", "c256", "ed"}', MaxLen=3))
    return tabs


def hostkey_replay(ctx, H, quick, rnd, state, tabs):
    tabs = [t() for t in tabs]
    R = H.HK_REAL
    tally = state['hk'] = {'connections': 0, 'histories': 0,
                           'interleaved': 0, 'failed_as_predicted': 0}

    def run_one(h, schedule):
        lists = [[R[a] for a in l] for l in h['lists']]
        obs = H.run_history(set(h['keys']), lists, schedule)
        judge_history(ctx, H, h, schedule, obs, tally)
        state['traces'] += 1

    for tab in tabs:
        rnd.shuffle(tab)
        disc = [h for h in tab if hk_discriminating(h)]
        rest = [h for h in tab if not hk_discriminating(h)]
        nd, nr = (90, 25) if quick else (900, 300)
        for h in disc[:nd] + rest[:nr]:
            run_one(h, None)
        # interleavings: two connections of the history, every order of the
        # server's choose / sign steps
        seen = set()
        pairs = []
        for h in disc + rest:
            h2 = dict(keys=h['keys'], lists=h['lists'][:2],
                      pred=h['pred'][:2])
            k = str((h2['keys'], h2['lists']))
            a, b = (p['percopy'] for p in h2['pred'])
            if k in seen or 'none' in (a, b) or a == b:
                continue
            seen.add(k)
            pairs.append(h2)
        scheds = H.interleavings(2)
        for n, h2 in enumerate(pairs[:(24 if quick else 250)]):
            for sch in scheds:
                run_one(h2, sch)
        if not quick:
            sch3 = H.interleavings(3, limit=30, rnd=rnd)
            for h in [x for x in disc if len(x['lists']) == 3][:60]:
                for sch in sch3[:10]:
                    run_one(h, sch)
    # client side: a server that signs with another algorithm than the
    # negotiated one (not an on-path edit: observation only)
    notes = []
    for offered, forced in (('rsa-sha2-512', 'ssh-rsa'),
                            ('ssh-rsa', 'rsa-sha2-512')):
        o = H.run_history({'rsa'}, [[offered]], None, force_sig=forced)[0]
        notes.append(f'client offering only {offered}, server signs with '
                     f'{o.sig_alg}: client '
                     f'{"accepted" if o.completed else "refused"}')
    ctx.notes.append('observation (not judged, the server is hostile, not '
                     'the path): ' + '; '.join(notes))
    ctx.notes.append(f'host key algorithm histories: {tally}')
    ctx.require(tally['connections'] > 200 and tally['interleaved'] > 50,
                f'host key history replay is vacuous: {tally}')


def judge_history(ctx, H, h, schedule, obs, tally):
    sched = 'sequential'
    if schedule is not None:
        steps = [x for x in schedule if x[0] != 'open']
        for n, (what, i) in enumerate(steps[:-1]):
            if what == 'choose' and tuple(steps[n + 1]) != ('sign', i):
                sched = 'interleaved'
    tally['histories'] += 1
    tally['interleaved'] += schedule is not None
    recipe = {'kind': 'history', 'keys': h['keys'], 'lists': h['lists'],
              'pred': h['pred'], 'schedule': schedule, 'kex': 'n/a',
              'label': f'history {h["lists"]} on keys {h["keys"]} '
                       f'({sched})'}
    ctx.count(('hist', str(h['keys']), str(h['lists']), str(schedule)))
    for i, o in enumerate(obs):
        tally['connections'] += 1
        want = h['pred'][i]['percopy']
        if not o.completed:
            if want != 'none':
                ctx.divergence(f'{recipe["label"]}: connection {i} failed '
                               f'({o.exc!r}), the model negotiates {want}')
            else:
                tally['failed_as_predicted'] += 1
            continue
        neg = o.neg
        exp = H.sig_alg_of(neg) if neg else None
        sig = {'module': 'Handshake', 'clause': 'SigAlgNegotiated',
               'schedule': sched,
               'keytype': 'cert' if neg and neg.endswith(H.CERT_SUFFIX)
               else 'plain'}
        what = (f'connection {i + 1} of {len(obs)} to one listener '
                f'(host keys {h["keys"]}, client lists '
                f'{[[H.HK_REAL[a] for a in l] for l in h["lists"]]}, '
                f'{sched}' + (f' {schedule}' if schedule else '') + '): ')
        if o.sig_alg != exp:
            ctx.violation(sig, what + f'the KEXINITs on the wire negotiate '
                          f'{neg} (first on the client list the server has '
                          f'a key for), the exchange hash was signed with '
                          f'{o.sig_alg}', replay=recipe)
        elif o.ks_type != H.key_blob_type_of(neg):
            ctx.violation(dict(sig, clause='HostKeyNegotiated'),
                          what + f'negotiated {neg}, server presented a key '
                          f'of type {o.ks_type}', replay=recipe)
        if o.verified is not True:
            ctx.violation(dict(sig, clause='SignatureVerifies'),
                          what + f'the signature does not verify over the '
                          f'session id under {o.sig_alg} (independent '
                          f'verifier)', replay=recipe)
        if want == 'none' or H.HK_REAL[want] != exp:
            ctx.divergence(f'{recipe["label"]}: connection {i}: the wire '
                           f'negotiates {neg}, the model {want}')
        if o.loop_exceptions:
            ctx.divergence(f'{recipe["label"]}: exception reached the '
                           f'event loop: {o.loop_exceptions[0][:160]}')


def main(ctx):
    warnings.filterwarnings('ignore')
    from harness.drivers import handshake as H
    H.cache_rsa_transient(True)
    quick = ctx.tier == 'quick'
    rnd = random.Random(ctx.seed + 3)
    W = 2 if quick else 6
    start_pool(ctx, 4 if quick else 2)

    if not ctx.replay_path:
        # ---- 1. design check -------------------------------------------------
        elm = '"few"' if quick else '"all"'
        if not quick:
            tlc_run(ctx, 'dh 1 edit, enc lists vary', KexType='"dh"',
                    VaryCats='{"enc"}', EditListMode=elm, workers=W)
        if not quick:
            tlc_run(ctx, 'gex 1 edit, kex lists vary', KexType='"gex"',
                    VaryCats='{"kex"}', EditListMode=elm, workers=W)
            tlc_run(ctx, 'rsa 1 edit, mac lists vary, trust-all too',
                    KexType='"rsa"', VaryCats='{"mac"}', EditListMode='"few"',
                    TrustAllSet='{FALSE, TRUE}', workers=W)
        if not quick:
            tlc_run(ctx, 'dh 2 edits, enc lists vary (few edit lists)',
                    KexType='"dh"', MaxEdits=2, VaryCats='{"enc"}',
                    EditListMode='"single"', workers=W)
            tlc_run(ctx, 'gex 2 edits', KexType='"gex"', MaxEdits=2,
                    EditListMode='"few"', workers=W)
            tlc_run(ctx, 'rsa 2 edits', KexType='"rsa"', MaxEdits=2,
                    EditListMode='"few"', TrustAllSet='{FALSE, TRUE}', workers=W)
            tlc_run(ctx, 'dh 0 edits, kex+enc lists vary', KexType='"dh"',
                    MaxEdits=0, VaryCats='{"kex", "enc"}', workers=W)
            tlc_run(ctx, 'dh 0 edits, hostkey+mac lists vary', KexType='"dh"',
                    MaxEdits=0, VaryCats='{"hostkey", "mac"}', workers=W)
            tlc_run(ctx, 'dh 1 edit, hostkey+cmp lists vary', KexType='"dh"',
                    VaryCats='{"hostkey", "cmp"}', EditListMode='"few"',
                    workers=W)
        # sensitivity: weakened rules must be rejected
        tlc_run(ctx, 'sensitivity: hash omits client KEXINIT', KexType='"dh"',
                HashOmit='{"IC"}', EditListMode='"few"', expect='EditDetected',
                invariants=['EditDetected'], workers=W)
        if not quick:
            tlc_run(ctx, 'sensitivity: hash omits server version',
                    KexType='"gex"', HashOmit='{"VS"}', EditListMode='"few"',
                    expect='EditDetected', invariants=['EditDetected'],
                    workers=W)
        if not quick:
            tlc_run(ctx, 'sensitivity: both KEXINITs unhashed allow a downgrade',
                    KexType='"dh"', HashOmit='{"IC", "IS"}', MaxEdits=2,
                    VaryCats='{"enc"}', EditListMode='"single"',
                    EditMsgs='{"IC", "IS"}', EditFields='{"enc_cs", "enc_sc"}',
                    expect='NoDowngrade', invariants=['NoDowngrade'], workers=W)
        tlc_run(ctx, 'sensitivity: received mpints read as unsigned',
                KexType='"gex"', SignBlind='TRUE',
                EditMsgs='{"GGRP", "INIT", "REPLY"}', expect='EditDetected',
                invariants=['EditDetected'], workers=W)
        tlc_run(ctx, 'sensitivity: host key reported before the signature is '
                'verified', ReportAtHostKey='TRUE', TrustAllSet='{TRUE}',
                EditMsgs='{"REPLY"}', expect='ReportOnlyAfterVerify',
                invariants=['ReportOnlyAfterVerify'], workers=W)
        tlc_run(ctx, 'sensitivity: the server skips lines before the version',
                ServerSkipsBanner='TRUE', EditMsgs='{"VC", "VS"}',
                expect='EditDetected', invariants=['EditDetected'], workers=W)
        tlc_run(ctx, 'sensitivity: choose_alg prefers the server list',
                KexType='"dh"', PreferServer='TRUE', MaxEdits=0,
                VaryCats='{"enc"}', expect='NoDowngrade',
                invariants=['NoDowngrade'], workers=W)

    # ---- 2. replay of edited handshakes ----------------------------------
    avail = H.available_kex()
    ctx.require(len(avail) >= 20, f'unexpectedly few kex methods: {avail}')
    slow = {'diffie-hellman-group17-sha512', 'diffie-hellman-group18-sha512',
            'diffie-hellman-group18-sha512@ssh.com'}
    main_fams = ['curve25519-sha256', 'ecdh-sha2-nistp256',
                 'mlkem768x25519-sha256', 'diffie-hellman-group14-sha256',
                 'diffie-hellman-group-exchange-sha256', 'rsa2048-sha256',
                 'curve448-sha512', 'ecdh-sha2-nistp521',
                 'mlkem768nistp256-sha256', 'diffie-hellman-group16-sha512']
    main_fams = [k for k in main_fams if k in avail]
    ctx.notes.append(f'kex methods available: {len(avail)}; edit tables '
                     f'replayed for: {main_fams if quick else avail}')

    tables = {}
    if not ctx.replay_path:
        for kt in ('dh', 'gex', 'rsa'):
            tables[kt, 1] = emit_cases(ctx, f'{kt} 1 edit fixed lists',
                                       KexType=f'"{kt}"', MaxEdits=1,
                                       EditListMode='"all"')
        two = emit_cases(ctx, 'dh 2 edits fixed lists, few values',
                         KexType='"dh"', MaxEdits=2, EditListMode='"few"',
                         EditFields='{"v","pad","cookie","kex","enc_cs","enc_sc",'
                                    '"mac_sc","ff","strict","e","f","ks","sig"}')
        one_f = emit_cases(ctx, 'pairs kex | hostkey | cmp (one category at '
                           'a time)', MaxEdits=0,
                           VaryCats='{"kex", "hostkey", "cmp"}',
                           VaryMode='"oneof"')
        encmac_f = emit_cases(ctx, 'pairs enc x mac', MaxEdits=0,
                              VaryCats='{"enc", "mac"}')
        hk_tabs = hostkey_tlc(ctx, quick)
        # all TLC runs are under way; take the tables needed first
        tables = {k: f() for k, f in tables.items()}
        tables['dh', 2] = [c for c in two() if len(c['edits']) == 2]

    state = {'n': 0, 'traces': 0, 'tally': {}, 'entry': {}}

    def judge(o, case, kex, names, label, bytelevel=None, recipe=None):
        """Monitors on the observed outcome + comparison with the model."""
        state['n'] += 1
        kt = H.spec_kextype(kex)
        eff = o.effects
        bound = 'bound' in eff
        fields = [f'{e["msg"]}.{e["field"]}' for e in case['edits']] \
            if case else [bytelevel]
        replay = dict(recipe or {}, kex=kex, label=label)
        sig = {'module': 'Handshake', 'kextype': kt, 'fields': fields}
        tk = ('+'.join(sorted(set(eff))) or 'no edit',
              'completed' if o.completed else 'failed')
        state['tally'][tk] = state['tally'].get(tk, 0) + 1
        if o.mitm.errors:
            raise MachineryError(f'MITM could not apply {label} on {kex}: '
                                 f'{o.mitm.errors}')
        if o.completed or o.server_auth_begun:
            if bound:
                ctx.violation(dict(sig, clause='EditDetected'),
                              f'{kex}: {label}: a hashed/verified field was '
                              f'altered in flight ({eff}) and the handshake '
                              f'still completed (client ok={o.client_ok}, '
                              f'server began auth={o.server_auth_begun})',
                              replay=replay)
            if o.completed and 'sig' in eff and \
                    not H.received_signature_ok(o.mitm, o.sid_c):
                ctx.violation(dict(sig, clause='SignatureVerifies'),
                              f'{kex}: {label}: the client completed with a '
                              f'host signature which does not verify over '
                              f'its session id under the host key it '
                              f'received (independent verifier)',
                              replay=replay)
            if o.completed and o.sid_c != o.sid_s:
                ctx.violation(dict(sig, clause='AgreeOrFail'),
                              f'{kex}: {label}: both sides completed with '
                              f'different session ids', replay=replay)
        if o.completed:
            got, mism = H.negotiated(o)
            if mism:
                ctx.violation(dict(sig, clause='AgreeOrFail', mismatch=mism),
                              f'{kex}: {label}: sides report different '
                              f'algorithms {mism}', replay=replay)
            neg, kst, sga = H.wire_hostkey_choice(o.mitm)
            if not bound and neg is not None and \
                    sga != H.sig_alg_of(neg):
                ctx.violation(dict(sig, clause='SigAlgNegotiated'),
                              f'{kex}: {label}: KEXINITs negotiate host key '
                              f'algorithm {neg}, exchange hash signed with '
                              f'{sga}', replay=replay)
            if o.ran_command and o.echo != 'pong:ping':
                ctx.divergence(f'{kex}: {label}: completed but the session '
                               f'did not carry a command: {o.client_exc!r}')
        if o.loop_exceptions:
            ctx.divergence(f'{kex}: {label}: exception reached the event '
                           f'loop: {o.loop_exceptions[0][:200]}')
        return bound

    def model_compare(o, want_done, kex, label):
        if o.completed != want_done:
            ctx.divergence(f'{kex}: {label}: model says '
                           f'{"complete" if want_done else "fail"}, code '
                           f'{"completed" if o.completed else "failed"} '
                           f'({type(o.client_exc).__name__}: '
                           f'{str(o.client_exc)[:80]}) effects={o.effects}')
        elif not want_done and o.server_lost is None:
            ctx.divergence(f'{kex}: {label}: client failed but the server '
                           f'side never saw the connection end')

    def judge_entry(o, kex, label, recipe, want_done):
        """get_server_host_key(): a key is reported only if the exchange
        hash and the host signature verified."""
        eff = o.effects
        state['entry'][bool(o.reported), '+'.join(sorted(set(eff))) or
                       'no edit'] = state['entry'].get(
            (bool(o.reported), '+'.join(sorted(set(eff))) or 'no edit'),
            0) + 1
        if o.mitm.errors:
            raise MachineryError(f'MITM could not apply {label} on {kex}: '
                                 f'{o.mitm.errors}')
        sig = {'module': 'Handshake', 'clause': 'ReportOnlyAfterVerify',
               'entry': 'get_server_host_key',
               'kextype': H.spec_kextype(kex)}
        rp = dict(recipe, kex=kex, label=label, entry='hostkey')
        if o.reported and ('bound' in eff or 'sig' in eff):
            ctx.violation(sig, f'{kex}: {label}: get_server_host_key() '
                          f'returned a host key although a hashed / verified '
                          f'field was altered in flight ({eff}): the '
                          f'exchange hash or the host signature cannot have '
                          f'verified', replay=rp)
        elif o.reported:
            rep_msg = o.mitm.by_name.get('REPLY') or \
                o.mitm.by_name.get('PUBKEY')
            sent = rep_msg.fields['ks'] if rep_msg and rep_msg.fields \
                else None
            if sent is not None and o.reported_key != sent and \
                    not o.reported_key or (sent is not None and
                                           sent.find(o.reported_key or
                                                     b'?') < 0 and
                                           o.reported_key != sent):
                # a certificate is reported as its certified key
                ctx.divergence(f'{kex}: {label}: reported key is not the '
                               f'one the server sent')
        if bool(o.reported) != bool(want_done):
            ctx.divergence(f'{kex}: {label}: get_server_host_key(): model '
                           f'says {"key" if want_done else "error"}, code '
                           f'{"returned a key" if o.reported else "raised"} '
                           f'({o.client_exc!r}) effects={eff}')
        state['traces'] += 1

    def fixed_lists(names):
        cfg = {c: ['strong'] for c in ('kex', 'hostkey', 'enc', 'mac', 'cmp')}
        return real_lists(cfg, names)

    def replay_case(kex, case, names, variant, run_command=True,
                    entry='connect'):
        cl, chk = real_lists(case['c'], names)
        sl, shk = real_lists(case['s'], names)
        try:
            edits = [H.concretise(e, names, variant, H.family(kex))
                     for e in case['edits']]
        except H.NotApplicable:
            return None
        label = '+'.join(e['label'] for e in edits) or 'no edit'
        o = H.run_handshake(kex, client=cl, server=sl, edits=edits,
                            trust='none' if case['trustall'] else 'known',
                            server_hostkeys=shk, client_hostkey_algs=chk,
                            run_command=run_command, entry=entry)
        if entry == 'hostkey':
            judge_entry(o, kex, label,
                        {'kind': 'case', 'case': case, 'names': names,
                         'variant': variant}, case['done_c'])
            ctx.count(('hostkey-entry', kex,
                       tuple((e['msg'], e['field'], e['val'])
                             for e in case['edits'])))
            return o
        recipe = {'kind': 'case', 'case': case, 'names': names,
                  'variant': variant}
        judge(o, case, kex, names, label, recipe=recipe)
        # an edit whose message never travelled (the exchange had already
        # failed) cannot be compared beyond "failed"
        model_compare(o, case['done_c'], kex, label)
        if o.completed and case['done_c']:
            got, _ = H.negotiated(o)
            want = {}
            for k, v in case['chosen'].items():
                cat = k.split('_')[0]
                if cat == 'mac' and case['chosen']['enc' + k[3:]] == 'other':
                    cat = 'enc'         # AEAD cipher: no separate MAC
                want[k] = names[cat][v]
            if any(got[k] != want[k] for k in want):
                ctx.violation({'module': 'Handshake', 'clause': 'NoDowngrade',
                               'client': case['c'], 'server': case['s']},
                              f'{kex}: {label}: negotiated {got}, the '
                              f'specification (first on the client list '
                              f'that the server supports) says {want}',
                              replay=dict(recipe, kex=kex))
        state['traces'] += 1
        ctx.count((kex if kex in main_fams else H.spec_kextype(kex),
                   tuple((e['msg'], e['field'], e['val'])
                         for e in case['edits']),
                   str(case['c']), str(case['s'])),
                  nontrivial=bool(case['edits']) or True)
        return o

    def pick_others(kex):
        pool = [k for k in ('curve25519-sha256',
                            'diffie-hellman-group14-sha256',
                            'ecdh-sha2-nistp384') if k != kex]
        return pool[:2]

    KEXMSGS = ('GREQ', 'GGRP', 'INIT', 'REPLY', 'PUBKEY', 'SECRET', 'DONE')

    def recode_one(kex, ed, cl, sl, chk, shk, names, hostkey=None):
        o = H.run_handshake(kex, client=cl, server=sl,
                            edits=[dict(ed)], server_hostkeys=shk,
                            client_hostkey_algs=chk, run_command=False)
        eff = '+'.join(sorted(set(o.effects))) or 'none'
        judge(o, None, kex, names, ed['label'],
              bytelevel=f'{ed["label"]}:{eff}',
              recipe={'kind': 'recode', 'op': ed['label'],
                      'hostkey': hostkey})
        # only another spelling of the same values (or of the padding) may
        # complete; it must then complete with the same parameters
        model_compare(o, eff in ('harmless', 'recoded'), kex, ed['label'])
        ctx.count(('recode', kex, ed['label']))
        state['traces'] += 1
        state['recode'][eff, o.completed] = \
            state['recode'].get((eff, o.completed), 0) + 1
        return o

    def recode_sweep(kex, msgs, every=1):
        names = names_for(kex, pick_others(kex))
        cl, chk = fixed_lists(names)
        sl, shk = fixed_lists(names)
        fam = H.family(kex)
        n = 0
        for name in msgs:
            for ed in H.reencoding_edits(name, fam):
                n += 1
                if every > 1 and (n + ctx.seed) % every != 0:
                    continue
                recode_one(kex, ed, cl, sl, chk, shk, names)

    state['recode'] = {}
    if ctx.replay_path:
        import json
        with open(ctx.replay_path) as f:
            rp = json.load(f)['replay']
        kex = rp['kex']
        if rp['kind'] == 'history':
            h = dict(keys=rp['keys'], lists=rp['lists'], pred=rp['pred'])
            sch = rp['schedule'] and [tuple(x) for x in rp['schedule']]
            obs = H.run_history(set(h['keys']),
                                [[H.HK_REAL[a] for a in l]
                                 for l in h['lists']], sch)
            tally = {'connections': 0, 'histories': 0, 'interleaved': 0,
                     'failed_as_predicted': 0}
            judge_history(ctx, H, h, sch, obs, tally)
            for i, o in enumerate(obs):
                print(f'connection {i}: completed={o.completed} negotiated '
                      f'on the wire={o.neg} key={o.ks_type} signed with='
                      f'{o.sig_alg} verifies={o.verified}')
            ctx.traces_validated(1)
            ctx.level = 'exploration'
            return
        if rp['kind'] == 'recode':
            names = names_for(kex, pick_others(kex))
            cl, chk = fixed_lists(names)
            sl, shk = fixed_lists(names)
            hk = rp.get('hostkey')
            if hk:
                base = H.run_handshake(kex, client=cl, server=sl,
                                       server_hostkeys=[hk],
                                       client_hostkey_algs=[hk],
                                       run_command=False)
                ed = [dict(e, label=rp['op']) for e in
                      H.structured_edits(base.mitm.msgs)
                      if f'{e["label"]} (host key {hk})' == rp['op']][0]
                chk = shk = [hk]
            else:
                mname = rp['op'].split('.')[0].split(':')[0]
                ed = [e for e in H.reencoding_edits(mname, H.family(kex))
                      if e['label'] == rp['op']][0]
            o = recode_one(kex, ed, cl, sl, chk, shk, names, hostkey=hk)
            print(f'replayed {rp["op"]} on {kex}: completed={o.completed} '
                  f'client_error={o.client_exc!r} server={o.server_lost} '
                  f'effects={o.effects} session ids equal='
                  f'{o.sid_c == o.sid_s and o.sid_c is not None}')
            ctx.traces_validated(1)
            ctx.level = 'exploration'
            return
        if rp['kind'] == 'ident':
            names = names_for(kex, pick_others(kex))
            cl, chk = fixed_lists(names)
            sl, shk = fixed_lists(names)
            op, _, num = rp['op'].partition('#')
            fn = {'v:changed': H.e_version, 'v:refused': H.e_version_bad,
                  'banner': H.e_banner, 'tail': H.e_tail,
                  'split': H.e_split}.get(op)
            fn = H.e_eol if fn is None else fn(int(num))
            ed = {'msg': rp['msg'], 'fn': fn, 'label': rp['label']}
            o = H.run_handshake(kex, client=cl, server=sl, edits=[ed],
                                server_hostkeys=shk, client_hostkey_algs=chk,
                                run_command=False)
            judge(o, None, kex, names, rp['label'],
                  bytelevel=f'{rp["label"]}:{(o.effects or ["none"])[0]}',
                  recipe=rp)
            print(f'replayed {rp["label"]}: completed={o.completed} '
                  f'client_error={o.client_exc!r} server={o.server_lost} '
                  f'effects={o.effects}')
            ctx.traces_validated(1)
            ctx.level = 'exploration'
            return
        if rp['kind'] == 'case':
            o = replay_case(kex, rp['case'], rp['names'], rp['variant'],
                            entry=rp.get('entry', 'connect'))
        else:
            names = names_for(kex, pick_others(kex))
            if rp['narrow']:
                cl, chk = fixed_lists(names)
                sl, shk = fixed_lists(names)
            else:
                cl, chk, sl, shk = {}, ['ssh-ed25519'], {}, ['ssh-ed25519']
            ed = {'msg': rp['msg'], 'fn': H.e_flip(rp['offset'], rp['mask']),
                  'label': rp['label']}
            o = H.run_handshake(kex, client=cl, server=sl, edits=[ed],
                                server_hostkeys=shk, client_hostkey_algs=chk)
            judge(o, None, kex, names, rp['label'],
                  bytelevel=f'{rp["msg"]}:{(o.effects or ["none"])[0]}',
                  recipe=rp)
        print(f'replayed {rp["label"]}: completed={o.completed} '
              f'client_error={o.client_exc!r} server={o.server_lost} '
              f'effects={o.effects}')
        ctx.traces_validated(1)
        ctx.level = 'exploration'
        return

    sampled = 0
    kex_list = main_fams if quick else avail
    for ki, kex in enumerate(kex_list):
        names = names_for(kex, pick_others(kex))
        table = tables[H.spec_kextype(kex), 1]
        heavy = kex in slow
        for ci, case in enumerate(table):
            if len(case['edits']) == 1:
                e = case['edits'][0]
                islist = e['field'] in ('kex', 'hostkey', 'enc_cs', 'enc_sc',
                                        'mac_cs', 'mac_sc', 'cmp_cs',
                                        'cmp_sc')
                # list edits: 8 values per field; quick keeps a rotating two
                if islist and (quick or heavy) and \
                        (ci + ki) % 4 != 0:
                    continue
                if heavy and not islist and (ci + ki) % 3 != 0:
                    continue
            o = replay_case(kex, case, names, variant=ci + ki,
                            run_command=not heavy)
            if o is None:
                continue        # edit not applicable to this family
            # the same case through the other API entry point
            ed0 = case['edits'][0] if case['edits'] else None
            if not heavy and (not quick or ed0 is None or ed0['msg'] in (
                    'VS', 'IS', 'INIT', 'REPLY', 'GGRP', 'PUBKEY', 'SECRET',
                    'DONE') or (ci + ki) % 5 == 0):
                replay_case(kex, case, names, variant=ci + ki,
                            run_command=False, entry='hostkey')
            sampled += 1
            if sampled % 211 == 1:
                ctx.sample({'kex': kex, 'edits': case['edits'],
                            'model_done': case['done_c'],
                            'code_completed': o.completed,
                            'client_error': type(o.client_exc).__name__,
                            'server_lost': o.server_lost,
                            'effects': o.effects})
    # every remaining method: a short list of decisive edits
    core = [('VC', 'v'), ('VS', 'v'), ('IC', 'cookie'), ('IS', 'kex'),
            ('INIT', 'e'), ('REPLY', 'f'), ('REPLY', 'ks'), ('REPLY', 'sig'),
            ('GREQ', 'req'), ('GGRP', 'grp'), ('PUBKEY', 'kt'),
            ('SECRET', 'enc'), ('DONE', 'sig'), ('IS', 'pad')]
    for ki, kex in enumerate(avail):
        if kex in kex_list:
            continue
        if quick and kex in slow:
            continue
        names = names_for(kex, pick_others(kex))
        seen = set()
        for ci, case in enumerate(tables[H.spec_kextype(kex), 1]):
            if len(case['edits']) != 1:
                if not case['edits']:
                    replay_case(kex, case, names, 0)
                continue
            e = case['edits'][0]
            key = (e['msg'], e['field'])
            if key not in core or key in seen:
                continue
            seen.add(key)
            replay_case(kex, case, names, variant=ki, run_command=False)
    # range checks on public values: 0, 1, p-1, p, p+1, negative, other
    # group elements; EC points off the curve, wrong length, empty
    for ki, kex in enumerate(kex_list):
        if H.family(kex) == 'rsa' or kex in slow:
            continue
        names = names_for(kex, pick_others(kex))
        cfg1 = {c: ['strong'] for c in ('kex', 'hostkey', 'enc', 'mac', 'cmp')}
        msgs = {'e': 'INIT', 'f': 'REPLY'}
        for fld in ('e', 'f'):
            for kind, nvar in (('junk', 6), ('invalid', 5)):
                for var in range(nvar):
                    val = '[who |-> "adv"]' if kind == 'junk' else \
                        '[who |-> "invalid"]'
                    case = dict(c=cfg1, s=cfg1, trustall=False,
                                edits=[dict(msg=msgs[fld], field=fld,
                                            val=val)],
                                done_c=False, done_s=False, chosen={})
                    replay_case(kex, case, names, variant=var,
                                run_command=False)
    # two edits
    t2 = tables['dh', 2]
    rnd.shuffle(t2)
    for ci, case in enumerate(t2[:80 if quick else 1500]):
        kex = main_fams[ci % 4]
        replay_case(kex, case, names_for(kex, pick_others(kex)), variant=ci,
                    run_command=False)

    # ---- 3. every pair of preference lists --------------------------------
    one = one_f()

    def varies(case, cat):
        return case['c'][cat] != ['strong'] or case['s'][cat] != ['strong']
    pair_tables = [
        ('kex', [c for c in one if varies(c, 'kex') or not
                 any(varies(c, k) for k in ('hostkey', 'cmp'))]),
        ('hostkey', [c for c in one if varies(c, 'hostkey')]),
        ('cmp', [c for c in one if varies(c, 'cmp')]),
        ('enc+mac', list(encmac_f())),
    ]
    kex_triples = [('curve25519-sha256', 'diffie-hellman-group14-sha256',
                    'ecdh-sha2-nistp256'),
                   ('diffie-hellman-group-exchange-sha256',
                    'mlkem768x25519-sha256', 'rsa2048-sha256'),
                   ('ecdh-sha2-nistp384', 'curve448-sha512',
                    'diffie-hellman-group16-sha512')]
    for cat, table in pair_tables:
        if cat == 'enc+mac' and quick:
            rnd.shuffle(table)
            table = table[:220]
        for ci, case in enumerate(table):
            tri = kex_triples[ci % 3 if cat == 'kex' and not quick else 0]
            names = names_for(tri[0], tri[1:])
            cl, chk = real_lists(case['c'], names)
            sl, shk = real_lists(case['s'], names)
            exp = H.expected_names(cl, sl, chk, shk)
            kexp = exp['kex'] or cl['kex_algs'][0]
            o = H.run_handshake(kexp, client=cl, server=sl,
                                server_hostkeys=shk, client_hostkey_algs=chk)
            label = f'lists {cat} c={case["c"]} s={case["s"]}'
            judge(o, dict(case, edits=[]), kexp, names, label,
                  recipe={'kind': 'case', 'case': dict(case, edits=[]),
                          'names': names, 'variant': 0})
            allcommon = all(v is not None for v in exp.values())
            if o.completed:
                got, _ = H.negotiated(o)
                if got != exp:
                    bad = {k: (got[k], exp[k]) for k in exp
                           if got[k] != exp[k]}
                    ctx.violation(
                        {'module': 'Handshake', 'clause': 'FirstClientPref',
                         'category': sorted(k.split('_')[0] for k in bad)},
                        f'negotiated algorithm is not the first one on the '
                        f'client list that the server supports: '
                        f'(got, expected) = {bad}; client {cl} {chk}, '
                        f'server {sl} {shk}',
                        replay={'kind': 'case', 'kex': kexp, 'names': names,
                                'case': dict(case, edits=[]), 'variant': 0})
            model_compare(o, case['done_c'], kexp, label)
            if case['done_c'] != allcommon:
                raise MachineryError(f'spec and statement disagree on {label}')
            state['traces'] += 1
            ctx.count(('lists', cat, str(case['c']), str(case['s'])))
            if ci % 173 == 5:
                ctx.sample({'lists': cat, 'client': cl, 'server': sl,
                            'client_hostkeys': chk, 'server_hostkeys': shk,
                            'expected': exp, 'completed': o.completed})

    # ---- 4. byte level ----------------------------------------------------
    def byte_sweep(kex, step, narrow, masks, label, only=None):
        names = names_for(kex, pick_others(kex))
        if narrow:
            cl, chk = fixed_lists(names)
            sl, shk = fixed_lists(names)
        else:
            cl, chk, sl, shk = {}, ['ssh-ed25519'], {}, ['ssh-ed25519']
        base = H.run_handshake(kex, client=cl, server=sl,
                               server_hostkeys=shk, client_hostkey_algs=chk)
        ctx.require(base.completed, f'baseline handshake failed for {kex}: '
                    f'{base.client_exc!r}')
        n = 0
        for m in base.mitm.msgs:
            if only and m.name not in only:
                continue
            size = len(m.orig)
            for off in range(0, size, 1):
                if step > 1 and (off * 7 + len(m.name) + ctx.seed) % step != 0:
                    continue
                mask = masks[(off + n) % len(masks)]
                ed = {'msg': m.name, 'fn': H.e_flip(off, mask),
                      'label': f'{m.name}[{off}]^{mask:#x}'}
                o = H.run_handshake(kex, client=cl, server=sl, edits=[ed],
                                    server_hostkeys=shk,
                                    client_hostkey_algs=chk,
                                    run_command=False)
                n += 1
                eff = o.effects[0] if o.effects else 'none'
                judge(o, None, kex, names, ed['label'],
                      bytelevel=f'{m.name}:{eff}',
                      recipe={'kind': 'byte', 'msg': m.name, 'offset': off,
                              'mask': mask, 'narrow': narrow})
                # model: bound / framing -> fail; harmless -> complete
                model_compare(o, eff in ('harmless', 'recoded'), kex,
                              ed['label'])
                if o.completed and eff == 'harmless':
                    got, _ = H.negotiated(o)
                    gb, _ = H.negotiated(base)
                    if got != gb:
                        ctx.violation({'module': 'Handshake',
                                       'clause': 'NoDowngrade',
                                       'bytes': m.name},
                                      f'{kex}: {ed["label"]} completed with '
                                      f'other parameters {got} vs {gb}')
                ctx.count((label, kex, m.name, off, mask))
                if eff == 'harmless' and n % 40 == 3:
                    ctx.sample({'kex': kex, 'byte_edit': ed['label'],
                                'class': eff, 'completed': o.completed})
        state['traces'] += n
        return n

    if quick:
        byte_sweep('curve25519-sha256', 3, True, [0x01, 0x80, 0xff],
                   'bytes')
        for kex in ['diffie-hellman-group-exchange-sha256', 'rsa2048-sha256',
                    'diffie-hellman-group14-sha256', 'ecdh-sha2-nistp256',
                    'mlkem768x25519-sha256']:
            if kex in avail:
                byte_sweep(kex, 16, True, [0x01, 0x40], 'bytes-sample',
                           only={'GREQ', 'GGRP', 'INIT', 'REPLY', 'PUBKEY',
                                 'SECRET', 'DONE', 'NKS', 'NKC'})
    else:
        byte_sweep('curve25519-sha256', 1, False, [0x01, 0x80, 0xff, 0x20],
                   'bytes-default-lists')
        for kex in avail:
            if kex in slow:
                byte_sweep(kex, 24, True, [0x01], 'bytes-sample')
            else:
                heavy = kex.startswith('mlkem') or 'group16' in kex or \
                    'group15' in kex
                byte_sweep(kex, 4 if heavy else 1, True, [0x01, 0x80, 0xff],
                           'bytes')

    # ---- 4b. re-encodings and boundary values of every field --------------
    # structured strings (host key blobs, certificates, K_T, signature
    # blobs): inner elements spelled differently.  K_S and K_T enter the
    # hash as received: every change must fail.
    C = H.CERT_SUFFIX
    combos = [('curve25519-sha256', 'rsa-sha2-256'),
              ('curve25519-sha256', 'ecdsa-sha2-nistp256'),
              ('curve25519-sha256', 'rsa-sha2-256' + C),
              ('curve25519-sha256', 'ssh-ed25519' + C),
              ('rsa2048-sha256', 'ssh-ed25519'),
              ('rsa2048-sha256', 'rsa-sha2-256'),
              ('diffie-hellman-group14-sha256', 'rsa-sha2-256'),
              ('diffie-hellman-group-exchange-sha256',
               'ecdsa-sha2-nistp256')]
    if not quick:
        combos = [(k, h) for k in main_fams for h in
                  ('rsa-sha2-256', 'ecdsa-sha2-nistp256', 'ssh-ed25519',
                   'rsa-sha2-256' + C, 'ssh-ed25519' + C)]
    for kex, hk in combos:
        if kex not in avail:
            continue
        names = names_for(kex, pick_others(kex))
        cl, _ = fixed_lists(names)
        sl, _ = fixed_lists(names)
        base = H.run_handshake(kex, client=cl, server=sl,
                               server_hostkeys=[hk], client_hostkey_algs=[hk],
                               run_command=False)
        ctx.require(base.completed, f'baseline {kex} with host key {hk} '
                    f'failed: {base.client_exc!r}')
        for ed in H.structured_edits(base.mitm.msgs):
            ed = dict(ed, label=f'{ed["label"]} (host key {hk})')
            o = recode_one(kex, ed, cl, sl, [hk], [hk], names, hostkey=hk)
            state['structured'] = state.get('structured', 0) + 1
    ctx.require(state.get('structured', 0) >= 40,
                f'structured-string sweep is vacuous: {state}')
    ctx.notes.append(f'structured strings re-spelled (inner mpints of RSA '
                     f'host keys / certificates / K_T, nested certificate '
                     f'blobs, ECDSA r,s): {state["structured"]} handshakes')
    # the identification exchange, both directions: every variant of every
    # edit class (the case tables pick one variant per row)
    def ident_sweep(kex):
        names = names_for(kex, pick_others(kex))
        cl, chk = fixed_lists(names)
        sl, shk = fixed_lists(names)
        for m in ('VC', 'VS'):
            eds = [(f'v:changed#{i}', H.e_version(i)) for i in range(8)]
            eds += [(f'v:refused#{i}', H.e_version_bad(i)) for i in range(3)]
            eds += [(f'banner#{i}', H.e_banner(i)) for i in range(6)]
            eds += [(f'tail#{i}', H.e_tail(i)) for i in range(4)]
            eds += [(f'split#{i}', H.e_split(i)) for i in range(5)]
            eds += [('eol:lf', H.e_eol)]
            for lbl, fn in eds:
                ed = {'msg': m, 'fn': fn, 'label': f'{m}.{lbl}'}
                o = H.run_handshake(kex, client=cl, server=sl,
                                    edits=[ed], server_hostkeys=shk,
                                    client_hostkey_algs=chk,
                                    run_command=False)
                eff = '+'.join(sorted(set(o.effects))) or 'none'
                judge(o, None, kex, names, ed['label'],
                      bytelevel=f'{ed["label"]}:{eff}',
                      recipe={'kind': 'ident', 'msg': m, 'op': lbl})
                model_compare(o, eff in ('harmless', 'none'), kex,
                              ed['label'])
                ctx.count(('ident', kex, ed['label']))
                state['traces'] += 1
                state['ident'][eff, o.completed] = \
                    state['ident'].get((eff, o.completed), 0) + 1
    state['ident'] = {}
    for kex in (main_fams[:2] if quick else main_fams):
        ident_sweep(kex)
    ctx.notes.append('identification exchange edits by (effect, '
                     'completed): ' + ', '.join(
                         f'{k[0]}/{k[1]}={v}' for k, v in
                         sorted(state['ident'].items())))
    ctx.require(state['ident'].get(('harmless', True), 0) >= 10 and
                state['ident'].get(('bound', False), 0) >= 30,
                f'identification sweep is vacuous: {state["ident"]}')
    if quick:
        recode_sweep('curve25519-sha256', ('IC', 'IS') + KEXMSGS)
        for kex in main_fams[1:]:
            recode_sweep(kex, KEXMSGS)
    else:
        for kex in avail:
            if kex in slow:
                recode_sweep(kex, KEXMSGS, every=3)
            else:
                recode_sweep(kex, ('IC', 'IS') + KEXMSGS,
                             every=1 if kex in main_fams else 2)
    ctx.notes.append('re-encodings / boundary values by (effect on the '
                     'values the receiver takes, completed): ' + ', '.join(
                         f'{k[0]}/{k[1]}={v}' for k, v in
                         sorted(state['recode'].items())))
    ctx.require(state['recode'].get(('recoded', True), 0) >= 4 and
                state['recode'].get(('bound', False), 0) >= 150,
                f're-encoding sweep is vacuous: {state["recode"]}')
    ctx.notes.append(
        'observation (not judged): mpint fields with superfluous leading '
        'zero octets are accepted; the values e, f, p, g they denote are '
        'the ones sent, the exchange hash covers the values, both ends '
        'complete with identical session ids (OpenSSH trims leading zeros '
        'as well)')

    # ---- 5. host key / signature algorithm, histories on one listener ----
    hostkey_replay(ctx, H, quick, rnd, state, hk_tabs)

    join_all(ctx)
    ctx.notes.append('get_server_host_key() entry point, (key reported, '
                     'effect of the edit): ' + ', '.join(
                         f'{k[0]}/{k[1]}={v}' for k, v in
                         sorted(state['entry'].items(), key=str)))
    ctx.require(state['entry'].get((True, 'no edit'), 0) >= 5 and
                state['entry'].get((False, 'bound'), 0) >= 100,
                f'entry point replay is vacuous: {state["entry"]}')
    ctx.traces_validated(state['traces'])
    ctx.notes.append(f'handshakes run against the implementation: '
                     f'{state["n"]}; by (receiver-visible effect of the '
                     f'edits, outcome): ' + ', '.join(
                         f'{k[0]}/{k[1]}={v}'
                         for k, v in sorted(state['tally'].items())))
    ctx.require(state['tally'].get(('harmless', 'completed'), 0) > 20 and
                state['tally'].get(('bound', 'failed'), 0) > 200 and
                state['tally'].get(('no edit', 'completed'), 0) > 100,
                f'replay is vacuous: {state["tally"]}')
    ctx.assumptions += [
        'symbolic cryptography: hashes collision free, signatures '
        'unforgeable, shared secrets unknown to the adversary',
        'GSS key exchange methods are not available in this environment',
        'rsa*-sha* exchanges reuse one transient RSA key per size in bulk '
        'replays (key generation dominates otherwise)',
        'session ids are read from the private attribute _session_id of both '
        'connection objects; key agreement is additionally shown by running '
        'a command over the encrypted session',
        'one write() of the transport = one SSH packet (harness fact)',
    ]


if __name__ == '__main__':
    run_check('C03', main)
