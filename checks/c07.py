"""C07 - channel data arrives complete, in order, once, with EOF last.

TLC exhausts specs/Channel (all interleavings of writes on two data types,
EOF, pause/resume, window adjusts and network deliveries at small windows,
one and two channels) against DeliveredIsPrefix / Isolation / EOFLast;
sampled behaviours of the same spec are replayed into a real client/server
pair with packet-by-packet delivery, comparing the implementation's state
with the model after every step; the monitors are evaluated on the bytes the
real sessions received.  A harness sweep covers text encodings with
multi-byte characters split at every packet boundary."""

from checks import chan_common as cc
from harness.framework import run_check


def text_sweep(ctx, quick):
    """Characters split across packets (utf-8 / utf-16) at packet sizes
    1..4 and tiny windows: the receiving session must see the same string."""
    import asyncssh
    from harness.sshpair import Pair, NoAuthServer
    texts = ['aé€\U0001f600z', '\U0001f600\U0001f600', 'plain',
             'é' * 5, 'x€']
    encs = ['utf-8', 'utf-16-le'] if quick else \
        ['utf-8', 'utf-16-le', 'utf-16-be', 'utf-32-le']
    sizes = [(1, 1), (2, 1), (3, 2), (4, 3), (5, 4)] if quick else \
        [(w, p) for w in range(1, 9) for p in range(1, w + 1)]
    for enc in encs:
        for win, pkt in sizes:
            for text in texts:
                got = []
                state = {}

                class CS(asyncssh.SSHClientSession):
                    def data_received(self, data, datatype):
                        got.append(data)

                    def eof_received(self):
                        state['eof'] = True

                class SS(asyncssh.SSHServerSession):
                    def connection_made(self, chan):
                        self.chan = chan

                    def exec_requested(self, command):
                        return True

                    def session_started(self):
                        self.chan.write(text)
                        self.chan.write_eof()

                class Srv(NoAuthServer):
                    def session_requested(self):
                        return SS()

                p = Pair(server_cls=Srv, server_kw=dict(encoding=enc)).start()
                try:
                    async def go():
                        chan, _ = await p.conn.create_session(
                            CS, command='x', encoding=enc, window=win,
                            max_pktsize=pkt)
                        await chan.wait_closed()
                    try:
                        p.run(go())
                        outcome = 'closed'
                    except BaseException as exc:   # Deadlock included
                        outcome = type(exc).__name__
                finally:
                    exc_ctx = [str(c.get('exception') or c.get('message'))
                               for c in p.loop.exceptions]
                    p.stop()
                key = ('text', enc, win, pkt, text)
                ctx.count(key)
                if ''.join(got) != text or not state.get('eof'):
                    ctx.violation(
                        {'module': 'Channel', 'clause': 'TextBoundary',
                         'encoding': enc, 'window': win, 'pktsize': pkt},
                        f'C07 TextBoundary: wrote {text!r} ({enc}, window '
                        f'{win}, packet {pkt}); session received '
                        f'{"".join(got)!r} eof={state.get("eof")} '
                        f'outcome={outcome} loop={exc_ctx[:1]}',
                        replay={'kind': 'text', 'encoding': enc, 'window': win,
                                'pktsize': pkt, 'text': text})


def main(ctx):
    quick = ctx.tier == 'quick'
    # ---- design check ----
    cc.mc(ctx, 'c07_mc1', {}, cc.C07_INVS + cc.C08_INVS)
    cc.mc(ctx, 'c07_mc2', dict(Chans='{1, 2}', DTs='{0}', InitWin=2, PktSize=1,
                               MaxUnits=2 if quick else 3, MaxWrite=2,
                               MaxPause=1), cc.C07_INVS)
    if not quick:
        cc.mc(ctx, 'c07_mc3', dict(InitWin=4, PktSize=3, MaxUnits=5,
                                   DTs='{0}'), cc.C07_INVS)
        cc.mc(ctx, 'c07_mc4', dict(InitWin=1, PktSize=1, MaxUnits=3),
              cc.C07_INVS)
    # vacuity witnesses
    cc.mc(ctx, 'c07_w1', dict(MaxUnits=2), ['NeverBuffered'],
          expect='NeverBuffered')
    cc.mc(ctx, 'c07_w2', dict(MaxUnits=3), ['NeverAdjust'],
          expect='NeverAdjust')
    # ---- replay ----
    n = 40 if quick else 400
    sims = [
        ('w3p2', {}, n, 30, 1),
        ('w2p1', dict(InitWin=2, PktSize=1, MaxUnits=3), n, 30, 1),
        ('w1p1', dict(InitWin=1, PktSize=1, MaxUnits=3, DTs='{0}'), n, 30, 1),
        ('w4p3', dict(InitWin=4, PktSize=3, MaxUnits=6, MaxWrite=4), n, 30, 1),
        ('two', dict(Chans='{1, 2}', InitWin=2, PktSize=2, MaxUnits=3,
                     MaxWrite=2, MaxPause=1), n, 36, 1),
        ('w3p2x1k', {}, n // 2, 30, 1024),
    ]
    cc.replay_all(ctx, 'C07', 'c07', sims, ctx.seed + 7)
    text_sweep(ctx, quick)
    ctx.assumptions += [
        'one data unit of the model = one byte (x1) or 1024 bytes (x1k)',
        'writer = server session channel, reader = client session channel; '
        'the reverse direction uses the same SSHChannel code',
    ]


if __name__ == '__main__':
    run_check('C07', main)
