"""C07 - channel data arrives complete, in order, once, with EOF last.

TLC exhausts specs/Channel (all interleavings of writes on two data types,
EOF, pause/resume, window adjusts and network deliveries at small windows,
one and two channels) against DeliveredIsPrefix / Isolation / EOFLast;
sampled behaviours of the same spec are replayed into a real client/server
pair with packet-by-packet delivery, comparing the implementation's state
with the model after every step; the monitors are evaluated on the bytes the
real sessions received.  A harness sweep covers text encodings with
multi-byte characters split at every packet boundary.

Text channels have their own specification (specs/Channel/Text.tla:
characters of 1..4 bytes written on two data types, every cut of every data
type's byte stream into packets, senders that empty one buffer in write
order (asyncssh) and senders that interleave data types freely (any SSH
peer), receivers with one decoder per data type or one per channel).  TLC
checks DeliveredIsPrefix / NoDecodeError / NotMisfiled / AllDelivered for
the design as coded and shows that a single shared decoder is only safe
against a FIFO sender; every complete packet script TLC enumerates is sent
by a raw peer to a real text-mode session (client receiving stdout/stderr,
server receiving stdin), and real asyncssh senders writing the same texts
through tiny windows must emit one of the model's FIFO scripts."""

from checks import chan_common as cc
from harness.framework import run_check


def text_sweep(ctx, quick):
    """Characters split across packets (utf-8 / utf-16) at packet sizes
    1..4 and tiny windows: the receiving session must see the same string."""
    import asyncssh
    from harness.sshpair import Pair, NoAuthServer
    texts = ['aé€\U0001f600z', '\U0001f600\U0001f600', 'plain',
             'é' * 5, 'x€']
    encs = ['utf-8', 'utf-16-le'] if quick else \
        ['utf-8', 'utf-16-le', 'utf-16-be', 'utf-32-le']
    sizes = [(1, 1), (2, 1), (3, 2), (4, 3), (5, 4)] if quick else \
        [(w, p) for w in range(1, 9) for p in range(1, w + 1)]
    for enc in encs:
        for win, pkt in sizes:
            for text in texts:
                got = []
                state = {}

                class CS(asyncssh.SSHClientSession):
                    def data_received(self, data, datatype):
                        got.append(data)

                    def eof_received(self):
                        state['eof'] = True

                class SS(asyncssh.SSHServerSession):
                    def connection_made(self, chan):
                        self.chan = chan

                    def exec_requested(self, command):
                        return True

                    def session_started(self):
                        self.chan.write(text)
                        self.chan.write_eof()

                class Srv(NoAuthServer):
                    def session_requested(self):
                        return SS()

                p = Pair(server_cls=Srv, server_kw=dict(encoding=enc)).start()
                try:
                    async def go():
                        chan, _ = await p.conn.create_session(
                            CS, command='x', encoding=enc, window=win,
                            max_pktsize=pkt)
                        await chan.wait_closed()
                    try:
                        p.run(go())
                        outcome = 'closed'
                    except BaseException as exc:   # Deadlock included
                        outcome = type(exc).__name__
                finally:
                    exc_ctx = [str(c.get('exception') or c.get('message'))
                               for c in p.loop.exceptions]
                    p.stop()
                key = ('text', enc, win, pkt, text)
                ctx.count(key)
                if ''.join(got) != text or not state.get('eof'):
                    ctx.violation(
                        {'module': 'Channel', 'clause': 'TextBoundary',
                         'encoding': enc, 'window': win, 'pktsize': pkt},
                        f'C07 TextBoundary: wrote {text!r} ({enc}, window '
                        f'{win}, packet {pkt}); session received '
                        f'{"".join(got)!r} eof={state.get("eof")} '
                        f'outcome={outcome} loop={exc_ctx[:1]}',
                        replay={'kind': 'text', 'encoding': enc, 'window': win,
                                'pktsize': pkt, 'text': text})


TEXT_SPEC = None


def _text_tlc(tag, writes, pkt, fifo, pertype, invs=(), emit=False):
    import os
    from harness import tlc
    from harness.framework import VERIF
    spec = os.path.join(VERIF, 'specs', 'Channel')
    mod = f'Text_MC_{tag}'
    wr = '<<' + ', '.join(
        '[dt |-> %d, w |-> <<%s>>]' % (dt, ', '.join(map(str, ws)))
        for dt, ws in writes) + '>>'
    with open(os.path.join(spec, mod + '.tla'), 'w') as f:
        f.write(f'---- MODULE {mod} ----\nEXTENDS Text\nW_{tag} == {wr}\n'
                '====\n')
    lines = ['CONSTANTS', f'  Writes <- W_{tag}', f'  Pkt = {pkt}',
             f'  FifoSender = {"TRUE" if fifo else "FALSE"}',
             f'  PerTypeDecoder = {"TRUE" if pertype else "FALSE"}',
             'SPECIFICATION Spec', 'CHECK_DEADLOCK FALSE']
    lines += [f'INVARIANT {i}' for i in invs]
    lines.append('INVARIANT EmitScript' if emit else 'VIEW view')
    cfg = f'_{tag}.cfg'
    with open(os.path.join(spec, cfg), 'w') as f:
        f.write('\n'.join(lines) + '\n')
    try:
        res = tlc.run(spec, mod, cfg, tag, workers=1 if emit else 8,
                      timeout=900)
    finally:
        os.remove(os.path.join(spec, mod + '.tla'))
        os.remove(os.path.join(spec, cfg))
        tlc.cleanup(tag)
    scripts = []
    if emit:
        for line in res.output.splitlines():
            if line.startswith('"<<\\"SCRIPT'):
                v = tlc.parse_value(tlc.parse_value(line))
                scripts.append([{'dt': p['dt'],
                                 'b': [tuple(x) for x in p['b']]}
                                for p in v[1]])
    return res, scripts


TEXT_INVS = ['DeliveredIsPrefix', 'NoDecodeError', 'NotMisfiled',
             'AllDelivered']


def text_model(ctx, quick):
    """specs/Channel/Text.tla: design check, raw-sender replay into real
    receivers, real-sender conformance."""
    import random
    from harness.drivers import text as T
    rng = random.Random(ctx.seed + 77)
    # ---- design ----
    w0 = [(0, [2, 1]), (1, [3]), (0, [2])]
    for tag, fifo, per, expect in (
            ('c07_tx_fifo_shared', True, False, None),
            ('c07_tx_any_shared', False, False, 'NoDecodeError'),
            ('c07_tx_any_pertype', False, True, None),
            ('c07_tx_w1', False, True, 'NeverSplit'),
            ('c07_tx_w2', False, True, 'NeverInterleavedSplit')):
        invs = TEXT_INVS if expect is None or expect in TEXT_INVS \
            else [expect]
        res, _ = _text_tlc(tag, w0, 3, fifo, per, invs)
        ctx.require_tlc_ok(f'Text {tag}', res, expect_violation=expect)
    # ---- any SSH peer -> real receiver ----
    cases = [('utf-8', 'client', w0, 3),
             ('utf-8', 'client', [(1, [2]), (0, [4]), (1, [3, 1])], 2),
             ('utf-16-le', 'client', [(0, [2, 4]), (1, [4])], 3),
             ('utf-8', 'server', [(0, [3, 1]), (0, [4])], 2)]
    if not quick:
        cases += [('utf-8', 'client', [(0, [4, 2]), (1, [2, 3]), (0, [1])], 4),
                  ('utf-8', 'client', [(1, [4]), (1, [2]), (0, [3])], 2),
                  ('utf-16-be', 'client', [(1, [2, 4]), (0, [4])], 3),
                  ('utf-32-le', 'client', [(0, [4]), (1, [4])], 3),
                  ('utf-16-le', 'server', [(0, [4, 2]), (0, [2])], 3),
                  ('utf-8', 'server', [(0, [2, 3, 4])], 2)]
    budget = 180 if quick else 2500
    for ci, (enc, role, writes, pkt) in enumerate(cases):
        res, scripts = _text_tlc(f'c07_tx_gen{ci}', writes, pkt,
                                 False, True, emit=True)
        ctx.require_tlc_ok(f'Text scripts {enc} {role} {writes}', res)
        ctx.require(scripts, f'no scripts for text case {ci}')
        chars = T.flatten(writes)
        exp = T.expected(chars, enc)
        if len(scripts) > budget:
            scripts = rng.sample(scripts, budget)
        for script in scripts:
            for errors in (('strict',) if quick else ('strict', 'replace')):
                o = T.recv_case(script, chars, enc, role, errors)
                split = any(p['b'][-1][1] != chars[p['b'][-1][0] - 1][1]
                            for p in script)
                ctx.count(('textrecv', enc, role, errors, str(script)),
                          nontrivial=split)
                ok = o['got'] == exp and (o['eof'] or o['closed']) and \
                    not o['lost'] and o['outcome'] == 'ok'
                if not ok:
                    ctx.violation(
                        {'module': 'Text', 'clause': 'PeerSplit',
                         'encoding': enc, 'role': role,
                         'interleaved': len({p['dt'] for p in script}) > 1},
                        f'C07 text: a peer sent {exp!r} ({enc}) as packets '
                        f'{T.script_bytes(script, chars, enc)}; the {role} '
                        f'session received {o["got"]!r} eof={o["eof"]} '
                        f'lost={o["lost"]} outcome={o["outcome"]}',
                        replay={'kind': 'textrecv', 'encoding': enc,
                                'role': role, 'errors': errors,
                                'writes': writes, 'script': script})
                if o['loop_exceptions']:
                    ctx.divergence(f'text recv {script}: loop exception '
                                   f'{o["loop_exceptions"][0]}')
        ctx.traces_validated(len(scripts))
    # ---- real asyncssh sender: emits a FIFO script of the model ----
    send_cases = [('utf-8', 'server', [(0, [2, 1]), (1, [3]), (0, [4])]),
                  ('utf-8', 'server', [(1, [4, 4]), (0, [1]), (1, [2])]),
                  ('utf-16-le', 'server', [(1, [2, 4]), (0, [4, 2])]),
                  ('utf-8', 'client', [(0, [3, 2]), (0, [4])])]
    for ci, (enc, role, writes) in enumerate(send_cases):
        chars = T.flatten(writes)
        exp = T.expected(chars, enc)
        total = sum(w for _, w in chars)
        for pkt in ((1, 2, 4) if quick else range(1, 6)):
            res, scripts = _text_tlc(f'c07_tx_snd{ci}_{pkt}', writes, pkt,
                                     True, False, emit=True)
            ctx.require_tlc_ok(f'Text fifo scripts {writes} pkt={pkt}', res)
            allowed = {tuple(T.script_bytes(s, chars, enc)) for s in scripts}
            for win in sorted({pkt, pkt + 1, 2 * pkt + 1, total + 3}):
                o = T.send_case(writes, chars, enc, win, pkt, role)
                ctx.count(('textsend', enc, role, str(writes), win, pkt),
                          nontrivial=len(o['emitted']) > len(writes))
                if o['got'] != exp or not o['eof']:
                    ctx.violation(
                        {'module': 'Text', 'clause': 'TextBoundary',
                         'encoding': enc, 'role': role, 'window': win,
                         'pktsize': pkt},
                        f'C07 text: {role} wrote {exp!r} ({enc}, window '
                        f'{win}, packet {pkt}); peer session received '
                        f'{o["got"]!r} eof={o["eof"]} '
                        f'outcome={o["outcome"]} '
                        f'loop={o["loop_exceptions"][:1]}',
                        replay={'kind': 'textsend', 'encoding': enc,
                                'role': role, 'writes': writes,
                                'window': win, 'pktsize': pkt})
                elif tuple(o['emitted']) not in allowed:
                    ctx.divergence(
                        f'text sender {role} {writes} window {win} packet '
                        f'{pkt}: emitted {o["emitted"]} which is not a '
                        f'behaviour of Text.tla with FifoSender')


def editor_sweep(ctx, quick):
    """pty sessions with the server-side line editor: printable text with
    line ends, cut into packets in every way TLC enumerates (Text.tla with
    one data type and one-byte characters), with and without line echo: the
    server application must read exactly the text the client wrote."""
    import asyncssh
    from harness.sshpair import Pair, NoAuthServer
    texts = ['ab\ncd\n', 'a\n\nbc\n', 'abc\nd', '\nxy\nz\n'] if quick else \
        ['ab\ncd\n', 'a\n\nbc\n', 'abc\nd', '\nxy\nz\n', 'one two\n3\n\n',
         'q\nw\ne\nr\n']
    for ti, text in enumerate(texts):
        n = len(text)
        res, scripts = _text_tlc(f'c07_ed{ti}', [(0, [1] * n)],
                                 3 if quick else 4, False, True, emit=True)
        ctx.require_tlc_ok(f'Text packetisations of {n} characters', res)
        cuts = sorted({tuple(len(p['b']) for p in sc) for sc in scripts})
        ctx.require(cuts, 'no packetisations')
        for echo in (True, False):
            for lens in cuts:
                got = []
                st = {}

                class SS(asyncssh.SSHServerSession):
                    def connection_made(self, chan):
                        st['schan'] = chan

                    def pty_requested(self, *a):
                        return True

                    def shell_requested(self):
                        return True

                    def data_received(self, data, datatype):
                        got.append(data)

                    def eof_received(self):
                        st['eof'] = True
                        return False

                class Srv(NoAuthServer):
                    def session_requested(self):
                        return SS()

                p = Pair(server_cls=Srv,
                         server_kw=dict(line_editor=True, line_echo=echo))
                p.start()
                try:
                    async def open_():
                        st['chan'], _ = await p.conn.create_session(
                            asyncssh.SSHClientSession, term_type='ansi')
                    p.run(open_())
                    pos = 0
                    for k in lens:
                        p.call(st['chan'].write, text[pos:pos + k])
                        pos += k
                    p.call(st['chan'].write_eof)
                    p.loop.run_until_idle()
                finally:
                    exc_ctx = [str(c.get('exception') or c.get('message'))
                               for c in p.loop.exceptions]
                    p.stop()
                ctx.count(('editor', text, echo, lens),
                          nontrivial=len(lens) < n)
                # a last line without a line end is handed over at EOF
                if ''.join(got) != text:
                    ctx.violation(
                        {'module': 'Text', 'clause': 'LineEditor',
                         'echo': echo},
                        f'C07 line editor (line_echo={echo}): client wrote '
                        f'{text!r} as packets of {list(lens)} characters; '
                        f'the server application read {"".join(got)!r} '
                        f'loop={exc_ctx[:1]}',
                        replay={'kind': 'editor', 'text': text, 'echo': echo,
                                'lens': list(lens)})


def close_while_paused(ctx, quick):
    """Data buffered while the receiving session has paused reading must
    still be delivered when the peer closes the channel in the meantime:
    fixed schedules (both directions, 1-3 chunks, with and without EOF,
    paused before / between the chunks) plus Lifecycle behaviours with data,
    judged by the DataBeforeClose monitor (a session is told connection_lost
    only after it has been given every byte its peer wrote before a graceful
    close)."""
    import os
    from harness import tlc
    from harness.framework import VERIF
    from harness.drivers import lifecycle
    for x in 'cs':
        for n in (1, 2, 3):
            for eof in (False, True):
                for when in ('before', 'between'):
                    bad, log = lifecycle.paused_close_case(x, n, eof, when)
                    ctx.count(('paused-close', x, n, eof, when),
                              nontrivial=True)
                    bad = [b for b in bad if b.startswith(
                        ('DataBeforeClose', 'CloseOnceAndLast'))]
                    if bad:
                        ctx.violation(
                            {'module': 'Lifecycle', 'clause':
                             'DataBeforeClose', 'sender': x},
                            f'C07 close while paused (sender {x}, {n} chunks, '
                            f'eof={eof}, paused {when}): ' + '; '.join(bad[:2]),
                            replay={'kind': 'paused-close', 'sender': x,
                                    'n': n, 'eof': eof, 'when': when})
    # Lifecycle behaviours with data (the spec C09 checks), judged here for
    # completeness of the data only
    spec = os.path.join(VERIF, 'specs', 'Lifecycle')
    consts = dict(Chans='{1}', Reject='{}', MaxOps=7, Cuts=0,
                  ConnOps='FALSE', WithData='TRUE', Win=0, FlowVariant='"none"', FailReqOnClose='TRUE',
                  ResolveOnConnCleanup='TRUE')
    lines = ['CONSTANTS'] + [f'  {k} = {v}' for k, v in consts.items()]
    lines += ['SPECIFICATION Spec', 'CHECK_DEADLOCK FALSE']
    cfg = f'_c07_lc_{os.getpid()}.cfg'
    with open(os.path.join(spec, cfg), 'w') as f:
        f.write('\n'.join(lines) + '\n')
    tag = f'c07_lc_{os.getpid()}'
    out = tlc.workdir(tag + '_out')
    try:
        res = tlc.run(spec, 'Lifecycle', cfg, tag, workers=4, timeout=600,
                      simulate=f'file={out}/tr,num={12 if quick else 200}',
                      depth=60, seed=ctx.seed + 71)
        ctx.require(not res.error or res.error == 'timeout',
                    f'Lifecycle simulate: {res.error}')
        traces = [[(st['lbl'], st) for _, st in steps[1:]]
                  for _, steps in tlc.read_sim_traces(out, 'tr_')]
    finally:
        tlc.cleanup(tag + '_out')
        tlc.cleanup(tag)
        os.remove(os.path.join(spec, cfg))
    ctx.require(traces, 'no Lifecycle behaviours with data')
    for steps in traces:
        if len(steps) < 3:
            continue
        r = lifecycle.replay(steps, [1], [])
        ctx.count(('lifecycle-data', tuple(map(str, r['script']))),
                  nontrivial=any(l[0] == 'wdata' for l in r['script']))
        bad = [b for b in r['l1'] if b.startswith('DataBeforeClose')]
        if bad:
            ctx.violation({'module': 'Lifecycle', 'clause': 'DataBeforeClose'},
                          'C07 ' + '; '.join(bad[:2]),
                          replay={'kind': 'lifecycle-data',
                                  'script': r['script']})


DUPLEX = ('HonestNoError', 'AllDelivered', 'DataBeforeClose', 'EofDelivered')


def main(ctx):
    quick = ctx.tier == 'quick'
    if ctx.replay_path:
        import json
        rp = json.load(open(ctx.replay_path))
        if rp['replay'].get('kind') == 'duplex':
            return cc.duplex_replay(ctx, rp['replay'], rp['signature'],
                                    DUPLEX)
        raise SystemExit('this replay kind needs the model states; run the '
                         'check itself')
    # ---- design check ----
    cc.mc(ctx, 'c07_mc1', {}, cc.C07_INVS + cc.C08_INVS)
    cc.mc(ctx, 'c07_mc2', dict(Chans='{1, 2}', DTs='{0}', InitWin=2, PktSize=1,
                               MaxUnits=2 if quick else 3, MaxWrite=2,
                               MaxPause=1), cc.C07_INVS)
    if not quick:
        cc.mc(ctx, 'c07_mc3', dict(InitWin=4, PktSize=3, MaxUnits=5,
                                   DTs='{0}'), cc.C07_INVS)
        cc.mc(ctx, 'c07_mc4', dict(InitWin=1, PktSize=1, MaxUnits=3),
              cc.C07_INVS)
    # vacuity witnesses
    cc.mc(ctx, 'c07_w1', dict(MaxUnits=2), ['NeverBuffered'],
          expect='NeverBuffered')
    cc.mc(ctx, 'c07_w2', dict(MaxUnits=3), ['NeverAdjust'],
          expect='NeverAdjust')
    # ---- replay ----
    n = 40 if quick else 400
    sims = [
        ('w3p2', {}, n, 30, 1),
        ('w2p1', dict(InitWin=2, PktSize=1, MaxUnits=3), n, 30, 1),
        ('w1p1', dict(InitWin=1, PktSize=1, MaxUnits=3, DTs='{0}'), n, 30, 1),
        ('w4p3', dict(InitWin=4, PktSize=3, MaxUnits=6, MaxWrite=4), n, 30, 1),
        ('two', dict(Chans='{1, 2}', InitWin=2, PktSize=2, MaxUnits=3,
                     MaxWrite=2, MaxPause=1), n, 36, 1),
        ('w3p2x1k', {}, n // 2, 30, 1024),
        ('w3p2text', {}, n // 2, 30, 'text'),
        ('w1p1text', dict(InitWin=1, PktSize=1, MaxUnits=3, DTs='{0}'), n // 2,
         30, 'text'),
    ]
    cc.replay_all(ctx, 'C07', 'c07', sims, ctx.seed + 7)
    text_sweep(ctx, quick)
    text_model(ctx, quick)
    editor_sweep(ctx, quick)
    close_while_paused(ctx, quick)
    # both directions at once, with windows (Lifecycle with flow control):
    # nothing written is lost when EOF / CLOSE / WINDOW_ADJUST cross
    cc.duplex_flow(ctx, 'C07', quick, DUPLEX, ctx.seed + 29)
    # the same on a connection that re-keys all along (packets held back
    # while an exchange runs must leave afterwards in the order written)
    cc.natural_rekey(ctx, 'C07', quick)
    ctx.assumptions += [
        'one data unit of the model = one byte (x1) or 1024 bytes (x1k)',
        'writer = server session channel, reader = client session channel; '
        'the reverse direction uses the same SSHChannel code',
    ]


if __name__ == '__main__':
    run_check('C07', main)
